(* Correspondence check for merge_config (C17): compares, inside Coq, what the implementation
   returned on a case with the pure specification AND with the regenerated heap-level
   definition run on the same input. *)
From Coq Require Import String.
From Coq Require Import List Bool Arith.
From Asphalt Require Export Config.Val Config.MergeSpec Gen.Gen_merge Corr.Mismatch.
Export ListNotations.
Open Scope string_scope.
Open Scope list_scope.

Record merge_case := MC {
  mc_o : option dict;          (* original (None = Python None) *)
  mc_v : option dict;          (* overrides *)
  mc_result : tree;            (* what merge_config returned *)
  mc_o_after : tree;           (* the arguments as they are after the call *)
  mc_v_after : tree;
  mc_fresh : bool }.           (* result is a new dict object (not one of the arguments) *)

Definition via_gen (fuel : nat) (o v : option dict) : option (tree * tree * tree * bool) :=
  let '(h1, vo) := load (otree o) [] in
  let '(h2, vv) := load (otree v) h1 in
  match merge_config_gen fuel h2 vo vv with
  | None => None
  | Some (h3, r) =>
      match read fuel h3 r, read fuel h3 vo, read fuel h3 vv with
      | Some tr, Some to, Some tv =>
          Some (tr, to, tv, match r with VRef a => Nat.leb (length h2) a | _ => false end)
      | _, _, _ => None
      end
  end.

Definition check_merge_case (c : merge_case) : bool :=
  let spec := TDict (merge (mc_o c) (mc_v c)) in
  let fuel := S (S (Nat.max (depth (otree (mc_o c))) (depth (otree (mc_v c))))) in
  tree_equiv spec (mc_result c) && tree_equiv (mc_result c) spec
  && tree_eqb (otree (mc_o c)) (mc_o_after c)
  && tree_eqb (otree (mc_v c)) (mc_v_after c)
  && mc_fresh c
  && match via_gen fuel (mc_o c) (mc_v c) with
     | Some (tr, to, tv, fr) =>
         tree_eqb tr spec && tree_eqb to (otree (mc_o c)) && tree_eqb tv (otree (mc_v c)) && fr
     | None => false
     end.
