(* Correspondence check for `asphalt run` (C16): what the real command line handed to
   run_application (or the error it reported) against the model. *)
From Coq Require Import String.
From Coq Require Import List Bool Arith.
From Asphalt Require Export Config.Val Config.MergeSpec Config.CliModel Corr.Mismatch.
Export ListNotations.
Open Scope string_scope.
Open Scope list_scope.

Definition err_eqb (a b : err) : bool :=
  match a, b with
  | ENoEq, ENoEq | ENotMapping, ENotMapping | EServicesType, EServicesType | ENoServices, ENoServices
  | EServiceUndefined, EServiceUndefined | EMultiNoDefault, EMultiNoDefault | ENoComponent, ENoComponent
  | ENoType, ENoType | ECrash, ECrash => true
  | _, _ => false
  end.

Definition teq (a b : tree) : bool := tree_equiv a b && tree_equiv b a.

Definition launch_eqb (a b : launch) : bool :=
  teq (l_type a) (l_type b) && teq (TDict (l_root_cfg a)) (TDict (l_root_cfg b))
  && teq (TDict (l_options a)) (TDict (l_options b))
  && teq (l_backend a) (l_backend b) && teq (l_backend_options a) (l_backend_options b).

Record cli_case := CC {
  cc_files : list dict; cc_overrides : list override; cc_flag : option string; cc_env : option string;
  cc_obs : res launch }.

Definition check_cli (c : cli_case) : bool :=
  match cli (cc_files c) (cc_overrides c) (cc_flag c) (cc_env c), cc_obs c with
  | Ok a, Ok b => launch_eqb a b
  | Fail a, Fail b => err_eqb a b
  | _, _ => false
  end.
