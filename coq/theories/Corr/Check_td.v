(* Correspondence check for context teardown (C01): the trace (begin/end of every callback with
   the argument it received), the outcome at the `async with` and `closed`, as observed on the
   implementation, against the model. *)
From Coq Require Import List Bool Arith.
From Asphalt Require Export Td.TdModel Corr.Mismatch.
Export ListNotations.

Fixpoint exc_eqb (a b : exc) : bool :=
  match a, b with
  | Leaf i x, Leaf j y => Nat.eqb i j && Bool.eqb x y
  | Grp l, Grp m =>
      (fix go (l m : list exc) : bool :=
         match l, m with
         | [], [] => true
         | x :: l', y :: m' => exc_eqb x y && go l' m'
         | _, _ => false
         end) l m
  | _, _ => false
  end.
Definition oexc_eqb (a b : option exc) : bool :=
  match a, b with Some x, Some y => exc_eqb x y | None, None => true | _, _ => false end.
Definition how_eqb (a b : how) : bool :=
  match a, b with
  | HOk, HOk | HCancelled, HCancelled => true
  | HRaised x, HRaised y => exc_eqb x y
  | _, _ => false
  end.
Definition tev_eqb (a b : tev) : bool :=
  match a, b with
  | Begin i x, Begin j y =>
      Nat.eqb i j && match x, y with Some p, Some q => oexc_eqb p q | None, None => true | _, _ => false end
  | End_ i h, End_ j g => Nat.eqb i j && how_eqb h g
  | _, _ => false
  end.
Fixpoint trace_eqb (a b : list tev) : bool :=
  match a, b with
  | [], [] => true
  | x :: a', y :: b' => tev_eqb x y && trace_eqb a' b'
  | _, _ => false
  end.
Definition outcome_eqb (a b : outcome) : bool :=
  match a, b with
  | ONormal, ONormal | OCancelled, OCancelled => true
  | ORaise e c, ORaise e' c' => exc_eqb e e' && oexc_eqb c c'
  | _, _ => false
  end.

Record td_case := TC { tc_root : bool; tc_stack : list cb; tc_block : ending; tc_obs : run_result }.

Definition check_td (c : td_case) : bool :=
  match leave (tc_root c) (tc_stack c) (tc_block c) with
  | Some r =>
      trace_eqb (r_trace r) (r_trace (tc_obs c))
      && outcome_eqb (r_outcome r) (r_outcome (tc_obs c))
      && Bool.eqb (r_closed r) (r_closed (tc_obs c))
  | None => false
  end.
