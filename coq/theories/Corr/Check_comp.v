(* Correspondence check for component-tree construction (C14): classes and constructor keyword
   arguments in creation order, and the names under which each component's resources appear. *)
From Coq Require Import String.
From Coq Require Import List Bool Arith.
From Asphalt Require Export Config.Val Config.MergeSpec Config.CompCfg Corr.Mismatch.
Export ListNotations.
Open Scope string_scope.
Open Scope list_scope.

Fixpoint flatten (t : ctree) : list (cls * dict * string) :=
  match t with
  | Node _ c kw dn kids =>
      (c, kw, dn) :: (fix go (l : list ctree) := match l with [] => [] | x :: r => flatten x ++ go r end) kids
  end.

Definition hard_of (tbl : list (cls * dict)) (c : cls) : dict :=
  match find (fun p => Nat.eqb (fst p) c) tbl with Some p => snd p | None => [] end.

(* what was seen of one component: class, kwargs, and the names of the resources it added with
   the default name in prepare(), with the default name in start(), with an explicit name in
   start(), and of the factory it added with the default name in start() *)
Record seen := Seen { o_cls : cls; o_kwargs : dict; o_prep : string; o_start : string; o_explicit : string;
                      o_factory : string }.

Definition cerr_eqb (a b : cerr) : bool :=
  match a, b with
  | EBadType, EBadType | EBadChildConfig, EBadChildConfig | ECrashed, ECrashed | EFuel, EFuel => true
  | _, _ => false
  end.

Definition teq (a b : tree) : bool := tree_equiv a b && tree_equiv b a.

Definition node_ok (m : cls * dict * string) (o : seen) : bool :=
  let '(c, kw, dn) := m in
  Nat.eqb c (o_cls o) && teq (TDict kw) (TDict (o_kwargs o))
  && String.eqb (remap Preparing "default" dn) (o_prep o)
  && String.eqb (remap Starting "default" dn) (o_start o)
  && String.eqb (remap Starting "given" dn) (o_explicit o)
  && String.eqb (remap Starting "default" dn) (o_factory o).

Fixpoint all2 {A B} (f : A -> B -> bool) (a : list A) (b : list B) : bool :=
  match a, b with
  | [], [] => true
  | x :: a', y :: b' => f x y && all2 f a' b'
  | _, _ => false
  end.

Record comp_case := CPC {
  cp_table : list (cls * dict); cp_type : tree; cp_cfg : option dict;
  cp_obs : cres (list seen);
  cp_cfg_after : option dict;     (* the configuration object after the call *)
  cp_second_same : bool }.        (* starting the same object again gave the same tree *)

Definition check_comp (c : comp_case) : bool :=
  match start_tree (hard_of (cp_table c)) 40 (cp_type c) (cp_cfg c), cp_obs c with
  | COk t, COk obs =>
      all2 node_ok (flatten t) obs
      && teq (match cp_cfg c with Some d => TDict d | None => TNone end)
             (match cp_cfg_after c with Some d => TDict d | None => TNone end)
      && cp_second_same c
  | CFail a, CFail b => cerr_eqb a b
  | _, _ => false
  end.
