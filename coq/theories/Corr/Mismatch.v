From Coq Require Import List.
Import ListNotations.

(* indices of the cases on which the boolean comparison model-vs-implementation fails *)
Fixpoint mismatches_from {A} (i : nat) (chk : A -> bool) (l : list A) : list nat :=
  match l with
  | [] => []
  | x :: r => if chk x then mismatches_from (S i) chk r else i :: mismatches_from (S i) chk r
  end.
Definition mismatches {A} (chk : A -> bool) (l : list A) : list nat := mismatches_from 0 chk l.
