(* Correspondence check for the signal model (C10, C11): replays a recorded history on the
   model and compares every outcome with what the real implementation showed. *)
From Coq Require Import List Bool Arith.
From Asphalt Require Export Ev.SigModel Corr.Mismatch.
Export ListNotations.

Definition ev_eqb (a b : ev) : bool :=
  Nat.eqb (e_id a) (e_id b) && Nat.eqb (e_cls a) (e_cls b) && Nat.eqb (e_src a) (e_src b)
  && Nat.eqb (e_topic a) (e_topic b).
Definition dres_eqb (a b : dres) : bool :=
  match a, b with
  | DOk x, DOk y => Nat.eqb x y
  | DTypeErr, DTypeErr | DNoChan, DNoChan => true
  | _, _ => false
  end.
Fixpoint leqb {A} (e : A -> A -> bool) (a b : list A) : bool :=
  match a, b with
  | [], [] => true
  | x :: a', y :: b' => e x y && leqb e a' b'
  | _, _ => false
  end.
Definition ne_eqb (a b : nat * ev) : bool := Nat.eqb (fst a) (fst b) && ev_eqb (snd a) (snd b).
Definition subl {A} (e : A -> A -> bool) (a b : list A) : bool := forallb (fun x => existsb (e x) b) a.

Definition sout_eqb (a b : sout) : bool :=
  match a, b with
  | OChan x, OChan y | OSub x, OSub y => Nat.eqb x y
  | OBurst r d, OBurst r' d' =>
      (* completions of different consumers are unordered within one quiescent step *)
      leqb dres_eqb r r' && subl ne_eqb d d' && subl ne_eqb d' d && Nat.eqb (length d) (length d')
  | OYield e, OYield e' => ev_eqb e e'
  | OBlocked, OBlocked | OLeft, OLeft | OUnbound, OUnbound => true
  | ODropped x, ODropped y => Bool.eqb x y
  | _, _ => false
  end.

Definition sig_case := list (sop * sout).

Fixpoint run_sig (s : sstate) (c : sig_case) : bool :=
  match c with
  | [] => true
  | (o, io) :: r => let '(s', mo) := sstep s o in sout_eqb mo io && run_sig s' r
  end.
Definition check_sig (c : sig_case) : bool := run_sig init c.

Fixpoint first_bad_sig (i : nat) (s : sstate) (c : sig_case) : option (nat * sout) :=
  match c with
  | [] => None
  | (o, io) :: r => let '(s', mo) := sstep s o in
                    if sout_eqb mo io then first_bad_sig (S i) s' r else Some (i, mo)
  end.
