(* Correspondence check for @inject (C19): histories of context operations interleaved with
   decorated functions being defined and called in some context. *)
From Coq Require Import String.
From Coq Require Import List Bool Arith.
From Asphalt Require Export Ctx.ResModel Ctx.InjectModel Corr.Check_res.
Export ListNotations.
Open Scope string_scope.
Open Scope list_scope.

Inductive iop :=
| Plain (o : op)
| Inject (c : nat) (sig : list param) (coro : bool) (tok : nat).

Inductive iobs :=
| OPlain (o : out)
| ORejected
| OUnchanged
| OCall (r : iout).

Definition iout_eqb (a b : iout) : bool :=
  match a, b with
  | IBody x, IBody y => list_eqb out_eqb x y
  | IRaised e, IRaised e' => err_eqb e e'
  | ITypeError, ITypeError => true
  | _, _ => false
  end.

Definition iobs_eqb (a b : iobs) : bool :=
  match a, b with
  | OPlain x, OPlain y => out_eqb x y
  | ORejected, ORejected | OUnchanged, OUnchanged => true
  | OCall x, OCall y => iout_eqb x y
  | _, _ => false
  end.

Definition istep (s : state) (o : iop) : state * iobs :=
  match o with
  | Plain p => let '(s', r) := step s p in (s', OPlain r)
  | Inject c sig coro tok =>
      match decorate sig coro with
      | Rejected => (s, ORejected)
      | Unchanged => (s, OUnchanged)
      | Wrapper ds co =>
          match nth_error s c with
          | Some x => let '(x', r) := call ds co tok x in (update s c x', OCall r)
          | None => (s, OCall (IRaised RuntimeErr))
          end
      end
  end.

Definition inj_case := list (iop * iobs).

Fixpoint run_inj (s : state) (c : inj_case) : bool :=
  match c with
  | [] => true
  | (o, io) :: r => let '(s', mo) := istep s o in iobs_eqb mo io && run_inj s' r
  end.
Definition check_inj (c : inj_case) : bool := run_inj [] c.

Fixpoint first_bad_inj (i : nat) (s : state) (c : inj_case) : option (nat * iobs) :=
  match c with
  | [] => None
  | (o, io) :: r => let '(s', mo) := istep s o in
                    if iobs_eqb mo io then first_bad_inj (S i) s' r else Some (i, mo)
  end.
