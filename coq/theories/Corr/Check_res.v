(* Correspondence check for the resource-table model (C02 C03 C04 C13 C18): replays a recorded
   history on the model and compares, after every operation, the outcome and a probe of every
   context with what the real implementation showed.  A mask selects the observables a
   property is about. *)
From Coq Require Import String.
From Coq Require Import List Bool Arith.
From Asphalt Require Export Ctx.ResModel Corr.Mismatch.
Export ListNotations.
Open Scope string_scope.
Open Scope list_scope.

Record probe1 := P1 {
  p_closed : bool;
  p_maps : list (ty * list (string * value));
  p_events : list revent;
  p_calls : list (key * nat) }.

Record mask := Mask {
  m_add : bool;     (* outcomes of add_resource / add_resource_factory / add_teardown_callback *)
  m_get : bool;     (* outcomes of lookups *)
  m_life : bool;    (* outcomes of enter / exit (teardown traces) *)
  m_rt : bool;      (* for every operation: is the outcome RuntimeError or not *)
  m_maps : bool;    (* get_resources of every context for every type *)
  m_events : bool;  (* resource_added events seen by every context's listener *)
  m_closed : bool;  (* Context.closed *)
  m_calls : bool }. (* number of times each factory body was started per context *)

Definition list_eqb {A} (e : A -> A -> bool) : list A -> list A -> bool :=
  fix go (a b : list A) : bool :=
    match a, b with
    | [], [] => true
    | x :: a', y :: b' => e x y && go a' b'
    | _, _ => false
    end.
Definition opt_eqb {A} (e : A -> A -> bool) (a b : option A) : bool :=
  match a, b with Some x, Some y => e x y | None, None => true | _, _ => false end.
Definition sub {A} (e : A -> A -> bool) (a b : list A) : bool := forallb (fun x => existsb (e x) b) a.
Definition set_eqb {A} (e : A -> A -> bool) (a b : list A) : bool := sub e a b && sub e b a.

Definition nv_eqb (a b : string * value) : bool := String.eqb (fst a) (fst b) && value_eqb (snd a) (snd b).
Definition err_eqb (a b : err) : bool :=
  match a, b with
  | RuntimeErr, RuntimeErr | ValueErr, ValueErr | TypeErr, TypeErr | Conflict, Conflict
  | NotFound, NotFound | AsyncErr, AsyncErr => true
  | _, _ => false
  end.
Definition out_eqb (a b : out) : bool :=
  match a, b with
  | OK, OK | NoneVal, NoneVal | Pending, Pending => true
  | Val x, Val y => value_eqb x y
  | Err x, Err y => err_eqb x y
  | Map x, Map y => set_eqb nv_eqb x y
  | Exited r c, Exited r' c' => list_eqb Nat.eqb r r' && Bool.eqb c c'
  | Began r, Began r' => list_eqb Nat.eqb r r'
  | _, _ => false
  end.
Definition is_rt (o : out) : bool := match o with Err RuntimeErr => true | _ => false end.

Definition revent_eqb (a b : revent) : bool :=
  list_eqb Nat.eqb (ev_types a) (ev_types b) && String.eqb (ev_name a) (ev_name b)
  && opt_eqb Nat.eqb (ev_desc a) (ev_desc b) && Bool.eqb (ev_is_factory a) (ev_is_factory b).

Definition nn_eqb (a b : key * nat) : bool := key_eqb (fst a) (fst b) && Nat.eqb (snd a) (snd b).

Inductive opclass := KAdd | KGet | KLife | KNew.
Definition class_of (o : op) : opclass :=
  match o with
  | New _ => KNew
  | At _ a =>
      match a with
      | AEnter | AExitBegin _ | AExitEnd => KLife
      | AAddResource _ _ _ _ _ _ | AAddFactory _ _ _ _ _ | AAddTeardown _ => KAdd
      | _ => KGet
      end
  end.

Definition out_ok (m : mask) (o : op) (model impl : out) : bool :=
  (if m_rt m then Bool.eqb (is_rt model) (is_rt impl) else true) &&
  (if match class_of o with
      | KAdd => m_add m | KGet => m_get m | KLife => m_life m | KNew => true
      end
   then out_eqb model impl else true).

Definition all_types : list ty := [0; 1; 2; 3; 89; 90; 91].
Fixpoint tfind (t : ty) (l : list (ty * list (string * value))) : list (string * value) :=
  match l with [] => [] | (t', m) :: r => if Nat.eqb t t' then m else tfind t r end.

Definition probe_ok (m : mask) (x : ctx) (p : probe1) : bool :=
  (if m_closed m then Bool.eqb (closed_flag x) (p_closed p) else true) &&
  (if m_maps m then forallb (fun t => set_eqb nv_eqb (get_resources x t) (tfind t (p_maps p))) all_types else true) &&
  (if m_events m then list_eqb revent_eqb (evlog x) (p_events p) else true) &&
  (if m_calls m then set_eqb nn_eqb (filter (fun fc => negb (Nat.eqb (snd fc) 0)) (calls x)) (p_calls p) else true).

Fixpoint probes_ok (m : mask) (s : state) (ps : list probe1) : bool :=
  match s, ps with
  | [], [] => true
  | x :: s', p :: ps' => probe_ok m x p && probes_ok m s' ps'
  | _, _ => false
  end.

(* the implementation's probes are transmitted as deltas: (context index, new probe) for the
   contexts whose probe changed in this step (a new context is a change) *)
Fixpoint set_nth {A} (l : list A) (i : nat) (x : A) : list A :=
  match l, i with
  | [], _ => [x]
  | _ :: r, O => x :: r
  | y :: r, S i' => y :: set_nth r i' x
  end.
Definition apply_deltas (ps : list probe1) (d : list (nat * probe1)) : list probe1 :=
  fold_left (fun acc ip => set_nth acc (fst ip) (snd ip)) d ps.

Definition res_case := list (op * (out * list (nat * probe1))).

Fixpoint run_check (m : mask) (s : state) (ips : list probe1) (steps : res_case) : bool :=
  match steps with
  | [] => true
  | (o, (io, d)) :: r =>
      let '(s', mo) := step s o in
      let ips' := apply_deltas ips d in
      out_ok m o mo io && probes_ok m s' ips' && run_check m s' ips' r
  end.

Definition check_res (m : mask) (c : res_case) : bool := run_check m [] [] c.

(* index of the first step that disagrees, with the model's outcome (diagnostics) *)
Fixpoint first_bad (m : mask) (i : nat) (s : state) (ips : list probe1) (steps : res_case) : option (nat * out) :=
  match steps with
  | [] => None
  | (o, (io, d)) :: r =>
      let '(s', mo) := step s o in
      let ips' := apply_deltas ips d in
      if out_ok m o mo io && probes_ok m s' ips' then first_bad m (S i) s' ips' r else Some (i, mo)
  end.

Definition mask_all := Mask true true true true true true true true.
Definition mask_C02 := Mask false true false false true false false false.
Definition mask_C03 := Mask true true true false true true false false.
Definition mask_C04 := Mask false true false false true false false true.
Definition mask_C13 := Mask false false true true false false true false.
Definition mask_C18 := Mask false false false false false true false false.
