(* Correspondence check for the application runner (C15): the history of what the application's
   own code did (as it really executed under run_application), the teardown observations and the
   way run_application ended, compared with the model. *)
From Coq Require Import List Bool Arith ZArith.
From Asphalt Require Export Conc.Runner Corr.Mismatch.
Export ListNotations.

Definition exn_eqb (a b : exn) : bool :=
  match a, b with XCrash x, XCrash y | XRun x, XRun y => Nat.eqb x y | _, _ => false end.
Definition arg_eqb (a b : arg) : bool :=
  match a, b with
  | ANoArg, ANoArg | ANone, ANone | ACancelled, ACancelled => true
  | AExc x, AExc y => exn_eqb x y
  | _, _ => false
  end.
Definition obs_eqb (a b : obs) : bool :=
  match a, b with
  | Td i x, Td j y => Nat.eqb i j && arg_eqb x y
  | SvcCancelled x, SvcCancelled y => Nat.eqb x y
  | _, _ => false
  end.
Definition outcome_eqb (a b : outcome) : bool :=
  match a, b with
  | OReturn, OReturn => true
  | OExit x, OExit y => Z.eqb x y
  | ORaised x, ORaised y => exn_eqb x y
  | ORaisedTd a x, ORaisedTd b y =>
      (fix eq (a b : list nat) := match a, b with [] , [] => true | p :: a', q :: b' => Nat.eqb p q && eq a' b' | _, _ => false end) a b
      && match x, y with None, None => true | Some p, Some q => Nat.eqb p q | _, _ => false end
  | _, _ => false
  end.

Fixpoint list_eqb {A} (e : A -> A -> bool) (a b : list A) : bool :=
  match a, b with [], [] => true | x :: a', y :: b' => e x y && list_eqb e a' b' | _, _ => false end.
Fixpoint remove1 {A} (e : A -> A -> bool) (x : A) (l : list A) : option (list A) :=
  match l with
  | [] => None
  | y :: r => if e x y then Some r else match remove1 e x r with Some r' => Some (y :: r') | None => None end
  end.
Fixpoint mset_eqb {A} (e : A -> A -> bool) (a b : list A) : bool :=
  match a with
  | [] => match b with [] => true | _ => false end
  | x :: a' => match remove1 e x b with Some b' => mset_eqb e a' b' | None => false end
  end.

Definition is_td (o : obs) : bool := match o with Td _ _ => true | _ => false end.

Record run_case := RC {
  rc_cli : bool;
  rc_alive : list ev;        (* a prefix of the history after which the application was still running *)
  rc_raisers : list nat;     (* the teardown callbacks that raise when called *)
  rc_hist : list ev;         (* everything the application's code did, in execution order *)
  rc_obs : list obs;         (* the teardown, as observed *)
  rc_out : outcome }.

(* after a crash every service task is cancelled at once, so where their cancellations fall among
   the callbacks is a race: compare the callbacks in order and the cancellations as a set *)
Definition check_run (c : run_case) : bool :=
  match app_r (rc_cli c) (rc_raisers c) (rc_hist c) with
  | None => false
  | Some (o, out) =>
      outcome_eqb out (rc_out c) &&
      (match out with
       | ORaised (XCrash _) | ORaisedTd _ (Some _) =>
           list_eqb obs_eqb (filter is_td o) (filter is_td (rc_obs c)) &&
           mset_eqb obs_eqb (filter (fun x => negb (is_td x)) o) (filter (fun x => negb (is_td x)) (rc_obs c))
       | _ => list_eqb obs_eqb o (rc_obs c)
       end) &&
      match app (rc_cli c) (rc_alive c) with None => true | Some _ => false end
  end.

Definition show_run (c : run_case) := app_r (rc_cli c) (rc_raisers c) (rc_hist c).
