(* Correspondence check for service tasks at teardown (C08): lock-step comparison of enabled gates
   and observation batches. *)
From Coq Require Import List Bool Arith.
From Asphalt Require Export Conc.Service Corr.Mismatch.
Export ListNotations.

Definition obs_eqb (a b : obs) : bool :=
  match a, b with
  | TdBegin x, TdBegin y | Started x, Started y | Seg x, Seg y | ActionInvoked x, ActionInvoked y
  | CancelSeen x, CancelSeen y | StopSeen x, StopSeen y | Clean x, Clean y | CtxSeg x, CtxSeg y | Finished x, Finished y => Nat.eqb x y
  | Left, Left => true
  | _, _ => false
  end.
Definition gate_eqb (a b : gate) : bool :=
  match a, b with GBlock, GBlock => true | GTask x, GTask y => Nat.eqb x y | _, _ => false end.

Fixpoint remove1 {A} (e : A -> A -> bool) (x : A) (l : list A) : option (list A) :=
  match l with
  | [] => None
  | y :: r => if e x y then Some r else match remove1 e x r with Some r' => Some (y :: r') | None => None end
  end.
Fixpoint mset_eqb {A} (e : A -> A -> bool) (a b : list A) : bool :=
  match a with
  | [] => match b with [] => true | _ => false end
  | x :: a' => match remove1 e x b with Some b' => mset_eqb e a' b' | None => false end
  end.
Fixpoint list_eqb {A} (e : A -> A -> bool) (a b : list A) : bool :=
  match a, b with [], [] => true | x :: a', y :: b' => e x y && list_eqb e a' b' | _, _ => false end.

Record svc_case := VC {
  vc_svcs : list svc; vc_prog : list bop;
  vc_steps : list (gate * (list gate * list obs));
  vc_left : bool }.                 (* the owning block has been left at the end of the run *)

(* the model has run out of silent transitions (the fuel of [settle] was sufficient) *)
Definition quiescent_b (SV : list svc) (s : st) : bool :=
  match first_task SV s (seq 0 (length SV)) with
  | Some _ => false
  | None => match silent_owner SV s with Some _ => false | None => true end
  end.

Fixpoint run_steps (SV : list svc) (prog : list bop) (s : st) (steps : list (gate * (list gate * list obs))) : bool * st :=
  match steps with
  | [] => (true, s)
  | (g, (en, batch)) :: r =>
      let '(s', o) := fire SV prog s g in
      if list_eqb gate_eqb (enabled SV s) en && mset_eqb obs_eqb o batch && quiescent_b SV s'
      then run_steps SV prog s' r else (false, s')
  end.

Definition check_svc (c : svc_case) : bool :=
  let '(ok, s) := run_steps (vc_svcs c) (vc_prog c) (init (vc_svcs c) (vc_prog c)) (vc_steps c) in
  ok && Bool.eqb (match own s with OLeft => true | _ => false end) (vc_left c)
  && (if vc_left c then match enabled (vc_svcs c) s with [] => true | _ => false end else true).

Fixpoint first_bad_step (SV : list svc) (prog : list bop) (i : nat) (s : st) (steps : list (gate * (list gate * list obs)))
  : option (nat * list gate * list obs) :=
  match steps with
  | [] => None
  | (g, (en, batch)) :: r =>
      let '(s', o) := fire SV prog s g in
      if list_eqb gate_eqb (enabled SV s) en && mset_eqb obs_eqb o batch
      then first_bad_step SV prog (S i) s' r else Some (i, enabled SV s, o)
  end.
