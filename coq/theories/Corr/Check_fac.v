(* Correspondence check for task factories (C09): every director step compares the observation
   batch and the set all_task_handles() returns. *)
From Coq Require Import List Bool Arith.
From Asphalt Require Export Conc.Factory Corr.Mismatch.
Export ListNotations.

Definition obs_eqb (a b : obs) : bool :=
  match a, b with
  | Spawned k p, Spawned k' p' => Nat.eqb k k' && Bool.eqb p p'
  | SpawnFailed, SpawnFailed | OwnerLeft, OwnerLeft => true
  | Seg x, Seg y | Ended x, Ended y | CancelSeen x, CancelSeen y | OwnerRaised x, OwnerRaised y => Nat.eqb x y
  | Handler k e, Handler k' e' => Nat.eqb k k' && Nat.eqb e e'
  | _, _ => false
  end.

Fixpoint remove1 {A} (e : A -> A -> bool) (x : A) (l : list A) : option (list A) :=
  match l with
  | [] => None
  | y :: r => if e x y then Some r else match remove1 e x r with Some r' => Some (y :: r') | None => None end
  end.
Fixpoint mset_eqb {A} (e : A -> A -> bool) (a b : list A) : bool :=
  match a with
  | [] => match b with [] => true | _ => false end
  | x :: a' => match remove1 e x b with Some b' => mset_eqb e a' b' | None => false end
  end.

Record fac_case := FC {
  fc_verdict : option bool;
  fc_steps : list (list gate * (list obs * list nat)) }.
  (* the gates fired without a pause in between, the batch, all_task_handles() afterwards *)

Fixpoint fire_all (v : option bool) (s : st) (gs : list gate) : st * list obs :=
  match gs with
  | [] => (s, [])
  | g :: r => let '(s1, o1) := fire v s g in let '(s2, o2) := fire_all v s1 r in (s2, o1 ++ o2)
  end.

Fixpoint run_steps (v : option bool) (s : st) (steps : list (list gate * (list obs * list nat))) : bool :=
  match steps with
  | [] => true
  | (gs, (batch, live)) :: r =>
      let '(s', o) := fire_all v s gs in
      mset_eqb obs_eqb o batch && mset_eqb Nat.eqb (handles s') live && run_steps v s' r
  end.

Definition check_fac (c : fac_case) : bool := run_steps (fc_verdict c) init (fc_steps c).

Fixpoint first_bad_step (v : option bool) (i : nat) (s : st) (steps : list (list gate * (list obs * list nat)))
  : option (nat * list obs * list nat) :=
  match steps with
  | [] => None
  | (gs, (batch, live)) :: r =>
      let '(s', o) := fire_all v s gs in
      if mset_eqb obs_eqb o batch && mset_eqb Nat.eqb (handles s') live then first_bad_step v (S i) s' r
      else Some (i, o, handles s')
  end.
