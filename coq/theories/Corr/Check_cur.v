(* Correspondence check for current_context() (C12). *)
From Coq Require Import List Bool Arith.
From Asphalt Require Export Conc.CurCtx Corr.Mismatch.
Export ListNotations.

Definition cid_eqb (a b : cid) : bool := Nat.eqb (fst a) (fst b) && Nat.eqb (snd a) (snd b).
Definition ocid_eqb (a b : option cid) : bool :=
  match a, b with Some x, Some y => cid_eqb x y | None, None => true | _, _ => false end.
Definition out_eqb (a b : out) : bool :=
  match a, b with
  | OEntered c p, OEntered c' p' => cid_eqb c c' && ocid_eqb p p'
  | OCurrent c, OCurrent c' => ocid_eqb c c'
  | OParent p, OParent p' => ocid_eqb p p'
  | OSpawned t c p, OSpawned t' c' p' => Nat.eqb t t' && ocid_eqb c c' && ocid_eqb p p'
  | ODone, ODone => true
  | _, _ => false
  end.

Definition cur_case := list (op * out).
Fixpoint run_cur (s : state) (c : cur_case) : bool :=
  match c with
  | [] => true
  | (o, io) :: r => let '(s', mo) := step s o in out_eqb mo io && run_cur s' r
  end.
Definition check_cur (c : cur_case) : bool := run_cur init c.
