(* Correspondence check for the startup machine (C05 C06 C07): lock-step comparison of enabled
   gates and observation batches at every director step, then outcome, published resources and
   the surrounding context's teardown order. *)
From Coq Require Import List Bool Arith.
From Asphalt Require Export Conc.Startup Corr.Mismatch.
Export ListNotations.

Definition oval_eqb (a b : option val) : bool :=
  match a, b with
  | Some x, Some y => Nat.eqb (v_by x) (v_by y) && Nat.eqb (v_seq x) (v_seq y) && Bool.eqb (v_factory x) (v_factory y)
  | None, None => true
  | _, _ => false
  end.
Definition obs_eqb (a b : obs) : bool :=
  match a, b with
  | PB x, PB y | PE x, PE y | SB x, SB y | SE x, SE y | Failed x, Failed y | Cancelled x, Cancelled y => Nat.eqb x y
  | Got c k v, Got c' k' v' => Nat.eqb c c' && key_eqb k k' && oval_eqb v v'
  | Returned, Returned | Raised, Raised => true
  | _, _ => false
  end.
Definition gate_eqb (a b : gate) : bool :=
  match a, b with GComp x, GComp y => Nat.eqb x y | GTimeout, GTimeout => true | _, _ => false end.

Fixpoint remove1 {A} (e : A -> A -> bool) (x : A) (l : list A) : option (list A) :=
  match l with
  | [] => None
  | y :: r => if e x y then Some r else match remove1 e x r with Some r' => Some (y :: r') | None => None end
  end.
(* equality as multisets: within one quiescent step the order of independent tasks is the backend's *)
Fixpoint mset_eqb {A} (e : A -> A -> bool) (a b : list A) : bool :=
  match a with
  | [] => match b with [] => true | _ => false end
  | x :: a' => match remove1 e x b with Some b' => mset_eqb e a' b' | None => false end
  end.
Fixpoint list_eqb {A} (e : A -> A -> bool) (a b : list A) : bool :=
  match a, b with [], [] => true | x :: a', y :: b' => e x y && list_eqb e a' b' | _, _ => false end.

Inductive final :=
| FReturned | FError (f : nat) (in_start : bool) (c : cause) | FTimeout | FUnfinished.
Definition cause_eqb (a b : cause) : bool :=
  match a, b with CExc x, CExc y => Nat.eqb x y | CConflict, CConflict => true | _, _ => false end.
Definition final_ok (s : status) (f : final) : bool :=
  match s, f with
  | Done, FReturned | TimedOut, FTimeout | Running, FUnfinished => true
  | Aborted c st ca, FError c' st' ca' => Nat.eqb c c' && Bool.eqb st st' && cause_eqb ca ca'
  | _, _ => false
  end.

Definition kv_eqb (a b : key * val) : bool := key_eqb (fst a) (fst b) && oval_eqb (Some (snd a)) (Some (snd b)).

Record start_case := SC {
  sc_prog : prog; sc_timeout : bool;
  sc_first : list obs;                                   (* observations up to the first quiescent point *)
  sc_steps : list (gate * (list gate * list obs));       (* fired gate, enabled set before, batch after *)
  sc_final : final;
  sc_table : list (key * val);
  sc_teardown : list nat }.

(* the model has run to quiescence (its fuel was sufficient): nothing internal is left to do *)
Definition quiescent_b (P : prog) (s : st) : bool :=
  negb (is_running s) ||
  match first_silent P s (seq 0 (length P)) with None => negb (Nat.eqb (rank (ph s 0)) 4) | Some _ => false end.

Fixpoint run_steps (P : prog) (s : st) (steps : list (gate * (list gate * list obs))) : bool * st :=
  match steps with
  | [] => (true, s)
  | (g, (en, batch)) :: r =>
      let '(s', o) := fire P s g in
      if list_eqb gate_eqb (enabled P s) en && mset_eqb obs_eqb o batch && quiescent_b P s'
      then run_steps P s' r else (false, s')
  end.

Definition check_start (c : start_case) : bool :=
  let '(s0, o0) := init (sc_prog c) (sc_timeout c) in
  mset_eqb obs_eqb o0 (sc_first c) && quiescent_b (sc_prog c) s0 &&
  let '(ok, s) := run_steps (sc_prog c) s0 (sc_steps c) in
  ok && final_ok (status_of s) (sc_final c)
  && mset_eqb kv_eqb (visible s) (sc_table c)
  && match sc_final c with FUnfinished => true | _ => list_eqb Nat.eqb (rev (tds s)) (sc_teardown c) end.

(* diagnostics: index of the first step that disagrees and what the model says there *)
Fixpoint first_bad_step (P : prog) (i : nat) (s : st) (steps : list (gate * (list gate * list obs)))
  : option (nat * list gate * list obs) :=
  match steps with
  | [] => None
  | (g, (en, batch)) :: r =>
      let '(s', o) := fire P s g in
      if list_eqb gate_eqb (enabled P s) en && mset_eqb obs_eqb o batch
      then first_bad_step P (S i) s' r else Some (i, enabled P s, o)
  end.
