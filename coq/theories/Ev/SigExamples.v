(* Non-vacuity for C10 / C11: a concrete program reaching the situations the theorems speak of. *)
From Coq Require Import List Bool Arith.
From Asphalt Require Import Ev.SigModel Ev.SigProofs.
Import ListNotations.

Definition souts (h : list sop) : list sout :=
  snd (fold_left (fun so o => let '(s, acc) := so in let '(s', r) := sstep s o in (s', acc ++ [r])) h (init, [])).

(* instance 0 with attributes 0 and 1, instance 1 with attribute 0; three subscribers of channel
   0 with queue sizes 1, 2 and 0 (the last one blocked in __anext__), one waiter on channel 1
   with a filter; a burst that overflows subscriber 0 only; a wrongly typed event *)
Definition p1 : list sop :=
  [ Access 0 0; Access 0 1; Access 1 0; Access 0 0;
    Subscribe [0] 0 1; Subscribe [0; 2] 1 2; Subscribe [0] 0 0; Wait [1] 2;
    Recv 2;
    Burst [(0, (10, 0)); (0, (11, 0)); (1, (12, 0)); (1, (13, 2)); (1, (14, 3)); (2, (16, 0))];
    Recv 0; Recv 0; Recv 1; Recv 1; Leave 0; Burst [(0, (18, 0))]; Recv 1; ClassUse 0 HDispatch ].

Example p1_outs : souts p1 =
  [ OChan 0; OChan 1; OChan 2; OChan 0; OSub 0; OSub 1; OSub 2; OSub 3; OBlocked;
    OBurst [DOk 0; DOk 2; DTypeErr; DTypeErr; DOk 0; DOk 1] [(2, Ev 10 0 0 0); (3, Ev 14 3 0 1)];
    OYield (Ev 10 0 0 0); OBlocked; OYield (Ev 10 0 0 0); OBlocked; OLeft;
    OBurst [DOk 1] [(1, Ev 18 0 0 0)]; OBlocked; OUnbound ].
Proof. vm_compute. reflexivity. Qed.

(* subscriber 1 (channels 0 and 2, even ids only, queue of 2): event 16 overflowed for it alone *)
Example p1_accepted : match nth_error (streams (srun init p1)) 1 with
  | Some st => s_accepted st = [Ev 10 0 0 0; Ev 11 0 0 0; Ev 18 0 0 0] /\
               s_yielded st = [Ev 10 0 0 0; Ev 18 0 0 0]
  | None => False end.
Proof. vm_compute. auto. Qed.
