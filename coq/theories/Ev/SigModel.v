(* Model of asphalt's signals (src/asphalt/core/_event.py): the table of bound signals
   (descriptor access), subscriptions through stream_events / wait_event, dispatch with
   per-subscriber bounded queues and anyio's direct hand-off to a waiting receiver.
   Used by C10 and C11.  Definitions only. *)
From Coq Require Import List Bool Arith.
From Asphalt Require Import Gen.Gen_signal Gen.Gen_stream.
Import ListNotations.

(* ---------- identifiers ---------- *)
Definition inst := nat.      (* owner instances, by identity *)
Definition attr := nat.      (* signal attributes (topic names) *)
Definition chanid := nat.    (* bound signal objects, numbered in order of creation *)

(* event classes: 0 = Event, 1 and 2 its subclasses, 3 a subclass of 1 *)
Definition ecls := nat.
Definition cls_sub (c d : ecls) : bool :=
  Nat.eqb c d || Nat.eqb d 0 || (Nat.eqb c 3 && Nat.eqb d 1).
(* the event class a Signal attribute was declared with *)
Definition attr_cls (a : attr) : ecls := match a with 0 => 0 | 1 => 1 | 2 => 2 | _ => 0 end.

Record ev := Ev { e_id : nat; e_cls : ecls; e_src : inst; e_topic : attr }.

(* filters: a small pool of predicates, identified by number *)
Definition flt_pass (f : nat) (e : ev) : bool :=
  match f with
  | 0 => true                                   (* no filter *)
  | 1 => Nat.even (e_id e)
  | 2 => Nat.eqb (e_cls e) 1 || Nat.eqb (e_cls e) 3
  | 3 => Nat.eqb (e_topic e) 0
  | _ => false
  end.

Record stream := Stream {
  s_chans : list chanid;
  s_flt : nat;
  s_cap : option nat;          (* None: unbounded (wait_event) *)
  s_oneshot : bool;            (* wait_event: leaves after the first event it returns *)
  s_active : bool;             (* subscribed (between entering and leaving the stream) *)
  s_queue : list ev;
  s_waiting : bool;            (* the consumer is blocked in __anext__ on an empty queue *)
  s_handed : option ev;        (* an event handed directly to the blocked consumer, not yet seen by it *)
  s_accepted : list ev;        (* ghost: every event enqueued or handed, in order *)
  s_consumed : list ev;        (* ghost: every event the receiving side has taken, in order *)
  s_yielded : list ev          (* ghost: every event the stream has yielded, in order *)
}.

Record sstate := SS {
  bound : list ((inst * attr) * chanid);   (* the table of bound signals *)
  streams : list stream;                   (* index = subscriber id, in order of subscription *)
  warnings : nat                           (* SignalQueueFull warnings issued so far *)
}.

Definition init : sstate := SS [] [] 0.

(* ---------- the bound-signal table ---------- *)
(* the key of the table as the translator read it from Signal.__get__ on this run (Gen/Gen_signal.v): the
   instance (by identity) and, if the key includes it, the attribute name *)
Definition ia_eqb (x y : inst * attr) : bool :=
  Nat.eqb (fst x) (fst y) && (if sig_key_includes_topic then Nat.eqb (snd x) (snd y) else true).
Fixpoint lookup_bound (k : inst * attr) (l : list ((inst * attr) * chanid)) : option chanid :=
  match l with
  | [] => None
  | (k', c) :: r => if ia_eqb k k' then Some c else lookup_bound k r
  end.
Fixpoint owner_of (c : chanid) (l : list ((inst * attr) * chanid)) : option (inst * attr) :=
  match l with
  | [] => None
  | (k, c') :: r => if Nat.eqb c c' then Some k else owner_of c r
  end.

(* instance.attribute: the bound signal of that pair, created on first access *)
Definition access (s : sstate) (i : inst) (a : attr) : sstate * chanid :=
  match lookup_bound (i, a) (bound s) with
  | Some c => (s, c)
  | None => let c := length (bound s) in (SS (bound s ++ [((i, a), c)]) (streams s) (warnings s), c)
  end.

(* ---------- streams ---------- *)
Definition set_queue st q := Stream (s_chans st) (s_flt st) (s_cap st) (s_oneshot st) (s_active st) q (s_waiting st) (s_handed st) (s_accepted st) (s_consumed st) (s_yielded st).

Definition has_room (st : stream) : bool :=
  match s_cap st with None => true | Some n => Nat.ltb (length (s_queue st)) n end.

(* one send_nowait to one subscriber; the boolean says "queue full: warn" *)
Definition deliver1 (e : ev) (st : stream) : stream * bool :=
  if s_waiting st then
    (Stream (s_chans st) (s_flt st) (s_cap st) (s_oneshot st) (s_active st) (s_queue st) false (Some e)
            (s_accepted st ++ [e]) (s_consumed st) (s_yielded st), false)
  else if has_room st then
    (Stream (s_chans st) (s_flt st) (s_cap st) (s_oneshot st) (s_active st) (s_queue st ++ [e]) false (s_handed st)
            (s_accepted st ++ [e]) (s_consumed st) (s_yielded st), false)
  else (st, true).

Definition subscribed (c : chanid) (st : stream) : bool := s_active st && existsb (Nat.eqb c) (s_chans st).

(* dispatch to a copy of the subscriber list, in subscription order *)
Fixpoint deliver_all (c : chanid) (e : ev) (l : list stream) : list stream * nat :=
  match l with
  | [] => ([], 0)
  | st :: r =>
      let '(r', w) := deliver_all c e r in
      if subscribed c st then let '(st', full) := deliver1 e st in (st' :: r', if full then S w else w)
      else (st :: r', w)
  end.

(* the receiving side takes events from the queue until one passes the filter; on an empty
   queue the consumer blocks.  Structural recursion on the queue. *)
Fixpoint pull_from (f : nat) (q : list ev) : list ev * option ev * list ev :=
  (* (events taken, the one yielded, rest of the queue) *)
  match q with
  | [] => ([], None, [])
  | e :: r => if flt_pass f e then ([e], Some e, r)
              else let '(taken, y, rest) := pull_from f r in (e :: taken, y, rest)
  end.

Definition pull (st : stream) : stream * option ev :=
  let '(taken, y, rest) := pull_from (s_flt st) (s_queue st) in
  match y with
  | Some e =>
      (Stream (s_chans st) (s_flt st) (s_cap st) (s_oneshot st)
              (if s_oneshot st then false else s_active st) rest false None
              (s_accepted st) (s_consumed st ++ taken) (s_yielded st ++ [e]), Some e)
  | None =>
      (Stream (s_chans st) (s_flt st) (s_cap st) (s_oneshot st) (s_active st) rest true None
              (s_accepted st) (s_consumed st ++ taken) (s_yielded st), None)
  end.

(* a consumer that was handed an event resumes: the event passes the filter and is yielded,
   or it is skipped and the consumer goes on pulling *)
Definition resume (st : stream) : stream * option ev :=
  match s_handed st with
  | None => (st, None)
  | Some e =>
      let st1 := Stream (s_chans st) (s_flt st) (s_cap st) (s_oneshot st) (s_active st) (s_queue st) false None
                        (s_accepted st) (s_consumed st ++ [e]) (s_yielded st) in
      if flt_pass (s_flt st) e then
        (Stream (s_chans st) (s_flt st) (s_cap st) (s_oneshot st)
                (if s_oneshot st then false else s_active st) (s_queue st) false None
                (s_accepted st) (s_consumed st ++ [e]) (s_yielded st ++ [e]), Some e)
      else pull st1
  end.

Fixpoint resume_all (i : nat) (l : list stream) : list stream * list (nat * ev) :=
  match l with
  | [] => ([], [])
  | st :: r =>
      let '(st', y) := resume st in
      let '(r', ys) := resume_all (S i) r in
      (st' :: r', match y with Some e => (i, e) :: ys | None => ys end)
  end.

Fixpoint upd {A} (l : list A) (i : nat) (x : A) : list A :=
  match l, i with
  | [], _ => []
  | _ :: r, O => x :: r
  | y :: r, S i' => y :: upd r i' x
  end.

(* ---------- operations ---------- *)
Inductive how := HDispatch | HStream | HWait.

Inductive sop :=
| Access (i : inst) (a : attr)
| Subscribe (cs : list chanid) (f : nat) (cap : nat)      (* stream_events entered *)
| Wait (cs : list chanid) (f : nat)                       (* wait_event begun *)
| Burst (l : list (chanid * (nat * ecls)))                (* dispatches without a checkpoint in between *)
| Recv (sid : nat)                                        (* the consumer asks for the next event *)
| Leave (sid : nat)                                       (* the stream is left / the waiter cancelled *)
| ClassUse (a : attr) (h : how)                           (* a signal used through the class *)
| Drop (i : inst).                                        (* the last reference to an owner is dropped *)

Inductive dres := DOk (warned : nat) | DTypeErr | DNoChan.

Inductive sout :=
| OChan (c : chanid)
| OSub (sid : nat)
| OBurst (r : list dres) (done : list (nat * ev))  (* per dispatch; consumers that received an event *)
| OYield (e : ev)
| OBlocked
| OLeft
| OUnbound
| ODropped (collected : bool)
| OInvalid.

Fixpoint burst (s : sstate) (l : list (chanid * (nat * ecls))) : sstate * list dres :=
  match l with
  | [] => (s, [])
  | (c, (id, cl)) :: r =>
      match owner_of c (bound s) with
      | None => let '(s', rs) := burst s r in (s', DNoChan :: rs)
      | Some (i, a) =>
          if negb (if sig_class_check_by_isinstance then cls_sub cl (attr_cls a) else Nat.eqb cl (attr_cls a))
          then let '(s', rs) := burst s r in (s', DTypeErr :: rs)
          else
            let '(sts, w) := deliver_all c (Ev id cl i a) (streams s) in
            let '(s', rs) := burst (SS (bound s) sts (warnings s + w)) r in
            (s', DOk w :: rs)
      end
  end.

Definition new_stream cs f cap oneshot : stream := Stream cs f cap oneshot true [] false None [] [] [].

Definition deactivated (st : stream) : stream :=
  Stream (s_chans st) (s_flt st) (s_cap st) (s_oneshot st) false (s_queue st) false None
         (s_accepted st) (s_consumed st) (s_yielded st).
(* the index of the last active stream (d when there is none) *)
Definition last_active (l : list stream) (d : nat) : nat :=
  fst (fold_left (fun (acc : nat * nat) st => (if s_active st then snd acc else fst acc, S (snd acc))) l (d, 0)).

Definition sstep (s : sstate) (o : sop) : sstate * sout :=
  match o with
  | Access i a => let '(s', c) := access s i a in (s', OChan c)
  | Subscribe cs f cap =>
      (SS (bound s) (streams s ++ [new_stream cs f (Some cap) false]) (warnings s), OSub (length (streams s)))
  | Wait cs f =>
      (* the queue wait_event opens is the one the translator read from its source on this run (Gen_stream) *)
      let st := fst (pull (new_stream cs f wait_queue true)) in
      (SS (bound s) (streams s ++ [st]) (warnings s), OSub (length (streams s)))
  | Burst l =>
      let '(s1, rs) := burst s l in
      let '(sts, ys) := resume_all 0 (streams s1) in
      (SS (bound s1) sts (warnings s1), OBurst rs ys)
  | Recv sid =>
      match nth_error (streams s) sid with
      | Some st =>
          if s_active st && negb (s_waiting st) then
            let '(st', y) := pull st in
            (SS (bound s) (upd (streams s) sid st') (warnings s),
             match y with Some e => OYield e | None => OBlocked end)
          else (s, OInvalid)
      | None => (s, OInvalid)
      end
  | Leave sid =>
      match nth_error (streams s) sid with
      | Some st =>
          if s_active st then
            (* which subscription goes is what Signal._subscribe undoes in its finally clause on this run
               (Gen_signal): its own stream -- or whichever was subscribed last *)
            let victim := if sig_unsubscribes_its_own_stream then sid else last_active (streams s) sid in
            match nth_error (streams s) victim with
            | Some vt => (SS (bound s) (upd (streams s) victim (deactivated vt)) (warnings s), OLeft)
            | None => (s, OInvalid)
            end
          else (s, OInvalid)
      | None => (s, OInvalid)
      end
  | ClassUse a h => (s, OUnbound)
  | Drop i => (s, ODropped true)    (* binding holds the owner only weakly: not modelled further *)
  end.

Definition srun (s : sstate) (h : list sop) : sstate := fold_left (fun s o => fst (sstep s o)) h s.
