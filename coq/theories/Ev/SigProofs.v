(* Theorems about the signal model (C10, C11). *)
From Coq Require Import List Bool Arith Lia.
From Asphalt Require Import Ev.SigModel Gen.Gen_signal Gen.Gen_stream.
Import ListNotations.

(* ================= the table of bound signals (C11) ================= *)
Lemma ia_eqb_eq x y : ia_eqb x y = true <-> x = y.
Proof.
  destruct x, y. unfold ia_eqb. simpl. rewrite andb_true_iff, !Nat.eqb_eq. split.
  - intros [-> ->]; reflexivity.
  - intro H; inversion H; auto.
Qed.
Lemma ia_eqb_refl x : ia_eqb x x = true.
Proof. now apply ia_eqb_eq. Qed.

(* the table is [(k0, 0); (k1, 1); ...] with distinct keys *)
Definition bound_wf (l : list ((inst * attr) * chanid)) : Prop :=
  (forall n k c, nth_error l n = Some (k, c) -> c = n) /\ NoDup (map fst l).

Lemma lookup_bound_In k c l : lookup_bound k l = Some c -> In (k, c) l.
Proof.
  induction l as [|[k' c'] r IH]; simpl; [discriminate|].
  destruct (ia_eqb k k') eqn:E; intro H.
  - apply ia_eqb_eq in E. inversion H; subst. auto.
  - auto.
Qed.
Lemma lookup_bound_None k l : lookup_bound k l = None -> ~ In k (map fst l).
Proof.
  induction l as [|[k' c'] r IH]; simpl; auto.
  destruct (ia_eqb k k') eqn:E; [discriminate|].
  intros H [H1|H1]; [subst; rewrite ia_eqb_refl in E; discriminate | now apply IH].
Qed.
Lemma lookup_bound_app k l l' c : lookup_bound k l = Some c -> lookup_bound k (l ++ l') = Some c.
Proof.
  induction l as [|[k' c'] r IH]; simpl; [discriminate|]. destruct (ia_eqb k k'); auto.
Qed.
Lemma lookup_bound_app_new k l c : lookup_bound k l = None -> lookup_bound k (l ++ [(k, c)]) = Some c.
Proof.
  induction l as [|[k' c'] r IH]; simpl.
  - now rewrite ia_eqb_refl.
  - destruct (ia_eqb k k'); [discriminate|auto].
Qed.

Lemma NoDup_snoc {A} (l : list A) x : NoDup l -> ~ In x l -> NoDup (l ++ [x]).
Proof.
  induction l as [|y r IH]; simpl; intros N H.
  - constructor; [intros []|constructor].
  - inversion N; subst. constructor.
    + rewrite in_app_iff. intros [H1|[H1|[]]]; [contradiction | subst; apply H; auto].
    + apply IH; auto.
Qed.

Lemma bound_wf_nil : bound_wf [].
Proof. split; [intros [|n] k c H; discriminate | constructor]. Qed.

Lemma bound_wf_snoc l k : bound_wf l -> lookup_bound k l = None -> bound_wf (l ++ [(k, length l)]).
Proof.
  intros [W1 W2] N. split.
  - intros n k' c H. destruct (Nat.lt_ge_cases n (length l)).
    + rewrite nth_error_app1 in H by auto. eauto.
    + rewrite nth_error_app2 in H by auto. destruct (n - length l) eqn:E; simpl in H.
      * inversion H; subst. lia.
      * destruct n0; discriminate.
  - rewrite map_app. simpl. apply NoDup_snoc; auto. now apply lookup_bound_None.
Qed.

Lemma access_bound_wf s i a : bound_wf (bound s) -> bound_wf (bound (fst (access s i a))).
Proof.
  intro W. unfold access. destruct (lookup_bound (i, a) (bound s)) eqn:E; simpl; auto.
  now apply bound_wf_snoc.
Qed.

Lemma burst_bound l : forall s, bound (fst (burst s l)) = bound s.
Proof.
  induction l as [|[c [id cl]] r IH]; intros s; simpl; auto.
  destruct (owner_of c (bound s)) as [[i a]|].
  - destruct (negb (cls_sub cl (attr_cls a))).
    + specialize (IH s). destruct (burst s r); simpl in *; auto.
    + destruct (deliver_all c (Ev id cl i a) (streams s)) as [sts w].
      specialize (IH (SS (bound s) sts (warnings s + w))).
      destruct (burst (SS (bound s) sts (warnings s + w)) r); simpl in *; auto.
  - specialize (IH s). destruct (burst s r); simpl in *; auto.
Qed.

(* no operation other than a first access touches the table, and a first access only extends it *)
Lemma sstep_bound_extends s o : exists l, bound (fst (sstep s o)) = bound s ++ l.
Proof.
  assert (Z : exists l, bound s = bound s ++ l) by (exists []; now rewrite app_nil_r).
  destruct o; simpl; auto.
  - unfold access. destruct (lookup_bound (i, a) (bound s)); simpl; eauto.
  - pose proof (burst_bound l s) as B. destruct (burst s l) as [s1 rs]. simpl in B.
    destruct (resume_all 0 (streams s1)). simpl. now rewrite B.
  - destruct (nth_error (streams s) sid) as [st|]; auto.
    destruct (s_active st && negb (s_waiting st)); auto. destruct (pull st). simpl. auto.
  - destruct (nth_error (streams s) sid) as [st|]; auto. destruct (s_active st); simpl; auto.
Qed.

Lemma sstep_bound_wf s o : bound_wf (bound s) -> bound_wf (bound (fst (sstep s o))).
Proof.
  intro W. destruct o; simpl; auto.
  - pose proof (access_bound_wf s i a W). destruct (access s i a). exact H.
  - pose proof (burst_bound l s) as B. destruct (burst s l) as [s1 rs]. simpl in B.
    destruct (resume_all 0 (streams s1)). simpl. now rewrite B.
  - destruct (nth_error (streams s) sid) as [st|]; auto.
    destruct (s_active st && negb (s_waiting st)); auto. destruct (pull st). exact W.
  - destruct (nth_error (streams s) sid) as [st|]; auto. destruct (s_active st); exact W.
Qed.

Lemma srun_cons s o h : srun s (o :: h) = srun (fst (sstep s o)) h.
Proof. reflexivity. Qed.

Lemma srun_bound_wf h : forall s, bound_wf (bound s) -> bound_wf (bound (srun s h)).
Proof. induction h as [|o r IH]; intros s W; auto. rewrite srun_cons. apply IH. now apply sstep_bound_wf. Qed.

Lemma srun_bound_extends h : forall s, exists l, bound (srun s h) = bound s ++ l.
Proof.
  induction h as [|o r IH]; intros s.
  - exists []. now rewrite app_nil_r.
  - rewrite srun_cons. destruct (sstep_bound_extends s o) as [l1 E1]. destruct (IH (fst (sstep s o))) as [l2 E2].
    exists (l1 ++ l2). now rewrite E2, E1, app_assoc.
Qed.

(* C11: accessing the attribute always yields the same bound signal, at every later point of
   every history *)
Theorem access_same_forever : forall s i a c h,
  snd (access s i a) = c ->
  snd (access (srun (fst (access s i a)) h) i a) = c.
Proof.
  intros s i a c h H.
  assert (L : lookup_bound (i, a) (bound (fst (access s i a))) = Some c).
  { unfold access in *. destruct (lookup_bound (i, a) (bound s)) eqn:E; simpl in *.
    - now subst.
    - subst c. now apply lookup_bound_app_new. }
  destruct (srun_bound_extends h (fst (access s i a))) as [l E].
  unfold access at 1. rewrite E, (lookup_bound_app _ _ l _ L). reflexivity.
Qed.

(* C11: different attributes or different instances never share a bound signal *)
Theorem access_injective : forall s k1 k2 c,
  bound_wf (bound s) -> lookup_bound k1 (bound s) = Some c -> lookup_bound k2 (bound s) = Some c -> k1 = k2.
Proof.
  intros s k1 k2 c [W1 W2] H1 H2.
  apply lookup_bound_In in H1. apply lookup_bound_In in H2.
  apply In_nth_error in H1. apply In_nth_error in H2. destruct H1 as [n1 H1], H2 as [n2 H2].
  pose proof (W1 _ _ _ H1). pose proof (W1 _ _ _ H2). subst n1 n2. rewrite H1 in H2. now inversion H2.
Qed.

Theorem reachable_bound_wf : forall h, bound_wf (bound (srun init h)).
Proof. intro h. apply srun_bound_wf. apply bound_wf_nil. Qed.

(* the bound signal carries its own instance and attribute: owner_of inverts lookup_bound *)
Lemma owner_of_pos k c : forall (l : list ((inst * attr) * chanid)) m j,
  (forall n k' c', nth_error l n = Some (k', c') -> c' = j + n) ->
  nth_error l m = Some (k, c) -> owner_of c l = Some k.
Proof.
  induction l as [|[k0 c0] r IH]; intros m j Wl Hm; [destruct m; discriminate|].
  simpl. destruct (Nat.eqb c c0) eqn:E.
  - apply Nat.eqb_eq in E. subst c0. destruct m; [inversion Hm; auto|].
    pose proof (Wl 0 k0 c eq_refl). pose proof (Wl (S m) k c Hm). lia.
  - destruct m; [inversion Hm; subst; rewrite Nat.eqb_refl in E; discriminate|].
    apply (IH m (S j)); auto. intros n0 k1 c1 Hn. pose proof (Wl (S n0) k1 c1 Hn). lia.
Qed.

Lemma owner_of_lookup l k c : bound_wf l -> lookup_bound k l = Some c -> owner_of c l = Some k.
Proof.
  intros [W1 W2] H. apply lookup_bound_In in H. apply In_nth_error in H. destruct H as [n H].
  apply (owner_of_pos k c l n 0); auto.
Qed.

(* ================= dispatch acts pointwise on subscribers (C10 locality, C11 isolation) ===== *)
Theorem deliver_all_pointwise : forall c e l i,
  nth_error (fst (deliver_all c e l)) i =
  match nth_error l i with
  | Some st => Some (if subscribed c st then fst (deliver1 e st) else st)
  | None => None
  end.
Proof.
  intros c e l. induction l as [|st r IH]; intros [|i]; simpl; auto.
  - destruct (deliver_all c e r) as [r' w]. destruct (subscribed c st); [destruct (deliver1 e st)|]; reflexivity.
  - specialize (IH i). destruct (deliver_all c e r) as [r' w]. simpl in IH.
    destruct (subscribed c st); [destruct (deliver1 e st)|]; simpl; auto.
Qed.

(* the number of SignalQueueFull warnings of one dispatch = the number of subscribers of that
   channel whose queue is full while no receiver is waiting *)
Definition overflows (c : chanid) (st : stream) : bool :=
  subscribed c st && negb (s_waiting st) && negb (has_room st).

Theorem deliver_all_warnings : forall c e l,
  snd (deliver_all c e l) = length (filter (overflows c) l).
Proof.
  intros c e l. induction l as [|st r IH]; simpl; auto.
  destruct (deliver_all c e r) as [r' w]. simpl in IH. unfold overflows at 1.
  destruct (subscribed c st); simpl.
  - unfold deliver1. destruct (s_waiting st); simpl; auto. destruct (has_room st); simpl; auto.
  - auto.
Qed.

(* what one send does to one subscriber: accepted (handed or queued) iff a receiver is waiting
   or there is room; otherwise nothing changes for this subscriber and a warning is issued *)
Theorem deliver1_spec : forall e st,
  (s_waiting st = true \/ has_room st = true ->
     s_accepted (fst (deliver1 e st)) = s_accepted st ++ [e] /\ snd (deliver1 e st) = false) /\
  (s_waiting st = false /\ has_room st = false -> deliver1 e st = (st, true)).
Proof.
  intros e st. unfold deliver1. split.
  - intros [H|H].
    + rewrite H. simpl. auto.
    + destruct (s_waiting st); simpl; auto. rewrite H. simpl. auto.
  - intros [H1 H2]. now rewrite H1, H2.
Qed.

(* wait_event: its queue is unbounded, so it never drops *)
Lemma unbounded_never_drops e st : s_cap st = None -> snd (deliver1 e st) = false.
Proof. intro H. unfold deliver1, has_room. rewrite H. destruct (s_waiting st); reflexivity. Qed.

(* ================= the per-subscriber invariant (C10 exactness) ================= *)
Definition opt_list {A} (o : option A) : list A := match o with Some x => [x] | None => [] end.

Record sinv (st : stream) : Prop := {
  (* everything accepted is: what the receiving side has taken, then the event in its hands,
     then the queue -- in that order *)
  si_acc : s_accepted st = s_consumed st ++ opt_list (s_handed st) ++ s_queue st;
  (* what was yielded is exactly what was taken and passes the filter, in order *)
  si_yield : s_yielded st = filter (flt_pass (s_flt st)) (s_consumed st);
  (* a blocked consumer has an empty queue and nothing in its hands *)
  si_wait : s_waiting st = true -> s_queue st = [] /\ s_handed st = None
}.

Lemma sinv_new cs f cap o : sinv (new_stream cs f cap o).
Proof. constructor; simpl; auto. Qed.

Lemma deliver1_sinv e st : sinv st -> sinv (fst (deliver1 e st)).
Proof.
  intros [A Y W]. unfold deliver1. destruct (s_waiting st) eqn:Ew; simpl.
  - destruct (W eq_refl) as [Q H]. constructor; simpl; auto; [|discriminate].
    rewrite A, Q, H. simpl. now rewrite !app_nil_r.
  - destruct (has_room st); simpl; [|constructor; auto; rewrite Ew; discriminate].
    constructor; simpl; auto; [|discriminate]. rewrite A, !app_assoc. reflexivity.
Qed.

Lemma pull_from_spec f q : forall taken y rest, pull_from f q = (taken, y, rest) ->
  q = taken ++ rest /\
  filter (flt_pass f) taken = opt_list y /\
  (y = None -> rest = []).
Proof.
  induction q as [|e r IH]; simpl; intros taken y rest H.
  - inversion H; subst. auto.
  - destruct (flt_pass f e) eqn:P.
    + inversion H; subst. simpl. rewrite P. split; auto. split; auto. discriminate.
    + destruct (pull_from f r) as [[t1 y1] r1] eqn:E. inversion H; subst.
      destruct (IH _ _ _ eq_refl) as (A & B & C). simpl. rewrite P. split; [now rewrite A|auto].
Qed.

Lemma pull_sinv st : sinv st -> s_handed st = None -> sinv (fst (pull st)).
Proof.
  intros [A Y W] H. unfold pull.
  destruct (pull_from (s_flt st) (s_queue st)) as [[taken y] rest] eqn:E.
  destruct (pull_from_spec _ _ _ _ _ E) as (Q & F & N).
  rewrite H in A. simpl in A.
  destruct y as [e|]; simpl.
  - constructor; simpl; [|rewrite filter_app, <- Y, F; reflexivity|discriminate].
    rewrite A, Q, app_assoc. reflexivity.
  - constructor; simpl; [|rewrite filter_app, <- Y, F; simpl; now rewrite app_nil_r|].
    + rewrite A, Q, app_assoc. reflexivity.
    + intros _. split; auto.
Qed.

Lemma resume_sinv st : sinv st -> sinv (fst (resume st)).
Proof.
  intros I. unfold resume. destruct (s_handed st) as [e|] eqn:H; auto.
  destruct I as [A Y W]. rewrite H in A. simpl in A.
  destruct (flt_pass (s_flt st) e) eqn:P; simpl.
  - constructor; simpl; [|rewrite filter_app, <- Y; simpl; now rewrite P|discriminate].
    rewrite A, <- app_assoc. reflexivity.
  - apply pull_sinv; simpl; auto.
    constructor; simpl; [|rewrite filter_app, <- Y; simpl; rewrite P; now rewrite app_nil_r|discriminate].
    rewrite A, <- app_assoc. reflexivity.
Qed.

Definition all_sinv (l : list stream) : Prop := forall i st, nth_error l i = Some st -> sinv st.

Lemma all_sinv_cons st l : sinv st -> all_sinv l -> all_sinv (st :: l).
Proof. intros H1 H2 [|i] st' H; simpl in H; [inversion H; subst; auto | eauto]. Qed.
Lemma all_sinv_inv st l : all_sinv (st :: l) -> sinv st /\ all_sinv l.
Proof. intro H. split; [apply (H 0); reflexivity | intros i st' Hi; apply (H (S i)); exact Hi]. Qed.

Lemma deliver_all_sinv c e l : all_sinv l -> all_sinv (fst (deliver_all c e l)).
Proof.
  induction l as [|st r IH]; simpl; intro H; auto.
  apply all_sinv_inv in H. destruct H as [H1 H2]. specialize (IH H2).
  destruct (deliver_all c e r) as [r' w]. simpl in IH.
  destruct (subscribed c st).
  - pose proof (deliver1_sinv e st H1). destruct (deliver1 e st). simpl in *. now apply all_sinv_cons.
  - now apply all_sinv_cons.
Qed.

Lemma resume_all_sinv l : forall i, all_sinv l -> all_sinv (fst (resume_all i l)).
Proof.
  induction l as [|st r IH]; simpl; intros i H; auto.
  apply all_sinv_inv in H. destruct H as [H1 H2].
  pose proof (resume_sinv st H1). destruct (resume st) as [st' y].
  specialize (IH (S i) H2). destruct (resume_all (S i) r) as [r' ys]. simpl in *. now apply all_sinv_cons.
Qed.

(* after the consumers have resumed nobody holds a handed event *)
Definition none_handed (l : list stream) : Prop := forall i st, nth_error l i = Some st -> s_handed st = None.

Lemma pull_handed st : s_handed (fst (pull st)) = None.
Proof. unfold pull. destruct (pull_from (s_flt st) (s_queue st)) as [[t y] r]. destruct y; reflexivity. Qed.
Lemma resume_handed st : s_handed (fst (resume st)) = None.
Proof.
  unfold resume. destruct (s_handed st) eqn:H; auto.
  destruct (flt_pass (s_flt st) e); simpl; auto. apply pull_handed.
Qed.
Lemma resume_all_none_handed l : forall i, none_handed (fst (resume_all i l)).
Proof.
  induction l as [|st r IH]; simpl; intros i.
  - intros [|j] st H; discriminate.
  - pose proof (resume_handed st). destruct (resume st) as [st' y]. specialize (IH (S i)).
    destruct (resume_all (S i) r) as [r' ys]. simpl in *.
    intros [|j] st0 Hj; simpl in Hj; [inversion Hj; subst; auto | eauto].
Qed.

Lemma upd_nth {A} (l : list A) : forall i x j,
  nth_error (upd l i x) j = if Nat.eqb j i then (match nth_error l i with Some _ => Some x | None => None end)
                            else nth_error l j.
Proof.
  induction l as [|y r IH]; intros [|i] x [|j]; simpl; auto.
  all: try (destruct (Nat.eqb j i); destruct i; auto; fail).
  all: try apply IH.
Qed.

Lemma burst_sinv l : forall s, all_sinv (streams s) -> all_sinv (streams (fst (burst s l))).
Proof.
  induction l as [|[c [id cl]] r IH]; intros s H; simpl; auto.
  destruct (owner_of c (bound s)) as [[i a]|].
  - destruct (negb (cls_sub cl (attr_cls a))).
    + specialize (IH s H). destruct (burst s r). exact IH.
    + pose proof (deliver_all_sinv c (Ev id cl i a) (streams s) H) as D.
      destruct (deliver_all c (Ev id cl i a) (streams s)) as [sts w]. simpl in D.
      specialize (IH (SS (bound s) sts (warnings s + w)) D).
      destruct (burst (SS (bound s) sts (warnings s + w)) r). exact IH.
  - specialize (IH s H). destruct (burst s r). exact IH.
Qed.

Definition state_ok (s : sstate) : Prop := all_sinv (streams s) /\ none_handed (streams s).

Lemma app_all_sinv l st : all_sinv l -> sinv st -> all_sinv (l ++ [st]).
Proof.
  intros H1 H2 i st' H. destruct (Nat.lt_ge_cases i (length l)).
  - rewrite nth_error_app1 in H by auto. eauto.
  - rewrite nth_error_app2 in H by auto. destruct (i - length l); simpl in H; [inversion H; subst; auto|destruct n; discriminate].
Qed.
Lemma app_none_handed l st : none_handed l -> s_handed st = None -> none_handed (l ++ [st]).
Proof.
  intros H1 H2 i st' H. destruct (Nat.lt_ge_cases i (length l)).
  - rewrite nth_error_app1 in H by auto. eauto.
  - rewrite nth_error_app2 in H by auto. destruct (i - length l); simpl in H; [inversion H; subst; auto|destruct n; discriminate].
Qed.

Lemma sstep_ok s o : state_ok s -> state_ok (fst (sstep s o)).
Proof.
  intros [I N]. destruct o; simpl.
  - unfold access. destruct (lookup_bound (i, a) (bound s)); simpl; split; auto.
  - split; [apply app_all_sinv; auto; apply sinv_new | apply app_none_handed; auto].
  - split.
    + apply app_all_sinv; auto. constructor; simpl; auto.
    + apply app_none_handed; auto.
  - pose proof (burst_sinv l s I) as B. destruct (burst s l) as [s1 rs]. simpl in B.
    pose proof (resume_all_sinv (streams s1) 0 B) as R. pose proof (resume_all_none_handed (streams s1) 0) as R2.
    destruct (resume_all 0 (streams s1)) as [sts ys]. simpl in *. split; auto.
  - destruct (nth_error (streams s) sid) as [st|] eqn:E; [|split; auto].
    destruct (s_active st && negb (s_waiting st)); [|split; auto].
    pose proof (pull_sinv st (I _ _ E) (N _ _ E)) as P. pose proof (pull_handed st) as P2.
    destruct (pull st) as [st' y]. simpl in *. split.
    + cbn [streams fst]. intros j st0 Hj. rewrite upd_nth in Hj. destruct (Nat.eqb j sid); [rewrite E in Hj; inversion Hj; subst; auto | eauto].
    + cbn [streams fst]. intros j st0 Hj. rewrite upd_nth in Hj. destruct (Nat.eqb j sid); [rewrite E in Hj; inversion Hj; subst; auto | eauto].
  - destruct (nth_error (streams s) sid) as [st|] eqn:E; [|split; auto].
    destruct (s_active st); [|split; auto]. simpl. split.
    + cbn [streams fst]. intros j st0 Hj. rewrite upd_nth in Hj. destruct (Nat.eqb j sid); [|eauto].
      rewrite E in Hj. inversion Hj; subst. destruct (I _ _ E) as [A Y W]. rewrite (N _ _ E) in A.
      constructor; simpl; auto. discriminate.
    + cbn [streams fst]. intros j st0 Hj. rewrite upd_nth in Hj. destruct (Nat.eqb j sid); [rewrite E in Hj; inversion Hj; subst; auto | eauto].
  - split; auto.
  - split; auto.
Qed.

Lemma srun_ok h : forall s, state_ok s -> state_ok (srun s h).
Proof. induction h as [|o r IH]; intros s H; auto. rewrite srun_cons. apply IH. now apply sstep_ok. Qed.

Lemma init_ok : state_ok init.
Proof. split; intros [|i] st H; discriminate. Qed.

(* C10: in every reachable state, for every subscriber: what it has been given so far plus
   what is still waiting in its queue and passes its filter is exactly the filtered sequence of
   the events accepted for it -- each once, in dispatch order *)
Theorem yielded_exact : forall h sid st,
  nth_error (streams (srun init h)) sid = Some st ->
  s_yielded st ++ filter (flt_pass (s_flt st)) (s_queue st) = filter (flt_pass (s_flt st)) (s_accepted st).
Proof.
  intros h sid st H. destruct (srun_ok h init init_ok) as [I N].
  destruct (I _ _ H) as [A Y _]. rewrite (N _ _ H) in A. simpl in A.
  now rewrite A, Y, filter_app.
Qed.

(* the result of wait_event / a single __anext__: the first event of the queue that passes *)
Lemma pull_from_first f : forall q taken y rest, pull_from f q = (taken, Some y, rest) ->
  exists skipped, taken = skipped ++ [y] /\
    forallb (fun x => negb (flt_pass f x)) skipped = true /\ flt_pass f y = true.
Proof.
  induction q as [|x r IH]; simpl; intros taken y rest H; [discriminate|].
  destruct (flt_pass f x) eqn:P.
  - inversion H; subst. exists []. auto.
  - destruct (pull_from f r) as [[t1 y1] r1] eqn:E. inversion H; subst.
    destruct (IH _ _ _ eq_refl) as (sk & A & B & C). exists (x :: sk). simpl. rewrite P, A. auto.
Qed.

Theorem pull_yields_first_passing : forall st e,
  snd (pull st) = Some e ->
  exists skipped rest, s_queue st = skipped ++ e :: rest /\
                       forallb (fun x => negb (flt_pass (s_flt st) x)) skipped = true /\
                       flt_pass (s_flt st) e = true.
Proof.
  intros st e. unfold pull.
  destruct (pull_from (s_flt st) (s_queue st)) as [[taken y] rest] eqn:E.
  destruct y as [y|]; simpl; [|discriminate]. intro H. inversion H; subst y.
  destruct (pull_from_first _ _ _ _ _ E) as (sk & A & B & C).
  destruct (pull_from_spec _ _ _ _ _ E) as (Q & _ & _).
  exists sk, rest. rewrite Q, A, <- app_assoc. auto.
Qed.

(* ================= dispatch is total; type check; class-level use (C10, C11) ============== *)
Definition expected_res (s : sstate) (x : chanid * (nat * ecls)) (r : dres) : Prop :=
  match owner_of (fst x) (bound s) with
  | None => r = DNoChan
  | Some (i, a) => if cls_sub (snd (snd x)) (attr_cls a) then exists w, r = DOk w else r = DTypeErr
  end.

Lemma burst_results l : forall s, Forall2 (expected_res s) l (snd (burst s l)).
Proof.
  induction l as [|[c0 [id0 cl0]] r IH]; intros s; simpl; [constructor|].
  destruct (owner_of c0 (bound s)) as [[i0 a0]|] eqn:Ow.
  - destruct (cls_sub cl0 (attr_cls a0)) eqn:Sub; simpl.
    + destruct (deliver_all c0 (Ev id0 cl0 i0 a0) (streams s)) as [sts w].
      specialize (IH (SS (bound s) sts (warnings s + w))).
      destruct (burst (SS (bound s) sts (warnings s + w)) r) as [s' rs]. simpl in *.
      constructor; [unfold expected_res; simpl; rewrite Ow, Sub; eauto | exact IH].
    + specialize (IH s). destruct (burst s r) as [s' rs]. simpl in *.
      constructor; [unfold expected_res; simpl; now rewrite Ow, Sub | exact IH].
  - specialize (IH s). destruct (burst s r) as [s' rs]. simpl in *.
    constructor; [unfold expected_res; simpl; now rewrite Ow | exact IH].
Qed.

(* C10: dispatching a correctly typed event on a bound signal succeeds (never raises, never
   blocks) whatever state any subscriber is in; C11: an event of the wrong class is rejected *)
Theorem dispatch_total : forall s l, Forall2 (expected_res s) l (snd (burst s l)).
Proof. exact (fun s l => burst_results l s). Qed.

Theorem class_use_unbound : forall s a h, sstep s (ClassUse a h) = (s, OUnbound).
Proof. reflexivity. Qed.

(* a wrongly typed dispatch changes nothing *)
Theorem type_error_noop : forall s c id cl i a,
  owner_of c (bound s) = Some (i, a) -> cls_sub cl (attr_cls a) = false ->
  burst s [(c, (id, cl))] = (s, [DTypeErr]).
Proof. intros s c id cl i a O E. simpl. now rewrite O, E. Qed.

(* C11: an event dispatched on a channel leaves every stream not subscribed to it untouched *)
Theorem not_subscribed_untouched : forall c e l i st,
  nth_error l i = Some st -> subscribed c st = false -> nth_error (fst (deliver_all c e l)) i = Some st.
Proof. intros c e l i st H S. rewrite deliver_all_pointwise, H, S. reflexivity. Qed.

(* ---------- the shape of the source the model's table key and class check were read from ---------- *)
Theorem signal_table_source_shape :
  sig_key_by_identity = true /\ sig_key_includes_topic = true /\
  sig_owner_weakly_referenced = true /\ sig_entry_dropped_with_owner = true.
Proof. repeat split. Qed.
Theorem signal_dispatch_source_shape :
  sig_subscription_appended = true /\ sig_unsubscribed_in_finally = true /\
  sig_class_check_by_isinstance = true /\ sig_check_before_stamping = true /\
  sig_stamps_source_topic_time = true /\ sig_iterates_over_copy = true /\
  sig_closed_receiver_skipped = true /\ sig_full_queue_warns_and_drops = true.
Proof. repeat split. Qed.

(* ---------- wait_event's own stream (Gen_stream) ---------- *)
Lemma pull_cap st : s_cap (fst (pull st)) = s_cap st.
Proof. unfold pull. destruct (pull_from (s_flt st) (s_queue st)) as [[taken y] rest]. destruct y; reflexivity. Qed.

(* the stream wait_event opens is the last one of the state after the step, and it is unbounded *)
Theorem wait_stream_unbounded : forall s cs f,
  exists st, streams (fst (sstep s (Wait cs f))) = streams s ++ [st] /\ s_cap st = None /\ s_oneshot st = true /\
             s_chans st = cs /\ s_flt st = f.
Proof.
  intros s cs f. unfold sstep, pull, new_stream. cbn. eexists. split; [reflexivity|]. cbn. repeat split.
Qed.

(* ... so no dispatch is ever dropped for it, whatever else is queued for it and however many events that do not
   pass its filter arrive first *)
Theorem wait_event_never_loses : forall s cs f st e,
  streams (fst (sstep s (Wait cs f))) = streams s ++ [st] -> snd (deliver1 e st) = false.
Proof.
  intros s cs f st e H. destruct (wait_stream_unbounded s cs f) as [st' [H' [Hc _]]].
  rewrite H in H'. apply app_inj_tail in H'. destruct H' as [_ ->]. now apply unbounded_never_drops.
Qed.

Theorem stream_source_shape :
  stream_default_queue = 50 /\ wait_queue = None /\ stream_filter_on_receiving_side = true /\
  stream_subscribes_on_entry = true /\ stream_one_queue_for_all_signals = true /\
  stream_unsubscribes_on_exit = true /\ wait_returns_first_yielded = true /\ shortcuts_delegate = true.
Proof. repeat split. Qed.

(* ---------- leaving a stream (Gen_signal: what _subscribe undoes) ---------- *)
(* whoever leaves, leaves alone: every other subscriber -- subscribed before or after him -- stays as it is *)
Theorem leave_changes_only_the_leaver : forall s sid j, j <> sid ->
  nth_error (streams (fst (sstep s (Leave sid)))) j = nth_error (streams s) j.
Proof.
  intros s sid j N. unfold sstep. destruct (nth_error (streams s) sid) as [st|] eqn:E; [|reflexivity].
  destruct (s_active st); [|reflexivity]. unfold sig_unsubscribes_its_own_stream. cbv iota. rewrite E.
  cbn [fst streams]. rewrite upd_nth. destruct (Nat.eqb j sid) eqn:Q; [apply Nat.eqb_eq in Q; congruence|reflexivity].
Qed.

(* ... and he is gone: no longer subscribed to any channel *)
Theorem leave_unsubscribes_the_leaver : forall s sid st c,
  nth_error (streams s) sid = Some st -> s_active st = true ->
  exists st', nth_error (streams (fst (sstep s (Leave sid)))) sid = Some st' /\ subscribed c st' = false /\
              s_yielded st' = s_yielded st.
Proof.
  intros s sid st c E A. unfold sstep. rewrite E, A. unfold sig_unsubscribes_its_own_stream. cbv iota. rewrite E.
  cbn [fst streams]. rewrite upd_nth, Nat.eqb_refl, E. eexists. split; [reflexivity|]. split; reflexivity.
Qed.
