(* History-level consequences for the resource-table model:
   - a successful lookup returns the object its pair is bound to afterwards, and every later
     successful lookup of that pair in that context returns the same object (C03);
   - a factory body is started at most once per context, also when lookups race (C04);
   - generated objects never appear in another context (C04 / C02);
   - the event log of a context changes only by operations addressed to it (C18). *)
From Coq Require Import String.
From Coq Require Import List Bool Arith Lia.
From Asphalt Require Import Ctx.ResModel Ctx.ResProofs Ctx.ResInv Gen.Gen_lookup.
Import ListNotations.
Open Scope string_scope.
Open Scope list_scope.

Local Arguments ins_all : simpl never.
Local Arguments existsb : simpl never.
Local Arguments forallb : simpl never.
Local Arguments eff_types : simpl never.

(* ---------------- which pair a lookup operation asks for ---------------- *)
Definition lookup_key (x : ctx) (a : action) : option key :=
  match a with
  | AGetNowait t n _ | AGetBegin _ t n _ => Some (t, n)
  | AGetEnd tok =>
      match nfind tok (pending x) with
      | Some (_, _, k) => Some k
      | None => match nfind tok (waiters x) with Some (k, _) => Some k | None => None end
      end
  | _ => None
  end.

Lemma store_generated_requested x f v t name :
  ctx_inv x -> find (t, name) (facs x) = Some f ->
  exists c, find (t, name) (res (store_generated x f v)) = Some c.
Proof.
  intros I F. destruct (find (t, name) (res x)) as [c|] eqn:R.
  - exists c. now apply store_generated_stable.
  - destruct (requested_key_free x t name f I R F) as [<- Hin].
    destruct (store_generated_binds x f v t Hin) as (c & Hc & _). eauto.
Qed.

Lemma store_generated_requested_val x f v t name :
  ctx_inv x -> find (t, name) (res x) = None -> find (t, name) (facs x) = Some f ->
  exists c, find (t, name) (res (store_generated x f v)) = Some c /\ cvalue c = v.
Proof.
  intros I R F. destruct (requested_key_free x t name f I R F) as [<- Hin].
  destruct (store_generated_binds x f v t Hin) as (c & Hc & Hv & _). eauto.
Qed.

(* a lookup that returns an object returns the object its pair is bound to from then on *)
Lemma lookup_binds a x k v :
  ctx_inv x -> lookup_key x a = Some k -> snd (local_step a x) = Val v ->
  exists c, find k (res (fst (local_step a x))) = Some c /\ cvalue c = v.
Proof.
  intros I K.
  assert (Ix1 : forall y, res y = res x -> facs y = facs x -> cid y = cid x -> ctx_inv y)
    by (intros; eapply inv_irrelevant_fields; eauto).
  unfold local_step; rewrite ?sga_eq.
  destruct (negb (in_states (life x) (allowed a))); [discriminate|].
  destruct a; simpl in K; try discriminate.
  - (* get_resource_nowait *)
    inversion K; subst k; clear K.
    destruct (find (t, name) (res x)) as [c|] eqn:R.
    + simpl. intro H. inversion H; subst. eauto.
    + destruct (find (t, name) (facs x)) as [f|] eqn:F.
      * destruct (fkind_of f); simpl; try discriminate.
        intro H. inversion H; subst v.
        apply store_generated_requested_val; [apply Ix1; reflexivity | exact R | exact F].
      * unfold not_found. destruct optional; discriminate.
  - (* get_resource, first half *)
    inversion K; subst k; clear K.
    destruct (tok_used x tok); [discriminate|].
    destruct (find (t, name) (res x)) as [c|] eqn:R.
    + simpl. intro H. inversion H; subst. eauto.
    + destruct (find (t, name) (facs x)) as [f|] eqn:F.
      * destruct (generating x (fkey f)); [discriminate|].
        destruct (fkind_of f); simpl; try discriminate;
        intro H; inversion H; subst v;
        (apply store_generated_requested_val; [apply Ix1; reflexivity | exact R | exact F]).
      * unfold not_found. destruct optional; discriminate.
  - (* get_resource, second half *)
    destruct (nfind tok (pending x)) as [[[f w] k']|] eqn:P.
    + inversion K; subst k'. simpl.
      destruct (find k (res (store_generated (del_pending x tok) f w))) as [c|] eqn:E; [|discriminate].
      intro H. inversion H; subst. eauto.
    + destruct (nfind tok (waiters x)) as [[k' fk]|] eqn:W; [|discriminate].
      inversion K; subst k'.
      destruct (generating x fk); [discriminate|].
      destruct (find k (res x)) as [c|] eqn:E; [|discriminate].
      simpl. intro H. inversion H; subst. eauto.
Qed.

(* ---------------- stability along histories ---------------- *)
Lemma run_app s h1 h2 : run s (h1 ++ h2) = run (run s h1) h2.
Proof. unfold run. apply fold_left_app. Qed.

Lemma nstep_ctx_stable s o c x k c0 :
  nth_error s c = Some x -> find k (res x) = Some c0 ->
  exists x', nth_error (nstep s o) c = Some x' /\ find k (res x') = Some c0.
Proof.
  intros Hc Hk. assert (Lt : c < length s) by (apply nth_error_Some; congruence).
  destruct o as [p|d a].
  - exists x. split; auto. unfold nstep. rewrite step_new_frame; auto.
  - destruct (Nat.eq_dec d c) as [->|N].
    + rewrite nstep_local, Hc. exists (fst (local_step a x)). split.
      * now apply update_same.
      * now apply res_stable.
    + exists x. split; auto. unfold nstep. rewrite step_frame; auto.
Qed.

Lemma run_ctx_stable h : forall s c x k c0,
  nth_error s c = Some x -> find k (res x) = Some c0 ->
  exists x', nth_error (run s h) c = Some x' /\ find k (res x') = Some c0.
Proof.
  induction h as [|o r IH]; intros s c x k c0 Hc Hk.
  - exists x. auto.
  - rewrite run_cons. destruct (nstep_ctx_stable s o c x k c0 Hc Hk) as (x1 & H1 & H2). eauto.
Qed.

(* the outcome of a step addressed to context c *)
Definition out_at (s : state) (c : nat) (a : action) : out := snd (step s (At c a)).

Lemma out_at_local s c a x : nth_error s c = Some x ->
  match a with AExitEnd => True | _ => out_at s c a = snd (local_step a x) end.
Proof.
  intro H. unfold out_at. simpl. rewrite H. destruct (local_step a x) as [x' o] eqn:E. simpl.
  destruct a; auto.
Qed.

(* C03: once a lookup of pair k in context c has returned an object, every later lookup of
   that pair in that context that returns an object returns the same one -- whatever happens
   in between, in this or any other context, through any lookup API *)
Theorem lookups_agree_forever : forall s c x a1 k v h x2 a2 v2,
  state_inv s -> nth_error s c = Some x ->
  lookup_key x a1 = Some k -> snd (local_step a1 x) = Val v ->
  nth_error (run (nstep s (At c a1)) h) c = Some x2 ->
  lookup_key x2 a2 = Some k -> snd (local_step a2 x2) = Val v2 ->
  v2 = v.
Proof.
  intros s c x a1 k v h x2 a2 v2 I Hc K1 O1 Hx2 K2 O2.
  destruct (I c x Hc) as (Ix & _ & _).
  destruct (lookup_binds a1 x k v Ix K1 O1) as (c0 & B0 & V0).
  assert (H1 : nth_error (nstep s (At c a1)) c = Some (fst (local_step a1 x))).
  { rewrite nstep_local, Hc. apply update_same. apply nth_error_Some. congruence. }
  destruct (run_ctx_stable h _ _ _ _ _ H1 B0) as (x2' & E2 & B2).
  rewrite Hx2 in E2. inversion E2; subst x2'.
  assert (I2 : state_inv (run (nstep s (At c a1)) h)) by (apply reachable_inv; now apply step_inv).
  destruct (I2 c x2 Hx2) as (Ix2 & _ & _).
  destruct (lookup_binds a2 x2 k v2 Ix2 K2 O2) as (c2 & B3 & V3).
  pose proof (res_stable a2 x2 k c0 B2) as B4. rewrite B3 in B4. inversion B4; subst. reflexivity.
Qed.

(* ---------------- C03: a failed add changes nothing anywhere ---------------- *)
Lemma update_id s c x : nth_error s c = Some x -> update s c x = s.
Proof. revert c. induction s as [|y r IH]; intros [|c] H; simpl in *; try discriminate; [inversion H; auto | f_equal; auto]. Qed.

Theorem failed_add_changes_nothing : forall s c a,
  is_add a = true -> is_err (snd (step s (At c a))) = true -> fst (step s (At c a)) = s.
Proof.
  intros s c a A E. simpl in *. destruct (nth_error s c) as [x|] eqn:Hc; auto.
  destruct (local_step a x) as [x' o] eqn:L. simpl in *.
  assert (O : o = snd (local_step a x)) by now rewrite L.
  assert (Eo : is_err o = true) by (destruct a; simpl in A; try discriminate; exact E).
  rewrite O in Eo. pose proof (failed_add_noop a x A Eo) as F. rewrite L in F. simpl in F. subst x'.
  now apply update_id.
Qed.

(* a rejected operation (RuntimeError from the lifecycle guard) changes nothing either *)
Theorem rejected_changes_nothing : forall s c a x,
  nth_error s c = Some x -> in_states (life x) (allowed a) = false ->
  step s (At c a) = (s, match a with AExitEnd => patch s c a (Err RuntimeErr) | _ => Err RuntimeErr end).
Proof.
  intros s c a x Hc G. simpl. rewrite Hc, (guard_rejects a x G). rewrite (update_id s c x Hc).
  destruct a; reflexivity.
Qed.

(* ---------------- C04: a factory body starts at most once per context ---------------- *)
Definition gen_in_flight (x : ctx) (fk : key) : Prop :=
  exists tok f v k, nfind tok (pending x) = Some (f, v, k) /\ fkey f = fk.

Record cinv (x : ctx) : Prop := {
  (* a factory is stored under every one of its keys *)
  ci_full : forall k f, find k (facs x) = Some f ->
      forall t, In t (ftypes f) -> find (t, fname f) (facs x) = Some f;
  ci_le : forall fk, count fk (calls x) <= 1;
  (* a factory whose body has been started is either still running or its product (or some
     other resource) occupies every one of its keys -- so it will never be started again *)
  ci_done : forall fk, count fk (calls x) = 1 ->
      gen_in_flight x fk \/
      exists f, find fk (facs x) = Some f /\ fkey f = fk /\
                forall t, In t (ftypes f) -> taken (res x) (fname f) t = true;
  ci_pend : forall tok f v k, In (tok, (f, v, k)) (pending x) ->
      find (fkey f) (facs x) = Some f /\ count (fkey f) (calls x) = 1 /\ fkind_of f = FAsyncSusp
}.

Lemma count_ins_same fk n l : count fk (ins fk n l) = n.
Proof. unfold count. now rewrite find_ins_same. Qed.
Lemma count_ins_other fk fk' n l : key_eqb fk' fk = false -> count fk' (ins fk n l) = count fk' l.
Proof. intro H. unfold count. now rewrite find_ins_other. Qed.

Lemma taken_stable_sg x f v name t : taken (res x) name t = true -> taken (res (store_generated x f v)) name t = true.
Proof.
  unfold taken. destruct (find (t, name) (res x)) as [c|] eqn:E; [|discriminate].
  intros _. now rewrite (store_generated_stable x f v _ _ E).
Qed.

Lemma store_generated_all_taken x f v t :
  In t (ftypes f) -> taken (res (store_generated x f v)) (fname f) t = true.
Proof.
  intro Hin. destruct (taken (res x) (fname f) t) eqn:T.
  - now apply taken_stable_sg.
  - assert (Hf : In t (free_types x f)) by (unfold free_types; apply filter_In; split; auto; now rewrite T).
    destruct (store_generated_binds x f v t Hf) as (c & Hc & _). unfold taken. now rewrite Hc.
Qed.

Lemma nfind_In {V} k (v : V) l : nfind k l = Some v -> In (k, v) l.
Proof.
  induction l as [|[k' v'] r IH]; simpl; [discriminate|].
  destruct (Nat.eqb k k') eqn:E; intro H.
  - apply Nat.eqb_eq in E. inversion H; subst. auto.
  - auto.
Qed.

Lemma generating_In x fk : generating x fk = true ->
  exists tok f v k, In (tok, (f, v, k)) (pending x) /\ fkey f = fk.
Proof.
  unfold generating. rewrite existsb_exists.
  intros ([tok [[f v] k]] & Hin & E). simpl in E. apply key_eqb_eq in E. eauto 8.
Qed.

Lemma in_flight_generating x fk : gen_in_flight x fk -> generating x fk = true.
Proof.
  intros (tok & f & v & k & H & E). unfold generating. apply existsb_exists.
  exists (tok, (f, v, k)). split; [now apply nfind_In|]. simpl. subst. apply key_eqb_refl.
Qed.

Lemma In_nins {V} k (v : V) l k' v' : In (k', v') (nins k v l) -> (k', v') = (k, v) \/ In (k', v') l.
Proof.
  induction l as [|[k0 v0] r IH]; simpl.
  - intros [H|[]]; auto.
  - destruct (Nat.eqb k k0); simpl; intros [H|H]; auto. destruct (IH H); auto.
Qed.
Lemma In_ndel {V} k (l : list (nat * V)) k' v' : In (k', v') (ndel k l) -> In (k', v') l.
Proof.
  induction l as [|[k0 v0] r IH]; simpl; auto.
  destruct (Nat.eqb k k0); simpl; intros; auto. destruct H; auto.
Qed.
Lemma nfind_nins_same {V} k (v : V) l : nfind k (nins k v l) = Some v.
Proof.
  induction l as [|[k0 v0] r IH]; simpl; rewrite ?Nat.eqb_refl; auto.
  destruct (Nat.eqb k k0) eqn:E; simpl; rewrite ?Nat.eqb_refl, ?E; auto.
Qed.
Lemma nfind_nins_other {V} k (v : V) l k' : k' <> k -> nfind k' (nins k v l) = nfind k' l.
Proof.
  intro N. apply Nat.eqb_neq in N. induction l as [|[k0 v0] r IH]; simpl; rewrite ?N; auto.
  destruct (Nat.eqb k k0) eqn:E; simpl.
  - apply Nat.eqb_eq in E. subst. now rewrite N.
  - destruct (Nat.eqb k' k0); auto.
Qed.
Lemma nfind_ndel_other {V} k (l : list (nat * V)) k' : k' <> k -> nfind k' (ndel k l) = nfind k' l.
Proof.
  intro N. apply Nat.eqb_neq in N. induction l as [|[k0 v0] r IH]; simpl; auto.
  destruct (Nat.eqb k k0) eqn:E; simpl.
  - apply Nat.eqb_eq in E. subst. now rewrite N.
  - destruct (Nat.eqb k' k0); auto.
Qed.

Lemma hd_In (l : list ty) t : In t l -> In (hd 0 l) l.
Proof. destruct l; simpl; auto. Qed.

(* a factory found under any of its keys is found under its identifying key *)
Lemma fkey_found x f k : ctx_inv x -> cinv x -> find k (facs x) = Some f -> find (fkey f) (facs x) = Some f.
Proof.
  intros I C F. destruct (inv_fac_coh x I _ _ F) as [_ B].
  unfold fkey. eapply ci_full; eauto. eapply hd_In; eauto.
Qed.

Lemma sync_not_generating x f : cinv x -> find (fkey f) (facs x) = Some f ->
  fkind_of f <> FAsyncSusp -> generating x (fkey f) = false.
Proof.
  intros C F K. destruct (generating x (fkey f)) eqn:G; auto.
  apply generating_In in G. destruct G as (tok & f' & v & k & Hin & E).
  destruct (ci_pend x C _ _ _ _ Hin) as (F' & _ & K'). rewrite E, F in F'. inversion F'; subst. contradiction.
Qed.

Lemma fac_key_head x t name f : ctx_inv x -> find (t, name) (facs x) = Some f -> fname f = name /\ In t (ftypes f).
Proof. intros I F. destruct (inv_fac_coh x I _ _ F) as [A B]. simpl in *. auto. Qed.

(* the body of a factory about to be started has not been started before in this context *)
Lemma start_count_zero x t name f : ctx_inv x -> cinv x ->
  find (t, name) (res x) = None -> find (t, name) (facs x) = Some f ->
  generating x (fkey f) = false -> count (fkey f) (calls x) = 0.
Proof.
  intros I C R F G. pose proof (ci_le x C (fkey f)) as Le.
  destruct (count (fkey f) (calls x)) as [|[|n]] eqn:E; auto; [|lia].
  exfalso. destruct (ci_done x C _ E) as [Fl|(f' & F' & _ & T)].
  - apply in_flight_generating in Fl. congruence.
  - rewrite (fkey_found x f _ I C F) in F'. inversion F'; subst f'.
    destruct (fac_key_head x t name f I F) as [<- Hin].
    specialize (T t Hin). unfold taken in T. now rewrite R in T.
Qed.

(* fields that the invariant does not read *)
Lemma cinv_frame x y : facs y = facs x -> calls y = calls x -> pending y = pending x ->
  (forall n t, taken (res x) n t = true -> taken (res y) n t = true) -> cinv x -> cinv y.
Proof.
  intros Hf Hc Hp Ht [C1 C2 C3 C4]. constructor; rewrite ?Hf, ?Hc, ?Hp; auto.
  intros fk E. destruct (C3 fk E) as [(tok & f & v & k & P & Ek)|(f & F & Ek & T)].
  - left. exists tok, f, v, k. rewrite ?Hp. auto.
  - right. exists f. rewrite ?Hf. auto.
Qed.

Lemma taken_ins_all_stable {V} ts nm (v : V) l name t :
  (forall t', In t' ts -> find (t', nm) l = None) ->
  taken l name t = true -> taken (ins_all ts nm v l) name t = true.
Proof.
  intros Hfree. unfold taken. destruct (find (t, name) l) as [c|] eqn:E; [|discriminate].
  intros _. now rewrite (find_ins_all_stable ts nm v l _ _ E Hfree).
Qed.

(* the state right after the body of factory f has been entered *)
Lemma cinv_started x f : ctx_inv x -> cinv x -> find (fkey f) (facs x) = Some f ->
  count (fkey f) (calls x) = 0 ->
  let x1 := fst (start_factory x f) in
  (forall k g, find k (facs x1) = Some g -> forall t, In t (ftypes g) -> find (t, fname g) (facs x1) = Some g) /\
  (forall fk, count fk (calls x1) <= 1) /\
  count (fkey f) (calls x1) = 1 /\
  (forall fk, key_eqb fk (fkey f) = false -> count fk (calls x1) = count fk (calls x)) /\
  res x1 = res x /\ facs x1 = facs x /\ pending x1 = pending x.
Proof.
  intros I C F Z. simpl. repeat split; auto.
  - apply (ci_full x C).
  - intro fk. destruct (key_eqb fk (fkey f)) eqn:E.
    + apply key_eqb_eq in E. subst. rewrite count_ins_same. lia.
    + rewrite count_ins_other by auto. apply (ci_le x C).
  - rewrite count_ins_same. lia.
  - intros fk E. now apply count_ins_other.
Qed.

Lemma cinv_after_sync x f v : ctx_inv x -> cinv x -> find (fkey f) (facs x) = Some f ->
  count (fkey f) (calls x) = 0 ->
  cinv (store_generated (fst (start_factory x f)) f v).
Proof.
  intros I C F Z. destruct (cinv_started x f I C F Z) as (A1 & A2 & A3 & A4 & Er & Ef & Ep).
  set (x1 := fst (start_factory x f)) in *.
  assert (Ecalls : calls (store_generated x1 f v) = calls x1)
    by (unfold_sg; destruct (free_types x1 f); reflexivity).
  assert (Epend : pending (store_generated x1 f v) = pending x1)
    by (unfold_sg; destruct (free_types x1 f); reflexivity).
  constructor; rewrite ?facs_store_generated, ?Ecalls, ?Epend; auto.
  - intros fk E. destruct (key_eqb fk (fkey f)) eqn:K.
    + apply key_eqb_eq in K. subst fk. right. exists f. rewrite Ef. repeat split; auto.
      intros t Ht. now apply store_generated_all_taken.
    + rewrite A4 in E by auto. destruct (ci_done x C fk E) as [(tok & g & w & k & P & Ek)|(g & G & Ek & T)].
      * left. exists tok, g, w, k. rewrite ?Epend, ?Ep. auto.
      * right. exists g. rewrite ?facs_store_generated, ?Ef. repeat split; auto. intros t Ht. apply taken_stable_sg. rewrite Er. auto.
  - intros tok g w k Hin. rewrite Ep in Hin. destruct (ci_pend x C _ _ _ _ Hin) as (G & Cn & Kd).
    rewrite Ef. repeat split; auto.
    destruct (key_eqb (fkey g) (fkey f)) eqn:K.
    + apply key_eqb_eq in K. rewrite K in Cn. lia.
    + now rewrite A4.
Qed.

Lemma cinv_after_susp x f v tok k : ctx_inv x -> cinv x -> find (fkey f) (facs x) = Some f ->
  count (fkey f) (calls x) = 0 -> fkind_of f = FAsyncSusp -> nfind tok (pending x) = None ->
  cinv (add_pending (fst (start_factory x f)) tok f v k).
Proof.
  intros I C F Z Kd Fresh. destruct (cinv_started x f I C F Z) as (A1 & A2 & A3 & A4 & Er & Ef & Ep).
  set (x1 := fst (start_factory x f)) in *.
  constructor; cbn [facs calls pending res add_pending set_pending]; auto.
  - intros fk E. destruct (key_eqb fk (fkey f)) eqn:K.
    + apply key_eqb_eq in K. subst fk. left. exists tok, f, v, k. split; auto.
      cbn [pending add_pending set_pending]. apply nfind_nins_same.
    + rewrite A4 in E by auto. destruct (ci_done x C fk E) as [(tok' & g & w & k' & P & Ek)|(g & G & Ek & T)].
      * left. exists tok', g, w, k'. split; auto. cbn [pending add_pending set_pending].
        rewrite nfind_nins_other, Ep; auto. congruence.
      * right. exists g. rewrite Ef, Er. auto.
  - intros tok' g w k' Hin. apply In_nins in Hin. destruct Hin as [E|Hin].
    + inversion E; subst. rewrite Ef. auto.
    + rewrite Ep in Hin. destruct (ci_pend x C _ _ _ _ Hin) as (G & Cn & Kd').
      rewrite Ef. repeat split; auto.
      destruct (key_eqb (fkey g) (fkey f)) eqn:K.
      * apply key_eqb_eq in K. rewrite K in Cn. lia.
      * now rewrite A4.
Qed.

Lemma cinv_after_end x tok f v k : ctx_inv x -> cinv x -> nfind tok (pending x) = Some (f, v, k) ->
  cinv (store_generated (del_pending x tok) f v).
Proof.
  intros I C P. set (x1 := del_pending x tok).
  assert (Ecalls : calls (store_generated x1 f v) = calls x)
    by (unfold_sg; destruct (free_types x1 f); reflexivity).
  assert (Epend : pending (store_generated x1 f v) = ndel tok (pending x))
    by (unfold_sg; destruct (free_types x1 f); reflexivity).
  destruct (ci_pend x C _ _ _ _ (nfind_In _ _ _ P)) as (F & Cn & Kd).
  constructor; rewrite ?facs_store_generated, ?Ecalls, ?Epend; cbn [facs del_pending set_pending x1].
  - apply (ci_full x C).
  - apply (ci_le x C).
  - intros fk E. destruct (ci_done x C fk E) as [(tok' & g & w & k' & P' & Ek)|(g & G & Ek & T)].
    + destruct (Nat.eq_dec tok' tok) as [->|N].
      * rewrite P in P'. inversion P'; subst g w k'. right. exists f. subst fk. repeat split; auto.
        intros t Ht. now apply store_generated_all_taken.
      * left. exists tok', g, w, k'. split; auto. rewrite Epend. now rewrite nfind_ndel_other.
    + right. exists g. repeat split; auto. intros t Ht. apply taken_stable_sg. cbn. auto.
  - intros tok' g w k' Hin. apply In_ndel in Hin. apply (ci_pend x C _ _ _ _ Hin).
Qed.

Lemma local_step_cinv a x : ctx_inv x -> cinv x -> cinv (fst (local_step a x)).
Proof.
  intros I C. unfold local_step; rewrite ?sga_eq.
  destruct (negb (in_states (life x) (allowed a))); [exact C|].
  assert (FR : forall y, facs y = facs x -> calls y = calls x -> pending y = pending x -> res y = res x -> cinv y).
  { intros y A B D E. eapply cinv_frame; eauto. intros n t. now rewrite E. }
  destruct a; simpl.
  - apply FR; reflexivity.
  - destruct (life x); try exact C; apply FR; reflexivity.
  - destruct (life x); try exact C; apply FR; reflexivity.
  - (* add_resource *)
    destruct (negb (forallb ty_is_class (eff_types types vty))); [exact C|].
    destruct v as [n|]; [|exact C].
    destruct (negb (valid_name name)); [exact C|].
    destruct cb; simpl; try exact C;
    (destruct (existsb (taken (res x) name) (eff_types types vty)) eqn:Ex; [exact C|];
     simpl; apply (cinv_frame x); [reflexivity|reflexivity|reflexivity| |exact C];
     intros n' t; cbn [res set_evlog set_td set_res]; apply taken_ins_all_stable;
     now apply existsb_taken_false).
  - (* add_resource_factory *)
    destruct (negb (valid_name name)); [exact C|].
    destruct types as [|t0 tr] eqn:Et; [exact C|]. rewrite <- Et in *.
    destruct (existsb ty_is_none types); [exact C|].
    destruct (existsb (taken (facs x) name) types) eqn:Ex; [exact C|].
    simpl. pose proof (existsb_taken_false _ _ _ Ex) as Hfree.
    destruct C as [C1 C2 C3 C4].
    constructor; cbn [facs calls pending res set_evlog set_facs]; auto.
    + (* fullness *)
      intros k g Hk t Ht.
      destruct (existsb (fun t1 => key_eqb k (t1, name)) types) eqn:Ek.
      * apply existsb_exists in Ek. destruct Ek as (t1 & Hin & E). apply key_eqb_eq in E. subst k.
        rewrite find_ins_all_in in Hk by auto. inversion Hk; subst g. simpl in *.
        now apply find_ins_all_in.
      * assert (Hno : forall t1, In t1 types -> key_eqb k (t1, name) = false).
        { intros t1 Hin. destruct (key_eqb k (t1, name)) eqn:E; auto.
          assert (existsb (fun t1 => key_eqb k (t1, name)) types = true) by (apply existsb_exists; eauto). congruence. }
        rewrite find_ins_all_other in Hk by auto.
        apply find_ins_all_stable; auto. eapply C1; eauto.
    + intros fk E. destruct (C3 fk E) as [Fl|(g & G & Ek & T)]; [left; exact Fl|].
      right. exists g. repeat split; auto. now apply find_ins_all_stable.
    + intros tok g w k Hin. destruct (C4 _ _ _ _ Hin) as (G & Cn & Kd). repeat split; auto.
      now apply find_ins_all_stable.
  - (* get_resource_nowait *)
    destruct (find (t, name) (res x)) eqn:R; [exact C|].
    destruct (find (t, name) (facs x)) as [f|] eqn:F; [|unfold not_found; destruct optional; exact C].
    destruct (fkind_of f) eqn:Kd; try exact C.
    pose proof (fkey_found x f _ I C F) as Fk.
    apply cinv_after_sync; auto.
    eapply start_count_zero; eauto. apply sync_not_generating; auto. congruence.
  - (* get_resource, first half *)
    destruct (tok_used x tok) eqn:U; [exact C|].
    destruct (find (t, name) (res x)) eqn:R; [exact C|].
    destruct (find (t, name) (facs x)) as [f|] eqn:F; [|unfold not_found; destruct optional; exact C].
    destruct (generating x (fkey f)) eqn:G; [apply FR; reflexivity|].
    pose proof (fkey_found x f _ I C F) as Fk.
    pose proof (start_count_zero x t name f I C R F G) as Z.
    destruct (fkind_of f) eqn:Kd.
    + apply cinv_after_sync; auto.
    + apply cinv_after_sync; auto.
    + apply cinv_after_susp; auto. unfold tok_used in U. destruct (nfind tok (pending x)); auto. discriminate.
  - (* get_resource, second half *)
    destruct (nfind tok (pending x)) as [[[f v] k]|] eqn:P.
    + simpl. eapply cinv_after_end; eauto.
    + destruct (nfind tok (waiters x)) as [[k fk]|]; [|exact C].
      destruct (generating x fk); [exact C|].
      destruct (find k (res x)); [|exact C]. apply FR; reflexivity.
  - exact C.
  - destruct cb; try exact C. apply FR; reflexivity.
Qed.

Lemma snapshot_cinv i p : cinv p -> cinv (snapshot i p).
Proof.
  intros [C1 C2 C3 C4]. constructor; cbn [facs calls pending res snapshot]; auto.
  all: first [ intros fk; unfold count; simpl; lia
             | intros fk E; unfold count in E; simpl in E; discriminate
             | intros tok f v k [] ].
Qed.

Lemma root_cinv i : cinv (root_ctx i).
Proof.
  constructor; simpl.
  all: first [ intros fk; unfold count; simpl; lia
             | intros fk E; unfold count in E; simpl in E; discriminate
             | intros tok f v k []
             | intros; discriminate ].
Qed.

Definition state_cinv (s : state) : Prop := forall i x, nth_error s i = Some x -> cinv x.

Lemma step_cinv s o : state_inv s -> state_cinv s -> state_cinv (fst (step s o)).
Proof.
  intros I C. destruct o as [[p|]|c a]; simpl.
  - destruct (nth_error s p) as [px|] eqn:Ep; simpl; auto.
    intros i x Hi. destruct (Nat.lt_ge_cases i (length s)).
    + rewrite nth_error_app1 in Hi by lia. eauto.
    + rewrite nth_error_app2 in Hi by lia. destruct (i - length s) eqn:Ed; simpl in Hi.
      * inversion Hi; subst x. apply snapshot_cinv. eauto.
      * destruct n; discriminate.
  - intros i x Hi. destruct (Nat.lt_ge_cases i (length s)).
    + rewrite nth_error_app1 in Hi by lia. eauto.
    + rewrite nth_error_app2 in Hi by lia. destruct (i - length s) eqn:Ed; simpl in Hi.
      * inversion Hi; subst x. apply root_cinv.
      * destruct n; discriminate.
  - destruct (nth_error s c) as [x|] eqn:Ec; simpl; auto.
    destruct (local_step a x) as [x' o] eqn:El. simpl.
    intros i y Hi. rewrite update_nth in Hi. destruct (Nat.eqb i c) eqn:E.
    + apply Nat.eqb_eq in E. subst i. destruct (Nat.ltb c (length s)); [|discriminate].
      inversion Hi; subst y. destruct (I c x Ec) as (Ix & _ & _).
      pose proof (local_step_cinv a x Ix (C c x Ec)) as A. now rewrite El in A.
    + eauto.
Qed.

Lemma run_both h : forall s, state_inv s -> state_cinv s -> state_inv (run s h) /\ state_cinv (run s h).
Proof.
  induction h as [|o r IH]; intros s I C; auto.
  rewrite run_cons. apply IH; [now apply step_inv | now apply step_cinv].
Qed.

(* C04: in every reachable state, for every context and every factory registered there, the
   factory's body has been started at most once on behalf of that context -- whatever the
   interleaving of (possibly suspended and racing) lookups *)
Theorem factory_started_at_most_once : forall h c x fk,
  nth_error (run [] h) c = Some x -> count fk (calls x) <= 1.
Proof.
  intros h c x fk H.
  destruct (run_both h [] init_inv) as [_ C]; [intros i y Hi; destruct i; discriminate|].
  apply (ci_le x (C c x H)).
Qed.

(* ... and once it has been started and has finished, every one of the factory's pairs is
   bound in that context, so that no lookup can reach the factory again *)
Theorem factory_finished_all_bound : forall h c x fk,
  nth_error (run [] h) c = Some x -> count fk (calls x) = 1 -> generating x fk = false ->
  exists f, find fk (facs x) = Some f /\ forall t, In t (ftypes f) -> exists r, find (t, fname f) (res x) = Some r.
Proof.
  intros h c x fk H E G.
  destruct (run_both h [] init_inv) as [_ C]; [intros i y Hi; destruct i; discriminate|].
  destruct (ci_done x (C c x H) fk E) as [Fl|(f & F & _ & T)].
  - apply in_flight_generating in Fl. congruence.
  - exists f. split; auto. intros t Ht. specialize (T t Ht). unfold taken in T.
    destruct (find (t, fname f) (res x)); eauto. discriminate.
Qed.

(* C04 / C02: an object generated on behalf of context c is never found in the tables of
   another context *)
Theorem generated_objects_stay_home : forall h c x k r c' f n,
  nth_error (run [] h) c = Some x -> find k (res x) = Some r -> cvalue r = Gen c' f n -> c' = c.
Proof.
  intros h c x k r c' f n H Hk Hv.
  destruct (run_both h [] init_inv) as [I _]; [intros i y Hi; destruct i; discriminate|].
  destruct (I c x H) as (Ix & _ & Hc).
  destruct (cgen r) eqn:G.
  - destruct (inv_owner x Ix k r Hk G) as (f' & n' & E). rewrite E in Hv. inversion Hv. congruence.
  - destruct (inv_static x Ix k r Hk G) as (n' & E). rewrite E in Hv. discriminate.
Qed.

(* ---------------- C18: the event log of a context ---------------- *)
Theorem evlog_only_own_operations : forall s c a d x,
  d <> c -> nth_error s d = Some x -> nth_error (fst (step s (At c a))) d = Some x.
Proof. intros s c a d x N H. now rewrite step_frame. Qed.

Theorem evlog_new_context_empty : forall s p x,
  nth_error (fst (step s (New p))) (length s) = Some x -> evlog x = [].
Proof.
  intros s p x. destruct p as [p|]; simpl.
  - destruct (nth_error s p) as [px|]; simpl.
    + rewrite nth_error_app2, Nat.sub_diag by lia. simpl. intro H. inversion H. reflexivity.
    + intro H. assert (length s < length s) by (apply nth_error_Some; congruence). lia.
  - rewrite nth_error_app2, Nat.sub_diag by lia. simpl. intro H. inversion H. reflexivity.
Qed.

(* ---------------- C13 along histories ---------------- *)
Lemma life_monotone_nstep s o c x x' :
  nth_error s c = Some x -> nth_error (nstep s o) c = Some x' -> rank (life x) <= rank (life x').
Proof.
  intros Hc H'. assert (Lt : c < length s) by (apply nth_error_Some; congruence).
  destruct o as [p|d a].
  - unfold nstep in H'. rewrite step_new_frame in H' by auto. rewrite Hc in H'. inversion H'; subst. lia.
  - destruct (Nat.eq_dec d c) as [->|N].
    + rewrite nstep_local, Hc in H'. rewrite update_same in H' by auto. inversion H'; subst. apply life_monotone.
    + unfold nstep in H'. rewrite step_frame in H' by auto. rewrite Hc in H'. inversion H'; subst. lia.
Qed.

Lemma nstep_keeps s o c x : nth_error s c = Some x -> exists x', nth_error (nstep s o) c = Some x'.
Proof.
  intro Hc. assert (Lt : c < length s) by (apply nth_error_Some; congruence).
  destruct o as [p|d a].
  - exists x. unfold nstep. rewrite step_new_frame by auto. exact Hc.
  - destruct (Nat.eq_dec d c) as [->|N].
    + rewrite nstep_local, Hc. eexists. now apply update_same.
    + exists x. unfold nstep. rewrite step_frame by auto. exact Hc.
Qed.

Lemma life_monotone_run : forall h s c x x',
  nth_error s c = Some x -> nth_error (run s h) c = Some x' -> rank (life x) <= rank (life x').
Proof.
  induction h as [|o r IH]; intros s c x x' Hc H'.
  - simpl in H'. rewrite Hc in H'. inversion H'; subst. lia.
  - rewrite run_cons in H'. destruct (nstep_keeps s o c x Hc) as (x1 & H1).
    pose proof (life_monotone_nstep s o c x x1 Hc H1). pose proof (IH _ _ _ _ H1 H'). lia.
Qed.

Lemma open_child_reported s c x :
  nth_error s c = Some x -> life x = Closing -> has_open_child s c = true ->
  exists ran, snd (step s (At c AExitEnd)) = Exited ran true.
Proof.
  intros Hc L Ch. simpl. rewrite Hc. unfold local_step. simpl. rewrite L. simpl.
  rewrite ?Hc, Ch. exists (rev (td x)). reflexivity.
Qed.
