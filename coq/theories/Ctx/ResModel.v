(* One model of asphalt's Context resource tables and lifecycle (src/asphalt/core/_context.py),
   used by C02, C03, C04, C13, C18 (and C19 through the lookup functions).
   Atomic operations; every operation except [New] reads and writes ONE context record
   ("local by construction"), which is what the non-interference theorem of C02 rests on.
   Definitions only. *)
From Coq Require Import String.
From Coq Require Import List Bool Arith.
From Asphalt Require Import Gen.Gen_addres Gen.Gen_lookup.
Import ListNotations.
Open Scope string_scope.
Open Scope list_scope.

(* ---------- identifiers ---------- *)
(* types: an id < 90 is a class; 90..98 a non-class object given where a type is expected;
   99 is None *)
Definition ty := nat.
Definition ty_is_class (t : ty) : bool := Nat.ltb t 90.
Definition ty_is_none (t : ty) : bool := Nat.eqb t 99.

Definition key := (ty * string)%type.
Definition key_eqb (a b : key) : bool := Nat.eqb (fst a) (fst b) && String.eqb (snd a) (snd b).

(* resource_name_re = \w+ (fullmatch); names are ASCII in the model *)
Definition word_char (c : Ascii.ascii) : bool :=
  let n := Ascii.nat_of_ascii c in
  (Nat.leb 48 n && Nat.leb n 57) || (Nat.leb 65 n && Nat.leb n 90)
  || (Nat.leb 97 n && Nat.leb n 122) || Nat.eqb n 95.
Fixpoint all_word (s : string) : bool :=
  match s with EmptyString => true | String c r => word_char c && all_word r end.
Definition valid_name (s : string) : bool :=
  match s with EmptyString => false | _ => all_word s end.

Inductive value :=
| Static (n : nat)                       (* an object handed in by the user *)
| Gen (c : nat) (fid : nat) (k : nat).   (* k-th product made on behalf of context c (by factory fid) *)

Definition value_eqb (a b : value) : bool :=
  match a, b with
  | Static x, Static y => Nat.eqb x y
  | Gen c f k, Gen c' f' k' => Nat.eqb c c' && Nat.eqb f f' && Nat.eqb k k'
  | _, _ => false
  end.

Inductive lstate := Inactive | Open | Closing | Closed.
Definition lstate_eqb (a b : lstate) : bool :=
  match a, b with
  | Inactive, Inactive | Open, Open | Closing, Closing | Closed, Closed => true
  | _, _ => false
  end.

Inductive fkind := FSync | FAsyncImm | FAsyncSusp.
(* FAsyncImm: `async def` that returns without suspending; FAsyncSusp: suspends once *)

Record container := Cont {
  cvalue : value; ctypes : list ty; cname : string; cdesc : option nat; cgen : bool }.

Record factory := Fac {
  fid : nat; fkind_of : fkind; ftypes : list ty; fname : string; fdesc : option nat }.

(* ResourceEvent(resource_types, resource_name, resource_description, is_factory) *)
Record revent := REv { ev_types : list ty; ev_name : string; ev_desc : option nat; ev_is_factory : bool }.

Inductive err := RuntimeErr | ValueErr | TypeErr | Conflict | NotFound | AsyncErr.

Inductive cbarg := NoCb | Cb (id : nat) | BadCb.   (* BadCb: a non-callable object *)

Inductive out :=
| OK
| Val (v : value)
| NoneVal
| Err (e : err)
| Pending                                  (* an async lookup is suspended inside its factory *)
| Map (l : list (string * value))          (* get_resources *)
| Exited (ran : list nat) (corrupt : bool) (* teardown finished: callbacks run after the gate, in
                                              order; "stack corruption" RuntimeError reported *)
| Began (ran : list nat)                   (* teardown begun: callbacks run so far, in order *)
| Invalid.                                 (* outside the modelled protocol; never generated *)

Record ctx := Ctx {
  cid : nat;
  parent : option nat;
  life : lstate;
  res : list (key * container);
  facs : list (key * factory);
  td : list nat;                    (* teardown stack, top = last *)
  evlog : list revent;
  next_local : nat;
  calls : list (key * nat);         (* ghost: factory (identified by its first key, unique within a
                                       context) -> number of times its body was started on behalf
                                       of this context *)
  pending : list (nat * (factory * value * key)); (* suspended async lookups: token -> (factory, the object its body will return, the requested key) *)
  waiters : list (nat * (key * key)); (* async lookups waiting for a generation already in flight:
                                         token -> (requested key, key identifying the factory) *)
  blockexc : bool                   (* the `async with` block was left with an exception *)
}.

(* ---------- association lists ---------- *)
Fixpoint find {V} (k : key) (l : list (key * V)) : option V :=
  match l with
  | [] => None
  | (k', v) :: r => if key_eqb k k' then Some v else find k r
  end.

Fixpoint ins {V} (k : key) (v : V) (l : list (key * V)) : list (key * V) :=
  match l with
  | [] => [(k, v)]
  | (k', v') :: r => if key_eqb k k' then (k, v) :: r else (k', v') :: ins k v r
  end.

Fixpoint nfind {V} (k : nat) (l : list (nat * V)) : option V :=
  match l with
  | [] => None
  | (k', v) :: r => if Nat.eqb k k' then Some v else nfind k r
  end.
Fixpoint nins {V} (k : nat) (v : V) (l : list (nat * V)) : list (nat * V) :=
  match l with
  | [] => [(k, v)]
  | (k', v') :: r => if Nat.eqb k k' then (k, v) :: r else (k', v') :: nins k v r
  end.
Fixpoint ndel {V} (k : nat) (l : list (nat * V)) : list (nat * V) :=
  match l with
  | [] => []
  | (k', v') :: r => if Nat.eqb k k' then ndel k r else (k', v') :: ndel k r
  end.


(* store [c] under (t, name) for every t of [ts] *)
Fixpoint ins_all {V} (ts : list ty) (name : string) (v : V) (l : list (key * V)) : list (key * V) :=
  match ts with
  | [] => l
  | t :: r => ins_all r name v (ins (t, name) v l)
  end.

Definition count (k : key) (l : list (key * nat)) : nat := match find k l with Some n => n | None => 0 end.

Definition taken {V} (l : list (key * V)) (name : string) (t : ty) : bool :=
  match find (t, name) l with Some _ => true | None => false end.

(* ---------- actions addressed to one context ---------- *)
Inductive action :=
| AEnter
| AExitBegin (exc : bool)
| AExitEnd
| AAddResource (v : option nat) (vty : ty) (name : string) (types : list ty) (desc : option nat) (cb : cbarg)
| AAddFactory (f : nat) (kind : fkind) (name : string) (types : list ty) (desc : option nat)
| AGetNowait (t : ty) (name : string) (optional : bool)
| AGetBegin (tok : nat) (t : ty) (name : string) (optional : bool)
| AGetEnd (tok : nat)
| AGetResources (t : ty)
| AAddTeardown (cb : cbarg).

(* the lifecycle states in which each guarded method is accepted; tied to the source by
   Gen/Gen_guards.v (see Ctx/GuardTie.v) *)
Definition allowed (a : action) : list lstate :=
  match a with
  | AEnter => [Inactive]
  | AAddFactory _ _ _ _ _ => [Open]
  | AAddResource _ _ _ _ _ _ | AGetNowait _ _ _ | AGetBegin _ _ _ _ | AAddTeardown _ => [Open; Closing]
  | AExitBegin _ | AExitEnd | AGetEnd _ | AGetResources _ => [Inactive; Open; Closing; Closed]
  end.

Fixpoint in_states (s : lstate) (l : list lstate) : bool :=
  match l with
  | [] => false
  | y :: r => lstate_eqb s y || in_states s r
  end.

Definition set_life (x : ctx) v := Ctx (cid x) (parent x) v (res x) (facs x) (td x) (evlog x) (next_local x) (calls x) (pending x) (waiters x) (blockexc x).
Definition set_res (x : ctx) v := Ctx (cid x) (parent x) (life x) v (facs x) (td x) (evlog x) (next_local x) (calls x) (pending x) (waiters x) (blockexc x).
Definition set_facs (x : ctx) v := Ctx (cid x) (parent x) (life x) (res x) v (td x) (evlog x) (next_local x) (calls x) (pending x) (waiters x) (blockexc x).
Definition set_td (x : ctx) v := Ctx (cid x) (parent x) (life x) (res x) (facs x) v (evlog x) (next_local x) (calls x) (pending x) (waiters x) (blockexc x).
Definition set_evlog (x : ctx) v := Ctx (cid x) (parent x) (life x) (res x) (facs x) (td x) v (next_local x) (calls x) (pending x) (waiters x) (blockexc x).
Definition set_next (x : ctx) v := Ctx (cid x) (parent x) (life x) (res x) (facs x) (td x) (evlog x) v (calls x) (pending x) (waiters x) (blockexc x).
Definition set_calls (x : ctx) v := Ctx (cid x) (parent x) (life x) (res x) (facs x) (td x) (evlog x) (next_local x) v (pending x) (waiters x) (blockexc x).
Definition set_pending (x : ctx) v := Ctx (cid x) (parent x) (life x) (res x) (facs x) (td x) (evlog x) (next_local x) (calls x) v (waiters x) (blockexc x).
Definition set_waiters (x : ctx) v := Ctx (cid x) (parent x) (life x) (res x) (facs x) (td x) (evlog x) (next_local x) (calls x) (pending x) v (blockexc x).
Definition set_blockexc (x : ctx) v := Ctx (cid x) (parent x) (life x) (res x) (facs x) (td x) (evlog x) (next_local x) (calls x) (pending x) (waiters x) v.

(* store a freshly generated object: only under those keys of the factory that are still free
   in this context; the container and the event carry exactly the types stored; nothing is
   announced when nothing was stored *)
Definition free_types (x : ctx) (f : factory) : list ty :=
  filter (fun t => negb (taken (res x) (fname f) t)) (ftypes f).

(* the three decisions are read from the source on every run (Gen/Gen_lookup.v), separately for the
   synchronous and the asynchronous lookup: under which of the factory's types the product is stored, whether
   the container is marked as generated, whether the event is dispatched only when something was stored *)
Definition store_generated_as (free_only marked iff_stored : bool) (x : ctx) (f : factory) (v : value) : ctx :=
  let free := if free_only then free_types x f else ftypes f in
  let c := Cont v free (fname f) (fdesc f) marked in
  match free with
  | [] => if iff_stored then x else set_evlog x (evlog x ++ [REv [] (fname f) (fdesc f) false])
  | _ => set_evlog (set_res x (ins_all free (fname f) c (res x)))
                   (evlog x ++ [REv free (fname f) (fdesc f) false])
  end.
Definition store_generated : ctx -> factory -> value -> ctx :=
  store_generated_as nw_free_types_only nw_marked_generated nw_dispatch_iff_stored.
Definition store_generated_async : ctx -> factory -> value -> ctx :=
  store_generated_as as_free_types_only as_marked_generated as_dispatch_iff_stored.

(* the factory body starts: a new object identity is drawn and the invocation is counted *)
(* within one context a factory is identified by its first key (the conflict check makes it
   unique; the code keys its table of generations in flight the same way) *)
Definition fkey (f : factory) : key := (hd 0 (ftypes f), fname f).

Definition start_factory (x : ctx) (f : factory) : ctx * value :=
  (set_calls (set_next x (S (next_local x))) (ins (fkey f) (S (count (fkey f) (calls x))) (calls x)),
   Gen (cid x) (fid f) (next_local x)).

(* is a generation by this factory in flight (suspended inside the factory body)? *)
Definition generating (x : ctx) (fk : key) : bool :=
  existsb (fun p => key_eqb (fkey (fst (fst (snd p)))) fk) (pending x).
Definition tok_used (x : ctx) (tok : nat) : bool :=
  match nfind tok (pending x), nfind tok (waiters x) with None, None => false | _, _ => true end.
Definition add_waiter (x : ctx) tok (k fk : key) : ctx := set_waiters x (nins tok (k, fk) (waiters x)).
Definition del_waiter (x : ctx) tok : ctx := set_waiters x (ndel tok (waiters x)).

Definition add_pending (x : ctx) tok (f : factory) (v : value) (k : key) : ctx :=
  set_pending x (nins tok (f, v, k) (pending x)).
Definition del_pending (x : ctx) tok : ctx := set_pending x (ndel tok (pending x)).

(* add_resource: the types registered are those given, else the class of the value *)
Definition eff_types (types : list ty) (vty : ty) : list ty := match types with [] => [vty] | _ => types end.

Definition not_found (optional : bool) : out := if optional then NoneVal else Err NotFound.

Definition get_resources (x : ctx) (t : ty) : list (string * value) :=
  flat_map (fun kc => if existsb (Nat.eqb t) (ctypes (snd kc)) then [(cname (snd kc), cvalue (snd kc))] else [])
           (res x).


(* add_resource / add_resource_factory: interpreters over the stages of the two methods in the order in
   which they stand in the source on this run (Gen/Gen_addres.v).  A check that fails returns the context AS
   IT IS AT THAT POINT -- with whatever the stages before it have already done. *)
Fixpoint run_add (st : list add_stage) (x : ctx) (v : option nat) (types_ : list ty) (name : string)
                 (desc : option nat) (cb : cbarg) : ctx * out :=
  match st with
  | [] => (x, OK)
  | A_types_valid :: r =>
      if negb (forallb ty_is_class types_) then (x, Err TypeErr) else run_add r x v types_ name desc cb
  | A_value_not_none :: r =>
      match v with None => (x, Err ValueErr) | Some _ => run_add r x v types_ name desc cb end
  | A_name_valid :: r =>
      if negb (valid_name name) then (x, Err ValueErr) else run_add r x v types_ name desc cb
  | A_callback_callable :: r =>
      if match cb with BadCb => true | _ => false end then (x, Err TypeErr) else run_add r x v types_ name desc cb
  | A_no_conflict :: r =>
      if existsb (taken (res x) name) types_ then (x, Err Conflict) else run_add r x v types_ name desc cb
  | A_insert :: r =>
      match v with
      | Some n => run_add r (set_res x (ins_all types_ name (Cont (Static n) types_ name desc false) (res x)))
                          v types_ name desc cb
      | None => run_add r x v types_ name desc cb
      end
  | A_register_callback :: r =>
      match cb with
      | BadCb => (x, Err TypeErr)            (* add_teardown_callback rejects it *)
      | Cb i => run_add r (set_td x (td x ++ [i])) v types_ name desc cb
      | _ => run_add r x v types_ name desc cb
      end
  | A_dispatch :: r =>
      run_add r (set_evlog x (evlog x ++ [REv types_ name desc false])) v types_ name desc cb
  end.

Fixpoint run_addfac (st : list fac_stage) (x : ctx) (f : nat) (kind : fkind) (name : string) (types : list ty)
                    (desc : option nat) : ctx * out :=
  match st with
  | [] => (x, OK)
  | F_name_valid :: r =>
      if negb (valid_name name) then (x, Err ValueErr) else run_addfac r x f kind name types desc
  | F_types_known :: r =>
      match types with [] => (x, Err ValueErr) | _ => run_addfac r x f kind name types desc end
  | F_none_type :: r =>
      if existsb ty_is_none types then (x, Err TypeErr) else run_addfac r x f kind name types desc
  | F_no_conflict :: r =>
      if existsb (taken (facs x) name) types then (x, Err Conflict) else run_addfac r x f kind name types desc
  | F_insert :: r =>
      run_addfac r (set_facs x (ins_all types name (Fac f kind types name desc) (facs x))) f kind name types desc
  | F_dispatch :: r =>
      run_addfac r (set_evlog x (evlog x ++ [REv types name desc true])) f kind name types desc
  end.

Definition local_step (a : action) (x : ctx) : ctx * out :=
  if negb (in_states (life x) (allowed a)) then (x, Err RuntimeErr) else
  match a with
  | AEnter => (set_life x Open, OK)
  | AExitBegin exc =>
      match life x with
      | Open => (set_blockexc (set_td (set_life x Closing) []) exc, Began (rev (td x)))
      | _ => (x, Invalid)
      end
  | AExitEnd =>
      match life x with
      | Closing => (set_td (set_life x Closed) [], Exited (rev (td x)) false)
      | _ => (x, Invalid)
      end
  | AAddResource v vty name types desc cb =>
      run_add add_resource_stages x v (eff_types types vty) name desc cb
  | AAddFactory f kind name types desc =>
      run_addfac add_factory_stages x f kind name types desc
  | AGetNowait t name optional =>
      match find (t, name) (res x) with
      | Some c => (x, Val (cvalue c))
      | None =>
          match find (t, name) (facs x) with
          | Some f =>
              match fkind_of f with
              | FSync => let '(x1, v) := start_factory x f in (store_generated x1 f v, Val v)
              | _ => (x, Err AsyncErr)     (* the coroutine is closed before it runs *)
              end
          | None => (x, not_found optional)
          end
      end
  | AGetBegin tok t name optional =>
      (* a token names one lookup in progress; reusing a live one is outside the protocol *)
      if tok_used x tok then (x, Invalid) else
      match find (t, name) (res x) with
      | Some c => (x, Val (cvalue c))
      | None =>
          match find (t, name) (facs x) with
          | Some f =>
              (* another task is generating this resource: wait for it, do not call the factory *)
              if as_inflight_guard && generating x (fkey f) then (add_waiter x tok (t, name) (fkey f), Pending) else
              match fkind_of f with
              | FAsyncSusp => let '(x1, v) := start_factory x f in (add_pending x1 tok f v (t, name), Pending)
              | _ => let '(x1, v) := start_factory x f in (store_generated_async x1 f v, Val v)
              end
          | None => (x, not_found optional)
          end
      end
  | AGetEnd tok =>
      match nfind tok (pending x) with
      | Some (f, v, k) =>
          (* no lifecycle re-check after the await, as in the code; the caller receives what
             the requested key resolves to now (a resource added meanwhile wins) *)
          let x' := store_generated_async (del_pending x tok) f v in
          (x', if as_returns_what_the_pair_resolves_to
               then match find k (res x') with Some c => Val (cvalue c) | None => Invalid end
               else Val v)
      | None =>
          match nfind tok (waiters x) with
          | Some (k, fk) =>
              (* woken when the generation it waited for has finished; looks the pair up again *)
              if generating x fk then (x, Invalid) else
              match find k (res x) with
              | Some c => (del_waiter x tok, Val (cvalue c))
              | None => (x, Invalid)    (* factories of the model never fail *)
              end
          | None => (x, Invalid)
          end
      end
  | AGetResources t => (x, Map (get_resources x t))
  | AAddTeardown cb =>
      match cb with
      | Cb i => (set_td x (td x ++ [i]), OK)
      | _ => (x, Err TypeErr)
      end
  end.

(* ---------- the forest of contexts ---------- *)
Inductive op := New (p : option nat) | At (c : nat) (a : action).
Definition state := list ctx.

Definition root_ctx (i : nat) : ctx := Ctx i None Inactive [] [] [] [] 0 [] [] [] false.

(* Context.__init__: copy the parent's non-generated resources and its factory table *)
Definition snapshot (i : nat) (p : ctx) : ctx :=
  Ctx i (Some (cid p)) Inactive
      (if init_skips_generated then filter (fun kc => negb (cgen (snd kc))) (res p) else res p) (facs p)
      [] [] 0 [] [] [] false.

Fixpoint update (s : state) (c : nat) (x : ctx) : state :=
  match s, c with
  | [], _ => []
  | _ :: r, O => x :: r
  | y :: r, S c' => y :: update r c' x
  end.

Definition is_active (l : lstate) : bool := match l with Open | Closing => true | _ => false end.
Definition has_open_child (s : state) (c : nat) : bool :=
  existsb (fun y => match parent y with Some p => Nat.eqb p c && is_active (life y) | None => false end) s.

Definition patch (s : state) (c : nat) (a : action) (o : out) : out :=
  match a, o with
  | AExitEnd, Exited ran _ =>
      (* the open-children check runs however the exit stack ends (block exception re-raised
         by the root's task group, failing teardown callbacks): it is in the finally clause *)
      Exited ran (has_open_child s c)
  | _, _ => o
  end.

Definition step (s : state) (o : op) : state * out :=
  match o with
  | New None => (s ++ [root_ctx (length s)], OK)
  | New (Some p) =>
      match nth_error s p with
      | Some px => (s ++ [snapshot (length s) px], OK)
      | None => (s, Invalid)
      end
  | At c a =>
      match nth_error s c with
      | Some x => let '(x', o) := local_step a x in (update s c x', patch s c a o)
      | None => (s, Invalid)
      end
  end.

Definition run (s : state) (h : list op) : state := fold_left (fun s o => fst (step s o)) h s.

Definition closed_flag (x : ctx) : bool := match life x with Closing | Closed => true | _ => false end.
