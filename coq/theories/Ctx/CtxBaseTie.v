(* Shape facts read from Context.__init__, Context.closed, Context._ensure_state, current_context() and
   the context_teardown decorator on this run (Gen/Gen_ctxbase.v). *)
From Asphalt Require Import Gen.Gen_ctxbase.

Theorem context_creation_source_shape :
  ctx_starts_inactive = true /\ ctx_explicit_parent_first = true /\ ctx_component_view_unwrapped = true /\
  ctx_task_group_shared_with_descendants = true /\ ctx_current_is_the_context_variable = true.
Proof. repeat split. Qed.

Theorem closed_and_guard_source_shape :
  ctx_starts_inactive = true /\ ctx_closed_iff_closing_or_closed = true /\ ctx_guard_raises_runtimeerror_per_state = true.
Proof. repeat split. Qed.

Theorem context_teardown_source_shape :
  ctxtd_state_per_call = true /\ ctxtd_registered_after_first_half_with_pass_exception = true /\
  ctxtd_generator_always_closed = true.
Proof. repeat split. Qed.
