(* Tie T for the lifecycle guard (C13): the table of accepted states extracted on every run
   from the self._ensure_state(...) call that opens each Context method
   (Gen/Gen_guards.v, regenerated from src/asphalt/core/_context.py) is the table the model
   uses.  A widened, narrowed or removed guard changes Gen_guards.v and breaks this lemma. *)
From Coq Require Import List.
From Asphalt Require Import Ctx.ResModel Gen.Gen_guards.
Import ListNotations.

Definition st_of (g : gstate) : lstate :=
  match g with g_inactive => Inactive | g_open => Open | g_closing => Closing | g_closed => Closed end.

Definition method_of (a : action) : option gmethod :=
  match a with
  | AEnter => Some m_aenter
  | AAddResource _ _ _ _ _ _ => Some m_add_resource
  | AAddFactory _ _ _ _ _ => Some m_add_resource_factory
  | AGetNowait _ _ _ => Some m_get_resource_nowait
  | AGetBegin _ _ _ _ => Some m_get_resource
  | AAddTeardown _ => Some m_add_teardown_callback
  | _ => None
  end.

Lemma guard_table_tie : forall a m, method_of a = Some m -> allowed a = map st_of (allowed_gen m).
Proof. intros a m H. destruct a; inversion H; subst; reflexivity. Qed.

(* and the content of the table itself, as the property words it *)
Lemma guard_table_content :
  map st_of (allowed_gen m_add_resource_factory) = [Open] /\
  map st_of (allowed_gen m_add_resource) = [Open; Closing] /\
  map st_of (allowed_gen m_get_resource) = [Open; Closing] /\
  map st_of (allowed_gen m_get_resource_nowait) = [Open; Closing] /\
  map st_of (allowed_gen m_add_teardown_callback) = [Open; Closing] /\
  map st_of (allowed_gen m_aenter) = [Inactive].
Proof. repeat split. Qed.
