(* Theorems about @inject (C19). *)
From Coq Require Import String.
From Coq Require Import List Bool Arith Lia.
From Asphalt Require Import Ctx.ResModel Ctx.ResProofs Ctx.ResInv Ctx.InjectModel Gen.Gen_inject.
Import ListNotations.
Open Scope string_scope.
Open Scope list_scope.

(* ---------- decoration ---------- *)
Definition offending (p : param) : bool :=
  match p_default p with
  | DDep _ => match p_kind p, p_ann p with PosOnly, _ => true | _, ANone => true | _, _ => false end
  | DMarkerFn => true
  | _ => false
  end.

Definition deps_of (sig : list param) : list dep :=
  flat_map (fun p => match p_default p with DDep n => [Dep n (p_ann p)] | _ => [] end) sig.

(* positional-only, unannotated or un-called `resource` markers are rejected when the decorator is
   applied -- wherever they stand in the signature -- and nothing else is *)
Theorem scan_spec : forall sig,
  scan sig = if existsb offending sig then None else Some (deps_of sig).
Proof.
  induction sig as [|p r IH]; simpl; auto.
  unfold offending at 1. destruct (p_default p) eqn:D; simpl; rewrite ?IH; auto.
  destruct (p_kind p), (p_ann p); simpl; auto; destruct (existsb offending r); auto.
Qed.

Theorem decorate_rejects : forall sig c, existsb offending sig = true -> decorate sig c = Rejected.
Proof. intros sig c H. unfold decorate. now rewrite scan_spec, H. Qed.

Theorem decorate_accepts : forall sig c, existsb offending sig = false ->
  decorate sig c = match deps_of sig with [] => Unchanged | ds => Wrapper ds c end.
Proof. intros sig c H. unfold decorate. rewrite scan_spec, H. destruct (deps_of sig); reflexivity. Qed.

(* ---------- the call ---------- *)
(* what a user would write by hand: look every dependency up, in order, with the lookup API that
   matches the function kind *)
Fixpoint explicit (is_coro : bool) (tok : nat) (ds : list dep) (x : ctx) : ctx * list out :=
  match ds with
  | [] => (x, [])
  | d :: r =>
      let '(x1, o) := local_step (lookup_action is_coro tok d) x in
      let '(x2, os) := explicit is_coro (S tok) r x1 in
      (x2, o :: os)
  end.

Definition is_value (o : out) : bool := match o with Val _ | NoneVal => true | _ => false end.

Lemma resolve_deps_ok c : forall ds tok x acc,
  forallb is_value (snd (explicit c tok ds x)) = true ->
  resolve_deps c tok ds x acc = (fst (explicit c tok ds x), IBody (rev acc ++ snd (explicit c tok ds x))).
Proof.
  induction ds as [|d r IH]; intros tok x acc H; simpl in *.
  - now rewrite app_nil_r.
  - destruct (local_step (lookup_action c tok d) x) as [x1 o] eqn:L.
    destruct (explicit c (S tok) r x1) as [x2 os] eqn:E. simpl in *.
    apply andb_true_iff in H. destruct H as [Ho Hr].
    specialize (IH (S tok) x1 (o :: acc)). rewrite E in IH. simpl in IH.
    destruct o; try discriminate; rewrite IH by exact Hr; simpl; now rewrite <- app_assoc.
Qed.

(* C19: when every lookup succeeds, calling the decorated function is calling the original one
   with each injected parameter bound to what the explicit lookup returns, in the context the
   explicit lookups leave behind (factory products generated on the way included) *)
Theorem inject_equiv : forall ds c tok x,
  existsb bad_union ds = false ->
  forallb is_value (snd (explicit c tok ds x)) = true ->
  call ds c tok x = (fst (explicit c tok ds x), IBody (snd (explicit c tok ds x))).
Proof. intros ds c tok x B H. unfold call. rewrite B. now rewrite resolve_deps_ok. Qed.

(* ... and when some lookup raises, the first such exception is what the call raises, and the
   body does not run *)
Theorem inject_first_failure : forall c ds1 d ds2 tok x e,
  existsb bad_union (ds1 ++ d :: ds2) = false ->
  forallb is_value (snd (explicit c tok ds1 x)) = true ->
  snd (local_step (lookup_action c (tok + length ds1) d) (fst (explicit c tok ds1 x))) = Err e ->
  snd (call (ds1 ++ d :: ds2) c tok x) = IRaised e.
Proof.
  intros c ds1 d ds2 tok x e B H1 H2. unfold call. rewrite B.
  assert (G : forall ds1 tok x acc,
            forallb is_value (snd (explicit c tok ds1 x)) = true ->
            snd (local_step (lookup_action c (tok + length ds1) d) (fst (explicit c tok ds1 x))) = Err e ->
            snd (resolve_deps c tok (ds1 ++ d :: ds2) x acc) = IRaised e).
  { clear. induction ds1 as [|d1 r IH]; intros tok x acc H1 H2; simpl in *.
    - rewrite Nat.add_0_r in H2. destruct (local_step (lookup_action c tok d) x) as [x1 o]. simpl in H2. now subst o.
    - destruct (local_step (lookup_action c tok d1) x) as [x1 o] eqn:L.
      destruct (explicit c (S tok) r x1) as [x2 os] eqn:E. simpl in *.
      apply andb_true_iff in H1. destruct H1 as [Ho Hr].
      replace (tok + S (length r)) with (S tok + length r) in H2 by lia.
      specialize (IH (S tok) x1 (o :: acc)). rewrite E in IH. simpl in IH.
      destruct o; try discriminate; apply IH; auto. }
  now apply G.
Qed.

(* a missing non-optional resource: ResourceNotFound, before the body runs, nothing changed *)
Theorem inject_missing : forall x t name c tok,
  in_states (life x) [Open; Closing] = true -> tok_used x tok = false ->
  find (t, name) (res x) = None -> find (t, name) (facs x) = None ->
  call [Dep name (ATy t)] c tok x = (x, IRaised NotFound).
Proof.
  intros x t name c tok L U R F. unfold call. simpl. unfold local_step.
  destruct c; simpl allowed; rewrite L; simpl; rewrite ?U, R, F; reflexivity.
Qed.

(* Optional[T] / T | None: None is bound when nothing matches *)
Theorem inject_optional_none : forall x t name c tok,
  in_states (life x) [Open; Closing] = true -> tok_used x tok = false ->
  find (t, name) (res x) = None -> find (t, name) (facs x) = None ->
  call [Dep name (AOpt t)] c tok x = (x, IBody [NoneVal]).
Proof.
  intros x t name c tok L U R F. unfold call. simpl. unfold local_step.
  destruct c; simpl allowed; rewrite L; simpl; rewrite ?U, R, F; reflexivity.
Qed.

(* a union that is not {T, None} raises TypeError on the call, before any lookup *)
Theorem inject_bad_union : forall ds c tok x, existsb bad_union ds = true -> call ds c tok x = (x, ITypeError).
Proof. intros. unfold call. now rewrite H. Qed.

(* the injected lookups are ordinary steps of the resource-table model: every invariant of
   reachable states (functional tables, coherence, ownership of generated objects: C02-C04) is
   preserved by an injected call *)
Theorem call_preserves_invariants : forall ds c tok x,
  ctx_inv x -> pending_ok x -> ctx_inv (fst (call ds c tok x)) /\ pending_ok (fst (call ds c tok x)).
Proof.
  intros ds c tok x I P. unfold call. destruct (existsb bad_union ds); [simpl; auto|].
  generalize (@nil out) as acc. revert tok x I P.
  induction ds as [|d r IH]; intros tok x I P acc; simpl; auto.
  destruct (local_step_inv (lookup_action c tok d) x I P) as [I1 P1].
  destruct (local_step (lookup_action c tok d) x) as [x1 o]. simpl in *.
  destruct o; simpl; auto.
Qed.

(* ---------- which explicit call each kind of dependency stands for (computed from Gen/Gen_inject.v) ---------- *)
Theorem the_explicit_calls : forall tok name t,
  lookup_action false tok (Dep name (ATy t)) = AGetNowait t name false /\
  lookup_action false tok (Dep name (AOpt t)) = AGetNowait t name true /\
  lookup_action true tok (Dep name (ATy t)) = AGetBegin tok t name false /\
  lookup_action true tok (Dep name (AOpt t)) = AGetBegin tok t name true.
Proof. intros. repeat split. Qed.

Theorem inject_source_shape :
  inj_context_at_call_time = true /\ inj_in_signature_order = true /\ inj_added_as_keywords = true /\
  inj_sync_uses_nowait = true /\ inj_async_awaits_get_resource = true /\ inj_scan_as_documented = true.
Proof. repeat split. Qed.
