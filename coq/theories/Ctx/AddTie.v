(* Tie T for add_resource / add_resource_factory (C03, C18, C02): the stages of the two methods in
   the order in which they stand in the source on this run (Gen/Gen_addres.v); the model's add
   operations are interpreters over these lists (Ctx/ResModel.v: run_add, run_addfac). *)
From Coq Require Import String.
From Coq Require Import List Bool.
From Asphalt Require Import Ctx.ResModel Gen.Gen_addres.
Import ListNotations.

Definition is_check (a : add_stage) : bool :=
  match a with
  | A_types_valid | A_value_not_none | A_name_valid | A_callback_callable | A_no_conflict => true
  | A_insert | A_register_callback | A_dispatch => false
  end.
Definition fac_is_check (a : fac_stage) : bool :=
  match a with
  | F_name_valid | F_types_known | F_none_type | F_no_conflict => true
  | F_insert | F_dispatch => false
  end.

(* no check stands behind an effect *)
Fixpoint checks_first {A} (chk : A -> bool) (l : list A) : bool :=
  match l with
  | [] => true
  | a :: r => if chk a then checks_first chk r else forallb (fun b => negb (chk b)) r
  end.

(* In both methods every check precedes every effect: a call that fails has changed nothing.  Among the
   effects: the resource is inserted, then its teardown callback is registered, then the event is
   dispatched -- so a listener that looks the resource up finds it. *)
Theorem add_checks_precede_effects :
  checks_first is_check add_resource_stages = true /\ checks_first fac_is_check add_factory_stages = true.
Proof. split; reflexivity. Qed.

Theorem add_effect_order :
  filter (fun a => negb (is_check a)) add_resource_stages = [A_insert; A_register_callback; A_dispatch] /\
  filter (fun a => negb (fac_is_check a)) add_factory_stages = [F_insert; F_dispatch].
Proof. split; reflexivity. Qed.

(* the interpreter on a failing check: whatever the stages, an error from a check stage that is reached
   before any effect stage returns the context unchanged -- with the lists of this run that is every error *)
Theorem failed_run_add_changes_nothing : forall x v types_ name desc cb e,
  snd (run_add add_resource_stages x v types_ name desc cb) = Err e ->
  fst (run_add add_resource_stages x v types_ name desc cb) = x.
Proof.
  intros x v types_ name desc cb e. cbn [run_add add_resource_stages].
  destruct (negb (forallb ty_is_class types_)); [reflexivity|].
  destruct v as [n|]; [|reflexivity].
  destruct (negb (valid_name name)); [reflexivity|].
  destruct cb as [|i|]; cbn; try reflexivity;
    destruct (existsb (taken (res x) name) types_); cbn; try reflexivity; discriminate.
Qed.

Theorem failed_add_factory_changes_nothing : forall x f kind name types desc e,
  snd (run_addfac add_factory_stages x f kind name types desc) = Err e ->
  fst (run_addfac add_factory_stages x f kind name types desc) = x.
Proof.
  intros x f kind name types desc e. cbn [run_addfac add_factory_stages].
  destruct (negb (valid_name name)); [reflexivity|].
  destruct types as [|t ts]; [reflexivity|].
  destruct (existsb ty_is_none (t :: ts)); [reflexivity|].
  destruct (existsb (taken (facs x) name) (t :: ts)); cbn; try reflexivity; discriminate.
Qed.
