(* Tie T for add_resource / add_resource_factory (C03, C18, C02): the stages of the two methods in
   the order in which they stand in the source on this run (Gen/Gen_addres.v); the model's add
   operations are interpreters over these lists (Ctx/ResModel.v: run_add, run_addfac). *)
From Coq Require Import String.
From Coq Require Import List Bool.
From Asphalt Require Import Ctx.ResModel Gen.Gen_addres.
Import ListNotations.

Definition is_check (a : add_stage) : bool :=
  match a with
  | A_types_valid | A_value_not_none | A_name_valid | A_callback_callable | A_no_conflict => true
  | A_insert | A_register_callback | A_dispatch => false
  end.
Definition fac_is_check (a : fac_stage) : bool :=
  match a with
  | F_name_valid | F_types_known | F_none_type | F_no_conflict => true
  | F_insert | F_dispatch => false
  end.

(* no check stands behind an effect *)
Fixpoint checks_first {A} (chk : A -> bool) (l : list A) : bool :=
  match l with
  | [] => true
  | a :: r => if chk a then checks_first chk r else forallb (fun b => negb (chk b)) r
  end.

(* In both methods every check precedes every effect: a call that fails has changed nothing.  Among the
   effects: the resource is inserted, then its teardown callback is registered, then the event is
   dispatched -- so a listener that looks the resource up finds it. *)
Theorem add_checks_precede_effects :
  checks_first is_check add_resource_stages = true /\ checks_first fac_is_check add_factory_stages = true.
Proof. split; reflexivity. Qed.

Theorem add_effect_order :
  filter (fun a => negb (is_check a)) add_resource_stages = [A_insert; A_register_callback; A_dispatch] /\
  filter (fun a => negb (fac_is_check a)) add_factory_stages = [F_insert; F_dispatch].
Proof. split; reflexivity. Qed.

(* ---------- the general theorem: for EVERY order of the stages in which no check stands behind an effect
   (and a teardown callback is registered only where it has been checked to be callable), a call that fails
   leaves the context exactly as it was.  A rearrangement of the checks among themselves, or of the effects
   among themselves, therefore keeps the property; moving a check behind an effect does not. ---------- *)
Lemma effects_only_succeed : forall l x v types_ name desc cb,
  forallb (fun a => negb (is_check a)) l = true ->
  (cb = BadCb -> ~ In A_register_callback l) ->
  snd (run_add l x v types_ name desc cb) = OK.
Proof.
  induction l as [|a l IH]; intros x v types_ name desc cb Hl Hcb; [reflexivity|].
  cbn [forallb] in Hl. apply andb_true_iff in Hl. destruct Hl as [Ha Hl].
  assert (Hcb' : cb = BadCb -> ~ In A_register_callback l) by (intros E I; apply (Hcb E); right; exact I).
  destruct a; cbn [is_check negb] in Ha; try discriminate; cbn [run_add].
  - destruct v; apply IH; assumption.
  - destruct cb as [|i|]; try (apply IH; assumption).
    exfalso. apply (Hcb eq_refl). left; reflexivity.
  - apply IH; assumption.
Qed.

Theorem failed_add_changes_nothing_for_any_order : forall l x v types_ name desc cb e,
  checks_first is_check l = true ->
  (cb = BadCb -> In A_callback_callable l \/ ~ In A_register_callback l) ->
  snd (run_add l x v types_ name desc cb) = Err e ->
  fst (run_add l x v types_ name desc cb) = x.
Proof.
  induction l as [|a l IH]; intros x v types_ name desc cb e Hc Hcb; [discriminate|].
  destruct (is_check a) eqn:Ea.
  - (* a check: it fails and nothing has changed, or the rest runs on the same context *)
    assert (Hc' : checks_first is_check l = true) by (cbn [checks_first] in Hc; rewrite Ea in Hc; exact Hc).
    destruct a; cbn [is_check] in Ea; try discriminate; cbn [run_add].
    + destruct (negb (forallb ty_is_class types_)); [reflexivity|]. apply IH; auto.
      intro E. destruct (Hcb E) as [[H|H]|H]; [discriminate|left; exact H|right; intro I; apply H; right; exact I].
    + destruct v; [|reflexivity]. apply IH; auto.
      intro E. destruct (Hcb E) as [[H|H]|H]; [discriminate|left; exact H|right; intro I; apply H; right; exact I].
    + destruct (negb (valid_name name)); [reflexivity|]. apply IH; auto.
      intro E. destruct (Hcb E) as [[H|H]|H]; [discriminate|left; exact H|right; intro I; apply H; right; exact I].
    + destruct cb as [|i|]; cbn; try reflexivity; apply IH; auto; intro E; discriminate.
    + destruct (existsb (taken (res x) name) types_); [reflexivity|]. apply IH; auto.
      intro E. destruct (Hcb E) as [[H|H]|H]; [discriminate|left; exact H|right; intro I; apply H; right; exact I].
  - (* an effect: only effects follow, and those do not fail *)
    intro Herr. exfalso.
    assert (Hall : forallb (fun b => negb (is_check b)) (a :: l) = true).
    { cbn [checks_first] in Hc. rewrite Ea in Hc. cbn [forallb]. rewrite Ea. exact Hc. }
    rewrite effects_only_succeed in Herr; [discriminate|exact Hall|].
    intros E I. destruct (Hcb E) as [H|H]; [|exact (H I)].
    (* the callable check is a check: it cannot occur in an effects-only list *)
    rewrite forallb_forall in Hall. specialize (Hall _ H). discriminate.
Qed.

Lemma fac_effects_only_succeed : forall l x f kind name types desc,
  forallb (fun a => negb (fac_is_check a)) l = true ->
  snd (run_addfac l x f kind name types desc) = OK.
Proof.
  induction l as [|a l IH]; intros x f kind name types desc Hl; [reflexivity|].
  cbn [forallb] in Hl. apply andb_true_iff in Hl. destruct Hl as [Ha Hl].
  destruct a; cbn [fac_is_check negb] in Ha; try discriminate; cbn [run_addfac]; apply IH; assumption.
Qed.

Theorem failed_add_factory_changes_nothing_for_any_order : forall l x f kind name types desc e,
  checks_first fac_is_check l = true ->
  snd (run_addfac l x f kind name types desc) = Err e ->
  fst (run_addfac l x f kind name types desc) = x.
Proof.
  induction l as [|a l IH]; intros x f kind name types desc e Hc; [discriminate|].
  destruct (fac_is_check a) eqn:Ea.
  - assert (Hc' : checks_first fac_is_check l = true) by (cbn [checks_first] in Hc; rewrite Ea in Hc; exact Hc).
    destruct a; cbn [fac_is_check] in Ea; try discriminate; cbn [run_addfac].
    + destruct (negb (valid_name name)); [reflexivity|]. apply IH; auto.
    + destruct types; [reflexivity|]. apply IH; auto.
    + destruct (existsb ty_is_none types); [reflexivity|]. apply IH; auto.
    + destruct (existsb (taken (facs x) name) types); [reflexivity|]. apply IH; auto.
  - intro Herr. exfalso.
    assert (Hall : forallb (fun b => negb (fac_is_check b)) (a :: l) = true).
    { cbn [checks_first] in Hc. rewrite Ea in Hc. cbn [forallb]. rewrite Ea. exact Hc. }
    rewrite fac_effects_only_succeed in Herr; [discriminate|exact Hall].
Qed.

(* the interpreter on a failing check: whatever the stages, an error from a check stage that is reached
   before any effect stage returns the context unchanged -- with the lists of this run that is every error *)
Theorem failed_run_add_changes_nothing : forall x v types_ name desc cb e,
  snd (run_add add_resource_stages x v types_ name desc cb) = Err e ->
  fst (run_add add_resource_stages x v types_ name desc cb) = x.
Proof.
  intros x v types_ name desc cb e H.
  apply (failed_add_changes_nothing_for_any_order add_resource_stages x v types_ name desc cb e);
    [reflexivity | intros _; left; cbv; tauto | exact H].
Qed.

Theorem failed_add_factory_changes_nothing : forall x f kind name types desc e,
  snd (run_addfac add_factory_stages x f kind name types desc) = Err e ->
  fst (run_addfac add_factory_stages x f kind name types desc) = x.
Proof.
  intros x f kind name types desc e H.
  apply (failed_add_factory_changes_nothing_for_any_order add_factory_stages x f kind name types desc e);
    [reflexivity | exact H].
Qed.
