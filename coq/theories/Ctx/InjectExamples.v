(* Non-vacuity for C19: an open context with a static resource, a synchronous factory and nothing of a
   third type; a function with a mandatory, a factory-made and an Optional dependency is called in it.
   The premises of C19_equiv (`no bad union`, `every explicit lookup yields a value`), of C19_missing
   and of C19_optional are met. *)
From Coq Require Import String List Bool.
From Asphalt Require Import Ctx.ResModel Ctx.ResProofs Ctx.ResInv Ctx.InjectModel Ctx.InjectProofs.
Import ListNotations.
Open Scope string_scope.
Open Scope list_scope.

Definition x8 : ctx :=
  fst (local_step (AAddFactory 0 FSync "db" [2] None)
      (fst (local_step (AAddResource (Some 5) 1 "default" [] None NoCb)
           (fst (local_step AEnter (root_ctx 0)))))).
Definition ds8 : list dep := [Dep "default" (ATy 1); Dep "db" (ATy 2); Dep "default" (AOpt 3)].

Example x8_is_open : life x8 = Open /\ tok_used x8 0 = false /\ find (3, "default") (res x8) = None /\ find (3, "default") (facs x8) = None.
Proof. vm_compute. repeat split. Qed.

Example premises_of_equiv :
  existsb bad_union ds8 = false /\ forallb is_value (snd (explicit false 0 ds8 x8)) = true.
Proof. vm_compute. split; reflexivity. Qed.

(* the body runs with the static object, the factory's product and None -- what the explicit calls return *)
Example injected_call : snd (call ds8 false 0 x8) = IBody [Val (Static 5); Val (Gen 0 0 0); NoneVal].
Proof. vm_compute. reflexivity. Qed.

(* a mandatory dependency that is missing: ResourceNotFound, the body does not run *)
Example missing_dependency :
  snd (call [Dep "default" (ATy 1); Dep "default" (ATy 3)] false 0 x8) = IRaised NotFound.
Proof. vm_compute. reflexivity. Qed.

(* decoration: only the parameters whose default is resource() become dependencies *)
Example decoration :
  decorate [Param PosOrKw DNone ANone; Param KwOnly (DDep "default") (ATy 1); Param KwOnly (DDep "db") (AOpt 2)] true =
  Wrapper [Dep "default" (ATy 1); Dep "db" (AOpt 2)] true /\
  decorate [Param PosOnly (DDep "default") (ATy 1)] false = Rejected /\
  decorate [Param PosOrKw DPlain ANone] false = Unchanged.
Proof. vm_compute. repeat split. Qed.
