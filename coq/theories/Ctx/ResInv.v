(* Invariants of every reachable state of the resource-table model, and what follows from them:
   tables are functional (C03), all lookup paths agree (C02), generated objects belong to the
   requesting context only and are cached under the factory's free types (C04). *)
From Coq Require Import String.
From Coq Require Import List Bool Arith Lia.
From Asphalt Require Import Ctx.ResModel Ctx.ResProofs Gen.Gen_lookup.
Import ListNotations.
Open Scope string_scope.
Open Scope list_scope.

Local Arguments ins_all : simpl never.
Local Arguments existsb : simpl never.
Local Arguments forallb : simpl never.
Local Arguments eff_types : simpl never.

(* ---------------- unique keys ---------------- *)
Section Keys.
Context {V : Type}.
Definition kys (l : list (key * V)) : list key := map fst l.

Lemma find_None_not_in k (l : list (key * V)) : find k l = None <-> ~ In k (kys l).
Proof.
  induction l as [|[k' v] r IH]; simpl; [tauto|].
  destruct (key_eqb k k') eqn:E.
  - apply key_eqb_eq in E. subst. split; [discriminate|tauto].
  - rewrite IH. split; intro H; [intros [->|]; [now rewrite key_eqb_refl in E|tauto] | tauto].
Qed.

Lemma kys_ins k (v : V) l k' : In k' (kys (ins k v l)) <-> k' = k \/ In k' (kys l).
Proof.
  induction l as [|[k2 v2] r IH]; simpl; [intuition|].
  destruct (key_eqb k k2) eqn:E; simpl.
  - apply key_eqb_eq in E. subst. intuition.
  - rewrite IH. intuition.
Qed.

Lemma ins_NoDup k (v : V) l : NoDup (kys l) -> NoDup (kys (ins k v l)).
Proof.
  induction l as [|[k2 v2] r IH]; simpl; intro H.
  - repeat constructor; auto.
  - inversion H; subst. destruct (key_eqb k k2) eqn:E; simpl.
    + apply key_eqb_eq in E. subst. constructor; auto.
    + constructor; auto. intro Hin. apply kys_ins in Hin. destruct Hin as [->|]; auto.
      now rewrite key_eqb_refl in E.
Qed.

Lemma ins_all_NoDup ts name (v : V) : forall l, NoDup (kys l) -> NoDup (kys (ins_all ts name v l)).
Proof.
  induction ts as [|t r IH]; intros l H; unfold ins_all; fold (@ins_all V); auto.
  apply IH. now apply ins_NoDup.
Qed.

Lemma filter_NoDup (p : key * V -> bool) l : NoDup (kys l) -> NoDup (kys (filter p l)).
Proof.
  induction l as [|[k v] r IH]; simpl; intro H; auto.
  inversion H; subst. destruct (p (k, v)); simpl; auto.
  constructor; auto. intro Hin. apply H2. unfold kys in *. apply in_map_iff in Hin.
  destruct Hin as ([k' v'] & E & Hin). simpl in E. subst. apply filter_In in Hin.
  apply in_map_iff. exists (k, v'). tauto.
Qed.

Lemma In_find k (v : V) l : NoDup (kys l) -> In (k, v) l -> find k l = Some v.
Proof.
  induction l as [|[k' v'] r IH]; simpl; intros ND Hin; [tauto|].
  inversion ND; subst. destruct Hin as [E|Hin].
  - inversion E; subst. now rewrite key_eqb_refl.
  - destruct (key_eqb k k') eqn:E; auto.
    apply key_eqb_eq in E. subst. exfalso. apply H1. unfold kys. apply in_map_iff. exists (k', v). auto.
Qed.

Lemma find_In k (v : V) l : find k l = Some v -> In (k, v) l.
Proof.
  induction l as [|[k' v'] r IH]; simpl; [discriminate|].
  destruct (key_eqb k k') eqn:E; intro H.
  - apply key_eqb_eq in E. inversion H; subst. auto.
  - auto.
Qed.

Lemma find_filter_NoDup (p : key * V -> bool) l k c :
  NoDup (kys l) -> find k (filter p l) = Some c -> find k l = Some c.
Proof.
  intros ND H. apply In_find; auto. apply find_In in H. now apply filter_In in H.
Qed.
End Keys.

(* ---------------- the per-context invariant ---------------- *)
Record ctx_inv (x : ctx) : Prop := {
  inv_res_nodup : NoDup (kys (res x));
  inv_fac_nodup : NoDup (kys (facs x));
  (* a container is stored under exactly the keys (t, its name) for t among its types *)
  inv_coh : forall k c, find k (res x) = Some c ->
      snd k = cname c /\ In (fst k) (ctypes c) /\
      forall t, In t (ctypes c) -> find (t, cname c) (res x) = Some c;
  inv_fac_coh : forall k f, find k (facs x) = Some f -> snd k = fname f /\ In (fst k) (ftypes f);
  (* generated objects carry the identity of this context *)
  inv_owner : forall k c, find k (res x) = Some c -> cgen c = true -> exists f n, cvalue c = Gen (cid x) f n;
  inv_static : forall k c, find k (res x) = Some c -> cgen c = false -> exists n, cvalue c = Static n
}.

Lemma coh_ins_all x ts name c0 :
  (forall k c, find k (res x) = Some c ->
      snd k = cname c /\ In (fst k) (ctypes c) /\
      forall t, In t (ctypes c) -> find (t, cname c) (res x) = Some c) ->
  ctypes c0 = ts -> cname c0 = name ->
  (forall t, In t ts -> find (t, name) (res x) = None) ->
  forall k c, find k (ins_all ts name c0 (res x)) = Some c ->
      snd k = cname c /\ In (fst k) (ctypes c) /\
      forall t, In t (ctypes c) -> find (t, cname c) (ins_all ts name c0 (res x)) = Some c.
Proof.
  intros Hcoh Ht Hn Hfree k c Hk.
  destruct (existsb (fun t => key_eqb k (t, name)) ts) eqn:Ex.
  - apply existsb_exists in Ex. destruct Ex as (t & Hin & E). apply key_eqb_eq in E. subst k.
    rewrite find_ins_all_in in Hk by auto. inversion Hk; subst c. simpl.
    rewrite Hn, Ht. repeat split; auto. intros t' Ht'. now apply find_ins_all_in.
  - assert (Hno : forall t, In t ts -> key_eqb k (t, name) = false).
    { intros t Hin. destruct (key_eqb k (t, name)) eqn:E; auto.
      assert (existsb (fun t => key_eqb k (t, name)) ts = true) by (apply existsb_exists; eauto). congruence. }
    rewrite find_ins_all_other in Hk by auto.
    destruct (Hcoh k c Hk) as (A & B & C). repeat split; auto.
    intros t Hin. apply find_ins_all_stable; auto.
Qed.

Lemma store_generated_inv x f v :
  ctx_inv x -> (exists g n, v = Gen (cid x) g n) -> ctx_inv (store_generated x f v).
Proof.
  intros I Hv. unfold_sg.
  destruct (free_types x f) as [|t0 tr] eqn:Ef; auto. rewrite <- Ef.
  assert (Hfree : forall t, In t (free_types x f) -> find (t, fname f) (res x) = None).
  { intros t Ht. unfold free_types in Ht. apply filter_In in Ht. destruct Ht as [_ Ht].
    apply negb_true_iff in Ht. now apply taken_false_find. }
  destruct I as [I1 I2 I3 I4 I5 I6].
  constructor; cbn [res facs cid set_evlog set_res]; auto.
  - now apply ins_all_NoDup.
  - apply coh_ins_all; auto.
  - intros k c Hk G.
    destruct (existsb (fun t => key_eqb k (t, fname f)) (free_types x f)) eqn:Ex.
    + apply existsb_exists in Ex. destruct Ex as (t & Hin & E). apply key_eqb_eq in E. subst k.
      rewrite find_ins_all_in in Hk by auto. inversion Hk; subst c. simpl. exact Hv.
    + rewrite find_ins_all_other in Hk; eauto.
      intros t Hin. destruct (key_eqb k (t, fname f)) eqn:E; auto.
      assert (existsb (fun t => key_eqb k (t, fname f)) (free_types x f) = true) by (apply existsb_exists; eauto).
      congruence.
  - intros k c Hk G.
    destruct (existsb (fun t => key_eqb k (t, fname f)) (free_types x f)) eqn:Ex.
    + apply existsb_exists in Ex. destruct Ex as (t & Hin & E). apply key_eqb_eq in E. subst k.
      rewrite find_ins_all_in in Hk by auto. inversion Hk; subst c. simpl in G. discriminate.
    + rewrite find_ins_all_other in Hk; eauto.
      intros t Hin. destruct (key_eqb k (t, fname f)) eqn:E; auto.
      assert (existsb (fun t => key_eqb k (t, fname f)) (free_types x f) = true) by (apply existsb_exists; eauto).
      congruence.
Qed.

Lemma inv_irrelevant_fields x y :
  res y = res x -> facs y = facs x -> cid y = cid x -> ctx_inv x -> ctx_inv y.
Proof.
  intros R F C [I1 I2 I3 I4 I5 I6]. constructor; rewrite ?R, ?F, ?C; auto.
Qed.

(* pending generations carry objects of this context *)
Definition pending_ok (x : ctx) : Prop :=
  forall tok f v k, nfind tok (pending x) = Some (f, v, k) -> exists g n, v = Gen (cid x) g n.

Lemma nfind_nins_inv {V} k (v : V) l k' v' :
  nfind k' (nins k v l) = Some v' -> (k' = k /\ v' = v) \/ nfind k' l = Some v'.
Proof.
  induction l as [|[k2 v2] r IH]; simpl.
  - destruct (Nat.eqb k' k) eqn:E; [|discriminate]. apply Nat.eqb_eq in E. intro H; inversion H; auto.
  - destruct (Nat.eqb k k2) eqn:E; simpl.
    + apply Nat.eqb_eq in E. subst k2. destruct (Nat.eqb k' k) eqn:E2.
      * apply Nat.eqb_eq in E2. intro H; inversion H; auto.
      * auto.
    + destruct (Nat.eqb k' k2); auto.
Qed.

Lemma nfind_ndel_same {V} k (l : list (nat * V)) : nfind k (ndel k l) = None.
Proof.
  induction l as [|[k2 v2] r IH]; simpl; auto.
  destruct (Nat.eqb k k2) eqn:E; simpl; auto. now rewrite E.
Qed.

Lemma nfind_ndel_inv {V} k (l : list (nat * V)) k' v' :
  nfind k' (ndel k l) = Some v' -> nfind k' l = Some v'.
Proof.
  induction l as [|[k2 v2] r IH]; simpl; auto.
  destruct (Nat.eqb k k2) eqn:E; simpl.
  - intro H. destruct (Nat.eqb k' k2) eqn:E2; auto.
    apply Nat.eqb_eq in E, E2. subst. rewrite nfind_ndel_same in H. discriminate.
  - destruct (Nat.eqb k' k2); auto.
Qed.

Lemma add_resource_inv x ts name n desc tdv ev :
  ctx_inv x -> (forall t, In t ts -> find (t, name) (res x) = None) ->
  ctx_inv (set_evlog (set_td (set_res x (ins_all ts name (Cont (Static n) ts name desc false) (res x))) tdv) ev).
Proof.
  intros [I1 I2 I3 I4 I5 I6] Hfree.
  assert (Hno : forall k, existsb (fun t => key_eqb k (t, name)) ts = false ->
                forall t, In t ts -> key_eqb k (t, name) = false).
  { intros k Ex t Hin. destruct (key_eqb k (t, name)) eqn:E; auto.
    assert (existsb (fun t => key_eqb k (t, name)) ts = true) by (apply existsb_exists; eauto). congruence. }
  constructor; cbn [res facs cid set_evlog set_res set_td]; auto.
  - now apply ins_all_NoDup.
  - apply coh_ins_all; auto.
  - intros k c Hk G.
    destruct (existsb (fun t => key_eqb k (t, name)) ts) eqn:Ex.
    + apply existsb_exists in Ex. destruct Ex as (t & Hin & E). apply key_eqb_eq in E. subst k.
      rewrite find_ins_all_in in Hk by auto. inversion Hk; subst c. discriminate.
    + rewrite find_ins_all_other in Hk; eauto.
  - intros k c Hk G.
    destruct (existsb (fun t => key_eqb k (t, name)) ts) eqn:Ex.
    + apply existsb_exists in Ex. destruct Ex as (t & Hin & E). apply key_eqb_eq in E. subst k.
      rewrite find_ins_all_in in Hk by auto. inversion Hk; subst c. simpl. eauto.
    + rewrite find_ins_all_other in Hk; eauto.
Qed.

Lemma add_factory_inv x ts name f kind desc ev :
  ctx_inv x ->
  ctx_inv (set_evlog (set_facs x (ins_all ts name (Fac f kind ts name desc) (facs x))) ev).
Proof.
  intros [I1 I2 I3 I4 I5 I6].
  constructor; cbn [res facs cid set_evlog set_facs]; auto.
  - now apply ins_all_NoDup.
  - intros k g Hk.
    destruct (existsb (fun t => key_eqb k (t, name)) ts) eqn:Ex.
    + apply existsb_exists in Ex. destruct Ex as (t1 & Hin & E). apply key_eqb_eq in E. subst k.
      rewrite find_ins_all_in in Hk by auto. inversion Hk; subst g. simpl. auto.
    + rewrite find_ins_all_other in Hk; eauto.
      intros t1 Hin. destruct (key_eqb k (t1, name)) eqn:E; auto.
      assert (existsb (fun t => key_eqb k (t, name)) ts = true) by (apply existsb_exists; eauto).
      congruence.
Qed.

Lemma pending_ok_same x y : pending y = pending x -> cid y = cid x -> pending_ok x -> pending_ok y.
Proof. intros Hp Hc P tok f v k H. rewrite Hp in H. rewrite Hc. eauto. Qed.

Lemma local_step_inv a x : ctx_inv x -> pending_ok x ->
  ctx_inv (fst (local_step a x)) /\ pending_ok (fst (local_step a x)).
Proof.
  intros I P.
  assert (SGI : forall y f g n, res y = res x -> facs y = facs x -> cid y = cid x ->
                ctx_inv (store_generated y f (Gen (cid x) g n))).
  { intros y f g n R F C. apply store_generated_inv.
    - eapply inv_irrelevant_fields; eauto.
    - rewrite C. eauto. }
  assert (PSG : forall y f v, pending_ok y -> pending_ok (store_generated y f v)).
  { intros y f v Py. unfold_sg. destruct (free_types y f); auto. }
  unfold local_step. destruct a; simpl; crush_step;
  (split;
   [ first [ exact I
           | apply add_resource_inv; [exact I | apply existsb_taken_false; assumption]
           | apply add_factory_inv; exact I
           | apply SGI; reflexivity
           | eapply inv_irrelevant_fields; [| | | exact I]; reflexivity
           | idtac ]
   | first [ exact P
           | apply PSG; eapply pending_ok_same; [| | exact P]; reflexivity
           | eapply pending_ok_same; [| | exact P]; reflexivity
           | idtac ] ]).
  - (* a lookup suspends in its factory *)
    intros tk g w kk Hf. cbn [pending add_pending set_pending cid set_calls set_next] in *.
    apply nfind_nins_inv in Hf. destruct Hf as [[_ E]|Hf]; [inversion E; subst; eauto | eapply P; eauto].
  - (* the suspended lookup completes *)
    match goal with H : nfind _ (pending x) = Some _ |- _ => destruct (P _ _ _ _ H) as (g & n & ->) end.
    apply SGI; reflexivity.
  - apply PSG. intros tk g' w kk Hf. cbn [pending del_pending set_pending cid] in *.
    apply nfind_ndel_inv in Hf. eapply P; eauto.
Qed.

Lemma snapshot_inv i p : ctx_inv p -> ctx_inv (snapshot i p) /\ pending_ok (snapshot i p).
Proof.
  intros [I1 I2 I3 I4 I5 I6]. split; [|intros tok f v kk H; discriminate].
  constructor; cbn [res facs cid snapshot]; auto.
  - now apply filter_NoDup.
  - intros k c Hk. pose proof (find_filter_NoDup _ _ _ _ I1 Hk) as Hk'.
    destruct (I3 k c Hk') as (A & B & C). repeat split; auto.
    intros t Ht. assert (G : cgen c = false).
    { apply find_filter in Hk. destruct Hk as [_ (k' & _ & Hp)]. simpl in Hp. now apply negb_true_iff in Hp. }
    apply find_filter_keep; auto; intros; simpl; now rewrite ?G.
  - intros k c Hk G. apply find_filter in Hk. destruct Hk as [_ (k' & _ & Hp)]. simpl in Hp.
    apply negb_true_iff in Hp. congruence.
  - intros k c Hk G. pose proof (find_filter_NoDup _ _ _ _ I1 Hk) as Hk'. eauto.
Qed.

Lemma root_inv i : ctx_inv (root_ctx i) /\ pending_ok (root_ctx i).
Proof.
  split; [|intros tok f v kk H; discriminate].
  constructor; simpl; try constructor; intros; discriminate.
Qed.

(* ---------------- the forest ---------------- *)
Definition state_inv (s : state) : Prop :=
  forall i x, nth_error s i = Some x -> ctx_inv x /\ pending_ok x /\ cid x = i.

Lemma update_nth s c x i : nth_error (update s c x) i =
  if Nat.eqb i c then (if Nat.ltb c (length s) then Some x else None) else nth_error s i.
Proof.
  destruct (Nat.eqb i c) eqn:E.
  - apply Nat.eqb_eq in E. subst. destruct (Nat.ltb c (length s)) eqn:L.
    + apply Nat.ltb_lt in L. now apply update_same.
    + apply Nat.ltb_ge in L. apply nth_error_None. now rewrite update_length.
  - apply Nat.eqb_neq in E. now apply update_other.
Qed.

Lemma cid_local_step a x : cid (fst (local_step a x)) = cid x.
Proof.
  assert (SG : forall y f v, cid (store_generated y f v) = cid y)
    by (intros; unfold_sg; destruct (free_types y f); reflexivity).
  unfold local_step. destruct a; simpl; crush_step; rewrite ?SG; auto.
Qed.

Lemma step_inv s o : state_inv s -> state_inv (fst (step s o)).
Proof.
  intros I. destruct o as [[p|]|c a]; simpl.
  - destruct (nth_error s p) as [px|] eqn:Ep; simpl; auto.
    intros i x Hi. destruct (Nat.lt_ge_cases i (length s)).
    + rewrite nth_error_app1 in Hi by lia. auto.
    + rewrite nth_error_app2 in Hi by lia. destruct (i - length s) eqn:Ed; simpl in Hi.
      * inversion Hi; subst x. destruct (I p px Ep) as (Ip & _ & _).
        destruct (snapshot_inv (length s) px Ip). split; [assumption|split; [assumption|]]. simpl. lia.
      * destruct n; discriminate.
  - intros i x Hi. destruct (Nat.lt_ge_cases i (length s)).
    + rewrite nth_error_app1 in Hi by lia. auto.
    + rewrite nth_error_app2 in Hi by lia. destruct (i - length s) eqn:Ed; simpl in Hi.
      * inversion Hi; subst x. destruct (root_inv (length s)). split; [assumption|split; [assumption|]]. simpl. lia.
      * destruct n; discriminate.
  - destruct (nth_error s c) as [x|] eqn:Ec; simpl; auto.
    destruct (local_step a x) as [x' o] eqn:El. simpl.
    intros i y Hi. rewrite update_nth in Hi. destruct (Nat.eqb i c) eqn:E.
    + apply Nat.eqb_eq in E. subst i. destruct (Nat.ltb c (length s)); [|discriminate].
      inversion Hi; subst y. destruct (I c x Ec) as (Ix & Px & Cx).
      pose proof (local_step_inv a x Ix Px) as [A B]. rewrite El in A, B. simpl in A, B.
      split; [assumption|split; [assumption|]]. pose proof (cid_local_step a x) as Hc. rewrite El in Hc. simpl in Hc. congruence.
    + auto.
Qed.

Theorem reachable_inv : forall h s, state_inv s -> state_inv (run s h).
Proof.
  induction h as [|o r IH]; intros s I; auto.
  rewrite run_cons. apply IH. now apply step_inv.
Qed.

Lemma init_inv : state_inv [].
Proof. intros i x H. destruct i; discriminate. Qed.

(* ---------------- consequences ---------------- *)
(* C02 "all lookup paths agree": get_resources(t) lists exactly the (name, object) pairs that
   get_resource(_nowait)(t, name) returns for resources present in the context *)
Lemma get_resources_spec x t n v : ctx_inv x ->
  In (n, v) (get_resources x t) <-> exists c, find (t, n) (res x) = Some c /\ cvalue c = v.
Proof.
  intros [I1 _ I3 _ _ _]. unfold get_resources. rewrite in_flat_map. split.
  - intros ([k c] & Hin & H). simpl in H.
    destruct (existsb (Nat.eqb t) (ctypes c)) eqn:Ex; [|destruct H].
    destruct H as [H|[]]. inversion H; subst n v.
    apply existsb_exists in Ex. destruct Ex as (t' & Ht & E). apply Nat.eqb_eq in E. subst t'.
    apply In_find in Hin; auto. destruct (I3 k c Hin) as (_ & _ & C). exists c. auto.
  - intros (c & Hf & <-). exists ((t, n), c). split; [now apply find_In|]. simpl.
    destruct (I3 _ _ Hf) as (A & B & _). simpl in A, B.
    assert (existsb (Nat.eqb t) (ctypes c) = true) as -> by (apply existsb_exists; exists t; split; auto; apply Nat.eqb_refl).
    left. now rewrite A.
Qed.

(* C04: after a generation the object is bound under the requested pair (and under every other
   type of the factory that was free), so every later lookup returns it *)
Lemma store_generated_binds x f v t :
  In t (free_types x f) ->
  exists c, find (t, fname f) (res (store_generated x f v)) = Some c /\ cvalue c = v /\ cgen c = true.
Proof.
  intro Hin. unfold_sg. destruct (free_types x f) as [|t0 tr] eqn:Ef; [destruct Hin|].
  rewrite <- Ef in *. cbn [res set_evlog set_res]. rewrite find_ins_all_in by auto. eexists; split; eauto.
Qed.

Lemma requested_key_free x t name f :
  ctx_inv x -> find (t, name) (res x) = None -> find (t, name) (facs x) = Some f ->
  fname f = name /\ In t (free_types x f).
Proof.
  intros I R F. destruct (inv_fac_coh x I _ _ F) as [A B]. simpl in A, B. split; auto.
  unfold free_types. apply filter_In. split; auto. apply negb_true_iff. apply taken_false_find. now rewrite <- A.
Qed.

Lemma generation_nowait_cached x t name opt f : ctx_inv x ->
  in_states (life x) [Open; Closing] = true ->
  find (t, name) (res x) = None -> find (t, name) (facs x) = Some f -> fkind_of f = FSync ->
  exists v x', local_step (AGetNowait t name opt) x = (x', Val v) /\
     v = Gen (cid x) (fid f) (next_local x) /\
     (forall t', In t' (ftypes f) -> find (t', name) (res x) = None ->
        exists c, find (t', name) (res x') = Some c /\ cvalue c = v) /\
     (forall t' c, find (t', name) (res x) = Some c -> find (t', name) (res x') = Some c).
Proof.
  intros I L R F K. unfold local_step. simpl allowed. rewrite L. simpl. rewrite R, F, K.
  eexists _, _. split; [reflexivity|]. split; [reflexivity|].
  destruct (inv_fac_coh x I _ _ F) as [A _]. simpl in A. subst name. split.
  - intros t' Ht' Hfree.
    destruct (store_generated_binds (set_calls (set_next x (S (next_local x)))
                 (ins (fkey f) (S (count (fkey f) (calls x))) (calls x))) f
                 (Gen (cid x) (fid f) (next_local x)) t') as (c & Hc & Hv & _).
    + unfold free_types. apply filter_In. split; auto. apply negb_true_iff. now apply taken_false_find.
    + eauto.
  - intros t' c Hc. now apply store_generated_stable.
Qed.
