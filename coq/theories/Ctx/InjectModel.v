(* Model of @inject / resource() (src/asphalt/core/_context.py: inject, resource, _Dependency)
   on top of the resource-table model: an injected call is a sequence of the SAME lookup steps
   that explicit get_resource_nowait / get_resource calls perform.  Used by C19.  Definitions only. *)
From Coq Require Import String.
From Coq Require Import List Bool Arith.
From Asphalt Require Import Ctx.ResModel Gen.Gen_inject.
Import ListNotations.
Open Scope string_scope.
Open Scope list_scope.

(* ---------- signatures ---------- *)
Inductive pkind := PosOnly | PosOrKw | KwOnly | VarPos | VarKw.
Inductive pdefault :=
| DNone                 (* no default *)
| DPlain                (* an ordinary default value *)
| DDep (name : string)  (* resource(name) *)
| DMarkerFn.            (* the `resource` function itself: parentheses forgotten *)
Inductive pann :=
| ANone                 (* no annotation *)
| ATy (t : ty)          (* T *)
| AOpt (t : ty)         (* Optional[T] / T | None *)
| ABadUnion.            (* a union that is not exactly {T, None} *)
Record param := Param { p_kind : pkind; p_default : pdefault; p_ann : pann }.

Inductive dep := Dep (name : string) (ann : pann).

Inductive decorated :=
| Rejected              (* TypeError when the decorator is applied *)
| Unchanged             (* no injectable parameter: a warning, the function itself is returned *)
| Wrapper (deps : list dep) (is_coro : bool).

(* the signature scan of inject(), in parameter order; the first offending parameter raises *)
Fixpoint scan (sig : list param) : option (list dep) :=
  match sig with
  | [] => Some []
  | p :: r =>
      match p_default p with
      | DDep name =>
          match p_kind p, p_ann p with
          | PosOnly, _ => None
          | _, ANone => None
          | _, a => match scan r with Some ds => Some (Dep name a :: ds) | None => None end
          end
      | DMarkerFn => None
      | _ => scan r
      end
  end.

Definition decorate (sig : list param) (is_coro : bool) : decorated :=
  match scan sig with
  | None => Rejected
  | Some [] => Unchanged
  | Some ds => Wrapper ds is_coro
  end.

(* ---------- calling the wrapper in context x ---------- *)
Inductive iout :=
| IBody (bound : list out)   (* the body ran, with these values bound to the injected parameters
                                (Val v or NoneVal), in signature order *)
| IRaised (e : err)          (* a lookup raised; the body did not run *)
| ITypeError.                (* an invalid union, detected on the first call; the body did not run *)

Definition bad_union (d : dep) : bool := match d with Dep _ ABadUnion => true | _ => false end.

(* the action an explicit lookup of this dependency performs *)
(* which lookup, and with which `optional` flag, is read from resolve_resources / resolve_resources_async on
   this run (Gen/Gen_inject.v) *)
Definition lookup_action (is_coro : bool) (tok : nat) (d : dep) : action :=
  match d with
  | Dep name (AOpt t) =>
      if is_coro && inj_async_awaits_get_resource then AGetBegin tok t name inj_async_optional_flag
      else AGetNowait t name (if is_coro then inj_async_optional_flag else inj_sync_optional_flag)
  | Dep name (ATy t) =>
      if is_coro && inj_async_awaits_get_resource then AGetBegin tok t name inj_async_mandatory_flag
      else AGetNowait t name (if is_coro then inj_async_mandatory_flag else inj_sync_mandatory_flag)
  | Dep name _ => AGetNowait 0 name false   (* unreachable: rejected earlier *)
  end.

(* resolve the dependencies in signature order with the context's own lookup step; stop at the
   first one that raises.  (A suspended asynchronous generation -- Pending -- is outside this
   model: the harness uses factories that do not suspend for injected calls.) *)
Fixpoint resolve_deps (is_coro : bool) (tok : nat) (ds : list dep) (x : ctx) (acc : list out) : ctx * iout :=
  match ds with
  | [] => (x, IBody (rev acc))
  | d :: r =>
      let '(x1, o) := local_step (lookup_action is_coro tok d) x in
      match o with
      | Val _ | NoneVal => resolve_deps is_coro (S tok) r x1 (o :: acc)
      | Err e => (x1, IRaised e)
      | _ => (x1, IRaised RuntimeErr)
      end
  end.

Definition call (ds : list dep) (is_coro : bool) (tok : nat) (x : ctx) : ctx * iout :=
  if existsb bad_union ds then (x, ITypeError) else resolve_deps is_coro tok ds x [].
