(* Proofs about the resource-table model (Ctx/ResModel.v): frame, snapshot, non-interference
   (C02); stability, conflicts, failed adds (C03); scoping of generated resources (C04);
   lifecycle guard and monotonicity (C13); event log (C18). *)
From Coq Require Import String.
From Coq Require Import List Bool Arith Lia.
From Asphalt Require Import Ctx.ResModel Gen.Gen_lookup.
Import ListNotations.
Open Scope string_scope.
Open Scope list_scope.

(* ---------------- keys and association lists ---------------- *)
Lemma key_eqb_refl k : key_eqb k k = true.
Proof. unfold key_eqb. now rewrite Nat.eqb_refl, String.eqb_refl. Qed.

Lemma key_eqb_eq a b : key_eqb a b = true <-> a = b.
Proof.
  destruct a as [t n], b as [t' n']. unfold key_eqb; simpl. rewrite andb_true_iff, Nat.eqb_eq, String.eqb_eq.
  split; [intros [-> ->]; reflexivity | intro H; inversion H; auto].
Qed.

Lemma key_eqb_sym a b : key_eqb a b = key_eqb b a.
Proof.
  destruct (key_eqb a b) eqn:E.
  - apply key_eqb_eq in E. subst. now rewrite key_eqb_refl.
  - destruct (key_eqb b a) eqn:E2; auto. apply key_eqb_eq in E2. subst. now rewrite key_eqb_refl in E.
Qed.

Section Assoc.
Context {V : Type}.

Lemma find_ins_same (k : key) (v : V) l : find k (ins k v l) = Some v.
Proof.
  induction l as [|[k' v'] r IH]; simpl.
  - now rewrite key_eqb_refl.
  - destruct (key_eqb k k') eqn:E; simpl; rewrite ?key_eqb_refl, ?E; auto.
Qed.

Lemma find_ins_other (k k' : key) (v : V) l : key_eqb k' k = false -> find k' (ins k v l) = find k' l.
Proof.
  intro N. induction l as [|[k2 v2] r IH]; simpl.
  - now rewrite N.
  - destruct (key_eqb k k2) eqn:E; simpl.
    + apply key_eqb_eq in E. subst k2. now rewrite N.
    + destruct (key_eqb k' k2); auto.
Qed.

Lemma find_ins_all_other ts name (v : V) : forall l k,
  (forall t, In t ts -> key_eqb k (t, name) = false) ->
  find k (ins_all ts name v l) = find k l.
Proof.
  induction ts as [|t r IH]; intros l k H; simpl; auto.
  rewrite IH by (intros; apply H; simpl; auto).
  apply find_ins_other. apply H. simpl; auto.
Qed.

Lemma find_ins_all_in ts name (v : V) : forall l t,
  In t ts -> find (t, name) (ins_all ts name v l) = Some v.
Proof.
  induction ts as [|t0 r IH]; intros l t Hin; simpl in *; [tauto|].
  destruct (in_dec Nat.eq_dec t r) as [Hr|Hr].
  - now apply IH.
  - destruct Hin as [->|Hin]; [|tauto].
    rewrite find_ins_all_other.
    + apply find_ins_same.
    + intros t' Ht'. destruct (key_eqb (t, name) (t', name)) eqn:E; auto.
      apply key_eqb_eq in E. inversion E; subst. tauto.
Qed.

Lemma taken_false_find (l : list (key * V)) name t : taken l name t = false <-> find (t, name) l = None.
Proof. unfold taken. destruct (find (t, name) l); split; congruence. Qed.

Lemma existsb_taken_false (l : list (key * V)) name ts :
  existsb (taken l name) ts = false -> forall t, In t ts -> find (t, name) l = None.
Proof.
  intros H t Hin. apply taken_false_find.
  destruct (taken l name t) eqn:E; auto.
  assert (existsb (taken l name) ts = true) by (apply existsb_exists; eauto). congruence.
Qed.

(* inserting under keys that are all free never disturbs an existing binding *)
Lemma find_ins_all_stable ts name (v : V) l k c :
  find k l = Some c -> (forall t, In t ts -> find (t, name) l = None) ->
  find k (ins_all ts name v l) = Some c.
Proof.
  intros Hk Hfree. rewrite find_ins_all_other; auto.
  intros t Ht. destruct (key_eqb k (t, name)) eqn:E; auto.
  apply key_eqb_eq in E. subst k. rewrite (Hfree t Ht) in Hk. discriminate.
Qed.

Lemma find_filter (p : key * V -> bool) l k c :
  find k (filter p l) = Some c -> find k l <> None /\ exists k', key_eqb k k' = true /\ p (k', c) = true.
Proof.
  induction l as [|[k' v'] r IH]; simpl; [discriminate|].
  destruct (p (k', v')) eqn:Ep; simpl.
  - destruct (key_eqb k k') eqn:E.
    + intro H; inversion H; subst. split; [congruence|]. exists k'. auto.
    + intro H. destruct (IH H) as [A B]. split; auto.
  - intro H. destruct (IH H) as [A B]. split; auto. destruct (key_eqb k k'); congruence.
Qed.
End Assoc.

(* ---------------- update ---------------- *)
Lemma update_length s c x : length (update s c x) = length s.
Proof. revert c; induction s; intros [|c]; simpl; auto. Qed.
Lemma update_other s c x d : d <> c -> nth_error (update s c x) d = nth_error s d.
Proof. revert c d; induction s; intros [|c] [|d] H; simpl; auto; congruence. Qed.
Lemma update_same s c x : c < length s -> nth_error (update s c x) c = Some x.
Proof. revert c; induction s; intros [|c] H; simpl in *; try lia; auto. apply IHs; lia. Qed.

Local Arguments ins_all : simpl never.
Local Arguments existsb : simpl never.
Local Arguments forallb : simpl never.
Local Arguments eff_types : simpl never.

(* case analysis on everything [local_step] inspects *)
(* the asynchronous lookup stores its product the way the synchronous one does (both read from the source,
   Gen/Gen_lookup.v; equal on this run) *)
Lemma sga_eq : store_generated_async = store_generated.
Proof. reflexivity. Qed.
Ltac unfold_sg :=
  unfold store_generated, store_generated_as, nw_free_types_only, nw_marked_generated, nw_dispatch_iff_stored.

Ltac crush_step :=
  rewrite ?sga_eq in *;
  unfold not_found in *;
  repeat match goal with
  | |- context [match ?e with _ => _ end] => destruct e eqn:?; simpl in *
  | |- context [if ?e then _ else _] => destruct e eqn:?; simpl in *
  end.

Lemma life_store_generated x f v : life (store_generated x f v) = life x.
Proof. unfold_sg. destruct (free_types x f); reflexivity. Qed.
Lemma facs_store_generated x f v : facs (store_generated x f v) = facs x.
Proof. unfold_sg. destruct (free_types x f); reflexivity. Qed.

(* ---------------- C13: lifecycle ---------------- *)
Definition rank (l : lstate) : nat :=
  match l with Inactive => 0 | Open => 1 | Closing => 2 | Closed => 3 end.

(* an operation attempted outside its allowed lifecycle states raises RuntimeError and changes
   nothing at all *)
Lemma guard_rejects a x : in_states (life x) (allowed a) = false -> local_step a x = (x, Err RuntimeErr).
Proof. intro H. unfold local_step. now rewrite H. Qed.

Lemma guard_accepts_not_rt a x : in_states (life x) (allowed a) = true ->
  match a with
  | AEnter | AAddResource _ _ _ _ _ _ | AAddFactory _ _ _ _ _ | AGetNowait _ _ _ | AGetBegin _ _ _ _
  | AAddTeardown _ => snd (local_step a x) <> Err RuntimeErr
  | _ => True
  end.
Proof.
  intro H. unfold local_step. rewrite H. simpl.
  destruct a; auto; simpl; crush_step; discriminate.
Qed.


Lemma life_monotone a x : rank (life x) <= rank (life (fst (local_step a x))).
Proof.
  unfold local_step. destruct a; simpl; crush_step; rewrite ?life_store_generated; simpl;
    repeat match goal with H : life x = _ |- _ => rewrite H end; simpl; try lia.
  all: destruct (life x); simpl in *; try discriminate; lia.
Qed.

(* entering succeeds exactly from the inactive state *)
Lemma enter_once x : snd (local_step AEnter x) = OK <-> life x = Inactive.
Proof.
  unfold local_step. simpl. destruct (life x); simpl; split; intro H; try discriminate; auto.
Qed.

Lemma enter_opens x : life x = Inactive -> life (fst (local_step AEnter x)) = Open.
Proof. intro H. unfold local_step. simpl. rewrite H. reflexivity. Qed.

(* `closed` is false before teardown begins and true from then on *)
Lemma closed_flag_rank x : closed_flag x = Nat.leb 2 (rank (life x)).
Proof. unfold closed_flag. destruct (life x); reflexivity. Qed.

Lemma exit_end_closes x : life x = Closing -> life (fst (local_step AExitEnd x)) = Closed.
Proof. intro H. unfold local_step. simpl. rewrite H. reflexivity. Qed.
Lemma exit_begin_closing x e : life x = Open -> life (fst (local_step (AExitBegin e) x)) = Closing.
Proof. intro H. unfold local_step. simpl. rewrite H. reflexivity. Qed.

(* ---------------- C03 ---------------- *)
Definition is_add (a : action) : bool :=
  match a with AAddResource _ _ _ _ _ _ | AAddFactory _ _ _ _ _ | AAddTeardown _ => true | _ => false end.
Definition is_err (o : out) : bool := match o with Err _ => true | _ => false end.

(* an add_* call that raises, for whatever reason, leaves the whole context record unchanged *)
Lemma failed_add_noop a x : is_add a = true -> is_err (snd (local_step a x)) = true -> fst (local_step a x) = x.
Proof.
  unfold local_step. destruct a; simpl; try discriminate; intros _; crush_step; auto; discriminate.
Qed.

Lemma store_generated_stable x f v k c :
  find k (res x) = Some c -> find k (res (store_generated x f v)) = Some c.
Proof.
  intro H. unfold_sg.
  destruct (free_types x f) as [|t0 tr] eqn:Ef; auto. cbn [res set_evlog set_res]. rewrite <- Ef.
  apply find_ins_all_stable; auto.
  intros t1 Ht. unfold free_types in Ht. apply filter_In in Ht. destruct Ht as [_ Ht].
  apply negb_true_iff in Ht. now apply taken_false_find.
Qed.

(* a binding, once made, is never replaced by any operation *)
Lemma res_stable a x k c :
  find k (res x) = Some c -> find k (res (fst (local_step a x))) = Some c.
Proof.
  intro H. unfold local_step. destruct a; simpl; crush_step; auto;
    try (apply store_generated_stable; simpl; auto; fail).
  all: apply find_ins_all_stable; auto; apply existsb_taken_false; auto.
Qed.

Lemma fac_stable a x k f :
  find k (facs x) = Some f -> find k (facs (fst (local_step a x))) = Some f.
Proof.
  intro H. unfold local_step. destruct a; simpl; crush_step; rewrite ?facs_store_generated; simpl; auto.
  all: match goal with |- find _ (ins_all ?ts _ _ _) = _ => apply (find_ins_all_stable ts) end; auto;
       apply existsb_taken_false; auto.
Qed.

(* a lookup that returned an object keeps returning it (both lookup APIs) *)
Lemma lookup_hit_nowait x t name opt c :
  in_states (life x) [Open; Closing] = true ->
  find (t, name) (res x) = Some c -> local_step (AGetNowait t name opt) x = (x, Val (cvalue c)).
Proof. intros L H. unfold local_step. simpl allowed. rewrite L. simpl. now rewrite H. Qed.

Lemma lookup_hit_async x tok t name opt c :
  in_states (life x) [Open; Closing] = true -> tok_used x tok = false ->
  find (t, name) (res x) = Some c -> local_step (AGetBegin tok t name opt) x = (x, Val (cvalue c)).
Proof. intros L U H. unfold local_step. simpl allowed. rewrite L. simpl. now rewrite U, H. Qed.

(* adding under a taken pair (on any of several types) raises ResourceConflict *)
Lemma add_resource_conflict x n vty name types desc cb :
  in_states (life x) [Open; Closing] = true ->
  let types_ := eff_types types vty in
  forallb ty_is_class types_ = true -> valid_name name = true -> cb <> BadCb ->
  existsb (taken (res x) name) types_ = true ->
  local_step (AAddResource (Some n) vty name types desc cb) x = (x, Err Conflict).
Proof.
  intros L types_ Hc Hn Hcb Ht. unfold local_step. simpl allowed. rewrite L. simpl.
  fold types_. rewrite Hc, Hn. simpl. destruct cb; try congruence; now rewrite Ht.
Qed.

Lemma add_factory_conflict x f kind name types desc :
  life x = Open -> types <> [] -> valid_name name = true -> existsb ty_is_none types = false ->
  existsb (taken (facs x) name) types = true ->
  local_step (AAddFactory f kind name types desc) x = (x, Err Conflict).
Proof.
  intros L Ht Hn Hnone Hc. unfold local_step. simpl allowed. rewrite L. simpl. rewrite Hn. simpl.
  destruct types; [congruence|]. now rewrite Hnone, Hc.
Qed.

(* ---------------- C02 / C04: snapshot and scoping ---------------- *)
Lemma snapshot_no_generated i p k c : find k (res (snapshot i p)) = Some c -> cgen c = false.
Proof.
  simpl. intro H. apply find_filter in H. destruct H as [_ (k' & _ & Hp)]. simpl in Hp.
  now apply negb_true_iff in Hp.
Qed.

Lemma snapshot_facs i p : facs (snapshot i p) = facs p.
Proof. reflexivity. Qed.

Lemma find_filter_keep {V} (p : key * V -> bool) l k c :
  find k l = Some c -> (forall k', p (k', c) = true) ->
  (forall k1 c1 k2, p (k1, c1) = p (k2, c1)) ->
  find k (filter p l) = Some c.
Proof.
  intros H Hp Hind. induction l as [|[k' v'] r IH]; simpl in *; [discriminate|].
  destruct (key_eqb k k') eqn:E.
  - inversion H; subst. rewrite Hp. simpl. now rewrite E.
  - destruct (p (k', v')); simpl; rewrite ?E; auto.
Qed.

(* every static resource of the parent is in the snapshot *)
Lemma snapshot_static i p k c : find k (res p) = Some c -> cgen c = false -> find k (res (snapshot i p)) = Some c.
Proof.
  intros H G. simpl. apply find_filter_keep; auto; intros; simpl; now rewrite ?G.
Qed.

Lemma snapshot_only_parent i p k c : find k (res (snapshot i p)) = Some c -> find k (res p) <> None.
Proof. simpl. intro H. now apply find_filter in H. Qed.

(* asking the sync API for an async factory's resource: AsyncResourceError, nothing changes *)
Lemma async_via_sync x t name opt f :
  in_states (life x) [Open; Closing] = true ->
  find (t, name) (res x) = None -> find (t, name) (facs x) = Some f -> fkind_of f <> FSync ->
  local_step (AGetNowait t name opt) x = (x, Err AsyncErr).
Proof.
  intros L R F K. unfold local_step. simpl allowed. rewrite L. simpl. rewrite R, F.
  destruct (fkind_of f); congruence.
Qed.

(* ---------------- C02: frame and non-interference ---------------- *)
Lemma step_frame s c a d : d <> c -> nth_error (fst (step s (At c a))) d = nth_error s d.
Proof.
  intro N. simpl. destruct (nth_error s c) as [x|]; auto.
  destruct (local_step a x) as [x' o]. simpl. now apply update_other.
Qed.

Lemma step_new_frame s p d : d < length s -> nth_error (fst (step s (New p))) d = nth_error s d.
Proof.
  intro H. destruct p as [p|]; simpl.
  - destruct (nth_error s p); simpl; auto. now rewrite nth_error_app1.
  - now rewrite nth_error_app1.
Qed.

Lemma step_new_snapshot s p px :
  nth_error s p = Some px ->
  nth_error (fst (step s (New (Some p)))) (length s) = Some (snapshot (length s) px).
Proof.
  intro H. simpl. rewrite H. simpl. rewrite nth_error_app2 by lia. now rewrite Nat.sub_diag.
Qed.

(* taint: the context acted upon, plus every context created later from a tainted one *)
Definition tainted_step (n : nat) (t : list nat) (o : op) : list nat :=
  match o with
  | New (Some p) => if existsb (Nat.eqb p) t then n :: t else t
  | _ => t
  end.

Definition agree (t : list nat) (s1 s2 : state) :=
  length s1 = length s2 /\ forall d, ~ In d t -> nth_error s1 d = nth_error s2 d.

Lemma existsb_eqb_In p t : existsb (Nat.eqb p) t = true <-> In p t.
Proof.
  rewrite existsb_exists. split.
  - intros (x & Hx & E). apply Nat.eqb_eq in E; subst; auto.
  - intro H; exists p; split; auto. apply Nat.eqb_refl.
Qed.

Definition nstep (s : state) (o : op) : state := fst (step s o).

Lemma nstep_local s c a :
  nstep s (At c a) = match nth_error s c with Some x => update s c (fst (local_step a x)) | None => s end.
Proof. unfold nstep. simpl. destruct (nth_error s c); auto. destruct (local_step a c0); reflexivity. Qed.

Lemma nstep_new_some s p :
  nstep s (New (Some p)) = match nth_error s p with Some px => s ++ [snapshot (length s) px] | None => s end.
Proof. unfold nstep. simpl. destruct (nth_error s p); reflexivity. Qed.

Lemma step_agree t s1 s2 o : agree t s1 s2 ->
  agree (tainted_step (length s1) t o) (nstep s1 o) (nstep s2 o).
Proof.
  intros [L A]. destruct o as [[p|]|c a].
  - rewrite !nstep_new_some. simpl.
    destruct (existsb (Nat.eqb p) t) eqn:E.
    + apply existsb_eqb_In in E.
      assert (Hlen : forall s, length (match nth_error s p with Some px => s ++ [snapshot (length s) px] | None => s end)
                               = length s + (if nth_error s p then 1 else 0)).
      { intro s. destruct (nth_error s p); rewrite ?app_length; simpl; lia. }
      assert (Hp : (if nth_error s1 p then 1 else 0) = (if nth_error s2 p then 1 else 0)).
      { destruct (nth_error s1 p) eqn:E1, (nth_error s2 p) eqn:E2; auto.
        - apply nth_error_None in E2. assert (H : nth_error s1 p <> None) by congruence.
          apply nth_error_Some in H. lia.
        - apply nth_error_None in E1. assert (H : nth_error s2 p <> None) by congruence.
          apply nth_error_Some in H. lia. }
      split. rewrite !Hlen. lia.
      intros d Hd. simpl in Hd.
      assert (d <> length s1 /\ ~ In d t) as [Hd1 Hd2] by (split; intro; apply Hd; auto).
      destruct (nth_error s1 p) eqn:E1, (nth_error s2 p) eqn:E2; simpl in Hp; try lia; auto.
      destruct (Nat.lt_ge_cases d (length s1)).
      * rewrite !nth_error_app1 by lia. auto.
      * rewrite !nth_error_app2 by lia. rewrite <- L.
        destruct (d - length s1) eqn:Ed; [lia|]. simpl. destruct n; reflexivity.
    + assert (H : ~ In p t) by (intro Hc; apply existsb_eqb_In in Hc; congruence).
      rewrite <- (A p H). destruct (nth_error s1 p); [|split; auto].
      rewrite <- L.
      split. rewrite !app_length; simpl; lia. intros d Hd.
      destruct (Nat.lt_ge_cases d (length s1)).
      * rewrite !nth_error_app1 by lia. auto.
      * rewrite !nth_error_app2 by lia. rewrite L. reflexivity.
  - unfold nstep. simpl. rewrite <- L. split. rewrite !app_length; simpl; lia. intros d Hd.
    destruct (Nat.lt_ge_cases d (length s1)).
    * rewrite !nth_error_app1 by lia. auto.
    * rewrite !nth_error_app2 by lia. rewrite L. reflexivity.
  - rewrite !nstep_local. simpl.
    destruct (in_dec Nat.eq_dec c t) as [Hc|Hc].
    + split. destruct (nth_error s1 c), (nth_error s2 c); rewrite ?update_length; auto.
      intros d Hd. assert (d <> c) by (intro; subst; auto).
      destruct (nth_error s1 c), (nth_error s2 c); rewrite ?update_other by auto; auto.
    + rewrite <- (A c Hc). destruct (nth_error s1 c) as [x|] eqn:E; [|split; auto].
      split. rewrite !update_length; auto. intros d Hd.
      destruct (Nat.eq_dec d c).
      * subst d. assert (c < length s1) by (apply nth_error_Some; congruence).
        rewrite !update_same by lia. reflexivity.
      * rewrite !update_other by auto. auto.
Qed.

Fixpoint taint (t : list nat) (h : list op) (s : state) : list nat :=
  match h with
  | [] => t
  | o :: r => taint (tainted_step (length s) t o) r (nstep s o)
  end.

Lemma run_cons s o h : run s (o :: h) = run (nstep s o) h.
Proof. reflexivity. Qed.

Theorem noninterference : forall h2 t s1 s2, agree t s1 s2 ->
  agree (taint t h2 s1) (run s1 h2) (run s2 h2).
Proof.
  induction h2 as [|o r IH]; intros t s1 s2 A; [exact A|].
  rewrite !run_cons. cbn [taint]. apply IH. now apply step_agree.
Qed.

(* the property: whatever is done to context c (successfully or not) is invisible, for ever,
   from every context except c itself and the contexts created LATER from c (or from such
   contexts): parent, ancestors, siblings, unrelated contexts and children that already exist *)
Corollary action_invisible_elsewhere : forall s c a h2,
  agree (taint [c] h2 (nstep s (At c a))) (run (nstep s (At c a)) h2) (run s h2).
Proof.
  intros. apply noninterference. unfold agree. rewrite nstep_local.
  destruct (nth_error s c) eqn:E; [|split; auto].
  split. apply update_length. intros d Hd. apply update_other. intro; subst; apply Hd; simpl; auto.
Qed.

(* ---------------- C18: the event log ---------------- *)
Lemma evlog_failed a x : is_err (snd (local_step a x)) = true -> evlog (fst (local_step a x)) = evlog x.
Proof.
  unfold local_step. destruct a; simpl; crush_step; auto; discriminate.
Qed.

Lemma evlog_add_resource x n vty name types desc cb :
  snd (local_step (AAddResource (Some n) vty name types desc cb) x) = OK ->
  evlog (fst (local_step (AAddResource (Some n) vty name types desc cb) x)) =
  evlog x ++ [REv (eff_types types vty) name desc false].
Proof.
  unfold local_step. simpl. crush_step; try discriminate; auto.
Qed.

Lemma evlog_add_factory x f kind name types desc :
  snd (local_step (AAddFactory f kind name types desc) x) = OK ->
  evlog (fst (local_step (AAddFactory f kind name types desc) x)) = evlog x ++ [REv types name desc true].
Proof.
  unfold local_step. simpl. crush_step; try discriminate; auto.
Qed.

(* a lookup that merely returns an existing resource dispatches nothing *)
Lemma evlog_lookup_existing x t name opt c :
  find (t, name) (res x) = Some c ->
  evlog (fst (local_step (AGetNowait t name opt) x)) = evlog x /\
  forall tok, evlog (fst (local_step (AGetBegin tok t name opt) x)) = evlog x.
Proof.
  intro H. unfold local_step. simpl allowed. destruct (negb _); simpl; auto. rewrite H.
  split; auto. intro tok. destruct (tok_used x tok); reflexivity.
Qed.

Lemma evlog_store_generated x f v :
  evlog (store_generated x f v) =
  evlog x ++ match free_types x f with [] => [] | ts => [REv ts (fname f) (fdesc f) false] end.
Proof.
  unfold_sg. destruct (free_types x f); simpl; auto. now rewrite app_nil_r.
Qed.

(* any operation appends at most one event, and never rewrites the past *)
Lemma evlog_prefix a x : exists l, evlog (fst (local_step a x)) = evlog x ++ l /\ length l <= 1.
Proof.
  assert (Z : exists l, evlog x = evlog x ++ l /\ length l <= 1) by (exists []; rewrite app_nil_r; auto).
  assert (SG : forall y f v, evlog y = evlog x ->
            exists l, evlog (store_generated y f v) = evlog x ++ l /\ length l <= 1).
  { intros y f v Hy. rewrite evlog_store_generated, Hy. eexists; split; eauto. destruct (free_types y f); simpl; lia. }
  unfold local_step. destruct a; simpl; crush_step; auto; eexists; split; eauto.
Qed.

(* ---------- the shape of the lookups and of Context.__init__ the model was computed from ---------- *)
Theorem lookup_source_shape :
  lk_existing_resource_first = true /\ nw_async_rejected_before_storing = true /\
  nw_free_types_only = true /\ nw_marked_generated = true /\ nw_dispatch_iff_stored = true /\
  as_inflight_guard = true /\ as_free_types_only = true /\ as_marked_generated = true /\
  as_dispatch_iff_stored = true /\ as_returns_what_the_pair_resolves_to = true.
Proof. repeat split. Qed.
Theorem init_source_shape : init_skips_generated = true /\ init_copies_factories = true.
Proof. split; reflexivity. Qed.

(* a lookup that was allowed to begin and had to wait is not refused when it is resumed -- in whatever state the
   context is by then (there is no lifecycle re-check after the await) *)
Lemma pending_lookup_never_refused tok x : snd (local_step (AGetEnd tok) x) <> Err RuntimeErr.
Proof.
  unfold local_step. replace (in_states (life x) (allowed (AGetEnd tok))) with true by (destruct (life x); reflexivity).
  simpl. crush_step; discriminate.
Qed.
