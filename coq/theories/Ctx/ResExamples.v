(* Non-vacuity: concrete histories that reach the situations the theorems of C02-C04, C13, C18
   speak about (evaluated by vm_compute). *)
From Coq Require Import String.
From Coq Require Import List Bool Arith.
From Asphalt Require Import Ctx.ResModel Ctx.ResProofs Ctx.ResInv Ctx.ResHist.
Import ListNotations.
Open Scope string_scope.
Open Scope list_scope.

(* root 0 with a static resource and a suspending two-type factory; two racing lookups; a
   child created while the generation is in flight; a resource added under one of the
   factory's pairs meanwhile *)
Definition h1 : list op :=
  [ New None; At 0 AEnter;
    At 0 (AAddResource (Some 7) 0 "x" [] None (Cb 1));
    At 0 (AAddFactory 5 FAsyncSusp "default" [1; 2] (Some 3));
    At 0 (AGetBegin 0 1 "default" false);          (* suspends inside the factory *)
    At 0 (AGetBegin 1 2 "default" false);          (* waits for the first *)
    New (Some 0);
    At 0 (AAddResource (Some 8) 2 "default" [] None NoCb);
    At 0 (AGetEnd 0);
    At 0 (AGetEnd 1);
    At 1 AEnter;
    At 1 (AGetNowait 0 "x" false);
    At 1 (AGetNowait 2 "default" true) ].

Definition outs (h : list op) : list out :=
  snd (fold_left (fun so o => let '(s, acc) := so in let '(s', r) := step s o in (s', acc ++ [r])) h ([], [])).

Example h1_outs : outs h1 =
  [OK; OK; OK; OK; Pending; Pending; OK; OK; Val (Gen 0 5 0); Val (Static 8); OK; Val (Static 7);
   Err AsyncErr].
Proof. vm_compute. reflexivity. Qed.

(* the factory ran once although two lookups raced (hypotheses of C04_once / C04_all_bound) *)
Example h1_calls : match nth_error (run [] h1) 0 with
                   | Some x => count (1, "default") (calls x) = 1 /\ generating x (1, "default") = false
                   | None => False end.
Proof. vm_compute. auto. Qed.

(* the child (created while the generation was in flight and before Static 8 was added) sees the
   parent's static resource x and the factory, but neither the generated object nor Static 8 *)
Example h1_child : match nth_error (run [] h1) 1 with
                   | Some x => map fst (res x) = [(0, "x")] /\ length (facs x) = 2 /\ evlog x = []
                   | None => False end.
Proof. vm_compute. auto. Qed.

(* the events of the root: one per publication, the generation announces only the type it
   registered (type 2 was taken meanwhile) *)
Example h1_events : match nth_error (run [] h1) 0 with
                    | Some x => evlog x = [REv [0] "x" None false; REv [1; 2] "default" (Some 3) true;
                                           REv [2] "default" None false; REv [1] "default" (Some 3) false]
                    | None => False end.
Proof. vm_compute. auto. Qed.

(* lifecycle: leaving the root while the child is open is reported; everything is rejected
   afterwards *)
Definition h2 : list op :=
  [ New None; At 0 AEnter; New (Some 0); At 1 AEnter;
    At 0 (AExitBegin false); At 0 (AAddFactory 1 FSync "f" [0] None); At 0 (AAddTeardown (Cb 4));
    At 0 AExitEnd; At 0 (AGetNowait 0 "f" true); At 0 AEnter ].
Example h2_outs : outs h2 =
  [OK; OK; OK; OK; Began []; Err RuntimeErr; OK; Exited [4] true; Err RuntimeErr; Err RuntimeErr].
Proof. vm_compute. reflexivity. Qed.
