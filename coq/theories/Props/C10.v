(* C10 - Events reach exactly the active subscribers, exactly once, in dispatch order. *)
From Coq Require Import List Bool Arith.
From Asphalt Require Import Ev.SigModel Ev.SigProofs Gen.Gen_signal Gen.Gen_stream.
Import ListNotations.

(* For every history and every subscriber, in every reachable state: the events the stream has
   yielded so far, followed by those still in its queue that pass its filter, are exactly the
   events accepted for it that pass its filter -- each once, in dispatch order. *)
Theorem C10_exact : forall h sid st,
  nth_error (streams (srun init h)) sid = Some st ->
  s_yielded st ++ filter (flt_pass (s_flt st)) (s_queue st) = filter (flt_pass (s_flt st)) (s_accepted st).
Proof. exact yielded_exact. Qed.
Print Assumptions C10_exact.

(* Which events are accepted: one dispatch acts on every subscriber independently -- a
   subscriber of the channel gets [deliver1], everybody else is untouched ... *)
Theorem C10_pointwise : forall c e l i,
  nth_error (fst (deliver_all c e l)) i =
  match nth_error l i with
  | Some st => Some (if subscribed c st then fst (deliver1 e st) else st)
  | None => None
  end.
Proof. exact deliver_all_pointwise. Qed.
Print Assumptions C10_pointwise.

(* ... where the event is accepted (appended, in dispatch order) iff a receiver is waiting or the
   queue has room; otherwise this subscriber -- and only it -- loses this event -- and only it *)
Theorem C10_overflow_local : forall e st,
  (s_waiting st = true \/ has_room st = true ->
     s_accepted (fst (deliver1 e st)) = s_accepted st ++ [e] /\ snd (deliver1 e st) = false) /\
  (s_waiting st = false /\ has_room st = false -> deliver1 e st = (st, true)).
Proof. exact deliver1_spec. Qed.
Print Assumptions C10_overflow_local.

(* one SignalQueueFull warning per overflowing subscriber *)
Theorem C10_warnings : forall c e l, snd (deliver_all c e l) = length (filter (overflows c) l).
Proof. exact deliver_all_warnings. Qed.
Print Assumptions C10_warnings.

(* dispatch never blocks and never raises because of any subscriber's state: each dispatch of a
   burst returns, with OK for a correctly typed event, whatever the subscribers are doing *)
Theorem C10_dispatch_total : forall s l, Forall2 (expected_res s) l (snd (burst s l)).
Proof. exact dispatch_total. Qed.
Print Assumptions C10_dispatch_total.

(* wait_event (and every single __anext__) returns the FIRST queued event that passes the filter;
   its queue is unbounded so nothing dispatched after it began is ever dropped for it *)
Theorem C10_wait_first : forall st e,
  snd (pull st) = Some e ->
  exists skipped rest, s_queue st = skipped ++ e :: rest /\
                       forallb (fun x => negb (flt_pass (s_flt st) x)) skipped = true /\
                       flt_pass (s_flt st) e = true.
Proof. exact pull_yields_first_passing. Qed.
Print Assumptions C10_wait_first.

Theorem C10_wait_never_drops : forall e st, s_cap st = None -> snd (deliver1 e st) = false.
Proof. exact unbounded_never_drops. Qed.
Print Assumptions C10_wait_never_drops.

(* Signal._subscribe / dispatch as read from the source on this run: subscriptions appended and removed in a
   finally clause; the class check (isinstance) precedes the stamping of source, topic and time; one
   send_nowait per subscriber over a copy of the list in subscription order; a closed receiver is skipped, a
   full queue drops the event for that subscriber with a SignalQueueFull warning *)
Theorem C10_dispatch_in_source :
  sig_subscription_appended = true /\ sig_unsubscribed_in_finally = true /\
  sig_class_check_by_isinstance = true /\ sig_check_before_stamping = true /\
  sig_stamps_source_topic_time = true /\ sig_iterates_over_copy = true /\
  sig_closed_receiver_skipped = true /\ sig_full_queue_warns_and_drops = true.
Proof. exact signal_dispatch_source_shape. Qed.
Print Assumptions C10_dispatch_in_source.

(* the stream wait_event opens -- with the queue bound the translator read from wait_event on this run -- is
   unbounded, one-shot, subscribed to exactly the given signals with the given filter ... *)
Theorem C10_wait_stream : forall s cs f,
  exists st, streams (fst (sstep s (Wait cs f))) = streams s ++ [st] /\ s_cap st = None /\ s_oneshot st = true /\
             s_chans st = cs /\ s_flt st = f.
Proof. exact wait_stream_unbounded. Qed.
Print Assumptions C10_wait_stream.

(* ... so nothing dispatched after wait_event began is ever dropped for it (F7: a bounded queue filled by events
   that do not pass the filter used to lose the awaited one) *)
Theorem C10_wait_event_never_loses : forall s cs f st e,
  streams (fst (sstep s (Wait cs f))) = streams s ++ [st] -> snd (deliver1 e st) = false.
Proof. exact wait_event_never_loses. Qed.
Print Assumptions C10_wait_event_never_loses.

(* stream_events / wait_event as read from the source on this run: default bound 50, wait_event unbounded, the
   filter applied on the receiving side, one queue for all the signals, subscribed on entry and unsubscribed on
   exit, wait_event returns the first event its stream yields *)
Theorem C10_stream_in_source :
  stream_default_queue = 50 /\ wait_queue = None /\ stream_filter_on_receiving_side = true /\
  stream_subscribes_on_entry = true /\ stream_one_queue_for_all_signals = true /\
  stream_unsubscribes_on_exit = true /\ wait_returns_first_yielded = true /\ shortcuts_delegate = true.
Proof. exact stream_source_shape. Qed.
Print Assumptions C10_stream_in_source.

(* exactly the ACTIVE subscribers: a subscriber that leaves -- with what Signal._subscribe undoes in its finally
   clause as read from the source on this run -- leaves alone: every other subscriber, subscribed before or after
   him, stays exactly as it is ... *)
Theorem C10_leave_changes_only_the_leaver : forall s sid j, j <> sid ->
  nth_error (streams (fst (sstep s (Leave sid)))) j = nth_error (streams s) j.
Proof. exact leave_changes_only_the_leaver. Qed.
Print Assumptions C10_leave_changes_only_the_leaver.

(* ... and he himself is subscribed to nothing any more (what he had been yielded stays his) *)
Theorem C10_leave_unsubscribes_the_leaver : forall s sid st c,
  nth_error (streams s) sid = Some st -> s_active st = true ->
  exists st', nth_error (streams (fst (sstep s (Leave sid)))) sid = Some st' /\ subscribed c st' = false /\
              s_yielded st' = s_yielded st.
Proof. exact leave_unsubscribes_the_leaver. Qed.
Print Assumptions C10_leave_unsubscribes_the_leaver.
