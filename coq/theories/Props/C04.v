(* C04 - Factory-generated resources are per-context singletons of the requesting context. *)
From Coq Require Import String List.
From Asphalt Require Import Ctx.ResModel Ctx.ResProofs Ctx.ResInv Ctx.ResHist Gen.Gen_lookup.
Import ListNotations.

(* in every reachable state, for every context and every factory, the factory's body has been
   started at most once on behalf of that context -- for every history, including lookups that
   suspend inside an asynchronous factory while other lookups of the same resource race *)
Theorem C04_once : forall h c x fk,
  nth_error (run [] h) c = Some x -> count fk (calls x) <= 1.
Proof. exact factory_started_at_most_once. Qed.
Print Assumptions C04_once.

(* once it has run to completion every pair of the factory is bound in that context (to the
   product, or to the resource that held the pair already), so no lookup reaches it again *)
Theorem C04_all_bound : forall h c x fk,
  nth_error (run [] h) c = Some x -> count fk (calls x) = 1 -> generating x fk = false ->
  exists f, find fk (facs x) = Some f /\
            forall t, In t (ftypes f) -> exists r, find (t, fname f) (res x) = Some r.
Proof. exact factory_finished_all_bound. Qed.
Print Assumptions C04_all_bound.

(* synchronous generation: the product is cached under every free type of the factory, taken
   pairs keep their object *)
Theorem C04_cached : forall x t name opt f, ctx_inv x ->
  in_states (life x) [Open; Closing] = true ->
  find (t, name) (res x) = None -> find (t, name) (facs x) = Some f -> fkind_of f = FSync ->
  exists v x', local_step (AGetNowait t name opt) x = (x', Val v) /\
     v = Gen (cid x) (fid f) (next_local x) /\
     (forall t', In t' (ftypes f) -> find (t', name) (res x) = None ->
        exists r, find (t', name) (res x') = Some r /\ cvalue r = v) /\
     (forall t' r, find (t', name) (res x) = Some r -> find (t', name) (res x') = Some r).
Proof. exact generation_nowait_cached. Qed.
Print Assumptions C04_cached.

(* whichever API stores a generated object: it is bound under each free type, marked generated *)
Theorem C04_store_binds : forall x f v t,
  In t (free_types x f) ->
  exists r, find (t, fname f) (res (store_generated x f v)) = Some r /\ cvalue r = v /\ cgen r = true.
Proof. exact store_generated_binds. Qed.
Print Assumptions C04_store_binds.

(* scoping: an object generated for context c' is found in no other context, in any reachable
   state; and a context created afterwards inherits no generated object *)
Theorem C04_scoped : forall h c x k r c' f n,
  nth_error (run [] h) c = Some x -> find k (res x) = Some r -> cvalue r = Gen c' f n -> c' = c.
Proof. exact generated_objects_stay_home. Qed.
Print Assumptions C04_scoped.

Theorem C04_not_inherited : forall i p k r, find k (res (snapshot i p)) = Some r -> cgen r = false.
Proof. exact snapshot_no_generated. Qed.
Print Assumptions C04_not_inherited.

(* the synchronous API on an asynchronous factory: AsyncResourceError, nothing changes *)
Theorem C04_async_via_sync : forall x t name opt f,
  in_states (life x) [Open; Closing] = true ->
  find (t, name) (res x) = None -> find (t, name) (facs x) = Some f -> fkind_of f <> FSync ->
  local_step (AGetNowait t name opt) x = (x, Err AsyncErr).
Proof. exact async_via_sync. Qed.
Print Assumptions C04_async_via_sync.

(* get_resource_nowait / get_resource as read from the source on this run (the model's lookups are computed
   from these): an existing resource first; a coroutine from the factory is rejected before anything is stored;
   the product is stored under the factory's still-free types only, marked as generated (so that children do
   not inherit it) and announced iff something was stored -- in BOTH lookups; the asynchronous one waits for
   a generation of the same factory already in flight in this context and returns what the pair resolves to *)
Theorem C04_lookups_in_source :
  lk_existing_resource_first = true /\ nw_async_rejected_before_storing = true /\
  nw_free_types_only = true /\ nw_marked_generated = true /\ nw_dispatch_iff_stored = true /\
  as_inflight_guard = true /\ as_free_types_only = true /\ as_marked_generated = true /\
  as_dispatch_iff_stored = true /\ as_returns_what_the_pair_resolves_to = true.
Proof. exact lookup_source_shape. Qed.
Print Assumptions C04_lookups_in_source.
