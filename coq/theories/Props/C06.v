(* C06 - Waiting for a resource during startup has no lost or false wake-ups. *)
From Coq Require Import List Bool Arith.
From Asphalt Require Import Conc.Skeleton Conc.Startup Conc.StartupProofs Conc.StartupTie Gen.Gen_compctx.
Import ListNotations.

(* no lost wake-up: at every quiescent point of every run, a component is blocked in a
   non-optional get_resource only if what it waits for is not in the surrounding context *)
Theorem C06_no_lost_wakeup : forall P s c k,
  quiescent P s -> c < length P -> blocked_on (ph s c) = Some k -> tfind k (table s) = None.
Proof. exact no_lost_wakeup. Qed.
Print Assumptions C06_no_lost_wakeup.

(* no false wake-up, right object: a blocked component resumes only by a transition that finds its
   own (type, name) in the surrounding context, and receives exactly the object stored there *)
Theorem C06_no_false_wakeup : forall P s c k s' o,
  blocked_on (ph s c) = Some k -> silent P s c = Some (s', o) ->
  exists v o', tfind k (table s) = Some v /\ o = Got c k (Some v) :: o'.
Proof. exact wakeup_only_when_published. Qed.
Print Assumptions C06_no_false_wakeup.

(* a publication under another type or another name is invisible to the waiter's lookup ... *)
Theorem C06_other_publications_irrelevant : forall k l l',
  (forall kv, In kv l' -> key_eqb k (fst kv) = false) -> tfind k (l ++ l') = tfind k l.
Proof. exact tfind_app_other. Qed.
Print Assumptions C06_other_publications_irrelevant.

(* ... and what has been published stays bound to the same object *)
Theorem C06_published_stays : forall k v l l', tfind k l = Some v -> tfind k (l ++ l') = Some v.
Proof. exact tfind_app_stable. Qed.
Print Assumptions C06_published_stays.

(* optional lookups never wait: they are one atomic action answered from the table as it is *)
Theorem C06_optional : forall P cc c b t name r s,
  snd (fst (run_acts P cc c b (GetOpt t name :: r) s)) =
  snd (fst (run_acts P cc c b r (note_gen s (tfind (t, name) (table s))))).
Proof. exact optional_never_waits. Qed.
Print Assumptions C06_optional.

(* ComponentContext.get_resource as read from the source on this run: optional never waits; otherwise one lookup
   and, if that finds nothing for THE REQUESTED pair (a factory's own missing dependency is passed on), a wait for a resource_added event carrying the requested NAME whose types CONTAIN
   the requested type, then the lookup again -- all on the surrounding context *)
Theorem C06_waiting_lookup_in_source :
  cc_delegates_to_surrounding_context = true /\ cc_optional_never_waits = true /\
  cc_lookup_before_waiting = true /\ cc_waits_only_when_the_requested_resource_is_missing = true /\
  cc_wait_filters_by_name = true /\
  cc_wait_filters_by_type_membership = true /\ cc_lookup_again_after_wake = true.
Proof. exact component_context_source_shape. Qed.
Print Assumptions C06_waiting_lookup_in_source.

(* default-name remapping via the alias (computed from add_resource / add_resource_factory of the component's
   view as read on this run) *)
Theorem C06_default_name_remapping : forall cc n,
  eff_name cc true 0 = dname cc /\ eff_name_fac cc true 0 = dname cc /\
  eff_name cc false n = n /\ eff_name_fac cc false n = n /\
  eff_name cc true (S n) = S n /\ eff_name_fac cc true (S n) = S n.
Proof. exact default_name_remapping. Qed.
Print Assumptions C06_default_name_remapping.
