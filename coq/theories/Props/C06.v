(* C06 - Waiting for a resource during startup has no lost or false wake-ups. *)
From Coq Require Import List Bool Arith.
From Asphalt Require Import Conc.Skeleton Conc.Startup Conc.StartupProofs.
Import ListNotations.

(* no lost wake-up: at every quiescent point of every run, a component is blocked in a
   non-optional get_resource only if what it waits for is not in the surrounding context *)
Theorem C06_no_lost_wakeup : forall P s c k,
  quiescent P s -> c < length P -> blocked_on (ph s c) = Some k -> tfind k (table s) = None.
Proof. exact no_lost_wakeup. Qed.
Print Assumptions C06_no_lost_wakeup.

(* no false wake-up, right object: a blocked component resumes only by a transition that finds its
   own (type, name) in the surrounding context, and receives exactly the object stored there *)
Theorem C06_no_false_wakeup : forall P s c k s' o,
  blocked_on (ph s c) = Some k -> silent P s c = Some (s', o) ->
  exists v o', tfind k (table s) = Some v /\ o = Got c k (Some v) :: o'.
Proof. exact wakeup_only_when_published. Qed.
Print Assumptions C06_no_false_wakeup.

(* a publication under another type or another name is invisible to the waiter's lookup ... *)
Theorem C06_other_publications_irrelevant : forall k l l',
  (forall kv, In kv l' -> key_eqb k (fst kv) = false) -> tfind k (l ++ l') = tfind k l.
Proof. exact tfind_app_other. Qed.
Print Assumptions C06_other_publications_irrelevant.

(* ... and what has been published stays bound to the same object *)
Theorem C06_published_stays : forall k v l l', tfind k l = Some v -> tfind k (l ++ l') = Some v.
Proof. exact tfind_app_stable. Qed.
Print Assumptions C06_published_stays.

(* optional lookups never wait: they are one atomic action answered from the table as it is *)
Theorem C06_optional : forall P cc c b t name r s,
  snd (fst (run_acts P cc c b (GetOpt t name :: r) s)) =
  snd (fst (run_acts P cc c b r (note_gen s (tfind (t, name) (table s))))).
Proof. exact optional_never_waits. Qed.
Print Assumptions C06_optional.
