(* C07 - A failing or stalling component aborts startup cleanly with a precise error. *)
From Coq Require Import List Bool Arith.
From Asphalt Require Import Conc.Skeleton Conc.Startup Conc.StartupProofs Conc.StartupTie Gen.Gen_startup.
Import ListNotations.

(* a failing component aborts with ComponentStartError(phase, that component) from the original
   exception; every other running component is cancelled in the same step *)
Theorem C07_error : forall P cc c b e r s,
  run_acts P cc c b (Fail e :: r) s =
  (fst (abort P s c b (CExc e)), snd (abort P s c b (CExc e)), None, true).
Proof. exact fail_aborts. Qed.
Print Assumptions C07_error.

Theorem C07_abort_keeps_registrations : forall P s f b c,
  status_of (fst (abort P s f b c)) = Aborted f b c /\ tds (fst (abort P s f b c)) = tds s
  /\ table (fst (abort P s f b c)) = table s.
Proof. exact abort_status. Qed.
Print Assumptions C07_abort_keeps_registrations.

(* once start_component has raised (failure or timeout) or returned, nothing is enabled and no gate
   does anything: no part of the tree runs or begins to run afterwards *)
Theorem C07_stopped : forall P s g, is_running s = false -> enabled P s = [] /\ fire P s g = (s, []).
Proof. exact stopped_means_stopped. Qed.
Print Assumptions C07_stopped.

(* the start() of no ancestor of the failed component runs -- in the whole run, for every tree,
   failing component, phase and schedule *)
Theorem C07_ancestors : forall P timeout gs s tr f b ca a,
  prog_ok P -> start_run P timeout gs = (s, tr) -> status_of s = Aborted f b ca ->
  desc (shape_of P) a f -> ~ In (SB a) tr.
Proof. exact failure_keeps_ancestors_unstarted. Qed.
Print Assumptions C07_ancestors.

(* the timeout, at any quiescent point of a running startup: TimeoutError, everything stopped, the
   registrations kept; a startup that has finished is not affected (C07_stopped) *)
Theorem C07_timeout : forall P s, is_running s = true -> armed s = true ->
  status_of (fst (fire P s GTimeout)) = TimedOut /\ enabled P (fst (fire P s GTimeout)) = [] /\
  tds (fst (fire P s GTimeout)) = tds s.
Proof. exact timeout_aborts. Qed.
Print Assumptions C07_timeout.

(* the status a run ends with is backed by the phases: Done only with the root started, Aborted f
   only with f in the phase named by the error *)
Theorem C07_status_sound : forall P timeout gs,
  let '(s, tr) := start_run P timeout gs in sok s /\ length (phs s) = length P.
Proof. exact run_sok. Qed.
Print Assumptions C07_status_sound.

(* an Exception (only) out of prepare() / start() is wrapped into ComponentStartError carrying the phase word
   of that block, the component's path and class -- as read from _start_component on this run *)
Theorem C07_error_wrapping_in_source :
  startup_prepare_phase_word_ok = true /\ startup_start_phase_word_ok = true /\ startup_wraps_exceptions_only = true.
Proof. exact error_wrapping_in_source. Qed.
Print Assumptions C07_error_wrapping_in_source.
