(* C08 - Service tasks are stopped at teardown before anything they may depend on. *)
From Coq Require Import List Bool Arith.
From Asphalt Require Import Conc.Service Conc.ServiceProofs Conc.ServiceStop Conc.ServiceFuel Td.Lifecycle Gen.Gen_lifecycle Gen.Gen_service.
Import ListNotations.

(* For every set of service tasks (any teardown action and behaviour), every program of
   registrations in which each callback / task is registered once, and EVERY schedule: a teardown
   callback registered before a service task was started runs only after that task and its own
   context have completely finished *)
Theorem C08_before : forall SV prog, NoDup (items prog) -> forall gs s tr l1 c l2 sid l3,
  run_gates SV prog (init SV prog) [] gs = (s, tr) ->
  regs s = l1 ++ ICb c :: l2 ++ ISvc sid :: l3 -> before (EFin sid) (ECb c) (proj tr).
Proof. exact finished_before_earlier_callbacks. Qed.
Print Assumptions C08_before.

(* ... and the finalizer of an EARLIER service task is such a callback too: for every program and EVERY schedule,
   a service task is told to stop -- cancelled by its finalizer, or its teardown callable invoked -- only after
   every service task started after it, and that task's own context, has completely finished (batching the
   cancellations of a context's tasks breaks exactly this) *)
Theorem C08_stop_order : forall SV prog, NoDup (items prog) -> forall gs s tr l1 early l2 later l3,
  run_gates SV prog (init SV prog) [] gs = (s, tr) ->
  regs s = l1 ++ ISvc early :: l2 ++ ISvc later :: l3 ->
  forall n x, nth_error tr n = Some x -> is_stop early x = true -> In (Finished later) (firstn n tr).
Proof. exact stopped_only_after_later_tasks_finished. Qed.
Print Assumptions C08_stop_order.

(* nobody is told to stop while the owning block is still running *)
Theorem C08_no_stop_inside_the_block : forall SV prog, NoDup (items prog) -> forall gs s tr rest,
  run_gates SV prog (init SV prog) [] gs = (s, tr) -> own s = InBlock rest -> quiet tr.
Proof. exact nobody_stopped_inside_the_block. Qed.
Print Assumptions C08_no_stop_inside_the_block.

(* no service task is still running once the owning `async with` block has been left *)
Theorem C08_none_left : forall SV prog, NoDup (items prog) -> forall gs s tr sid,
  run_gates SV prog (init SV prog) [] gs = (s, tr) -> own s = OLeft -> In (ISvc sid) (regs s) ->
  ts s sid = TDone /\ In (EFin sid) (proj tr).
Proof. exact none_left_running. Qed.
Print Assumptions C08_none_left.

(* the whole invariant, for every run *)
Theorem C08_invariant : forall SV prog, NoDup (items prog) -> forall gs,
  let '(s, tr) := run_gates SV prog (init SV prog) [] gs in inv s (proj tr).
Proof. exact run_inv. Qed.
Print Assumptions C08_invariant.

(* the teardown action: 'cancel' cancels, None does nothing (the finalizer just waits), a callable
   is invoked exactly once and the task is cancelled iff the callable raised *)
Theorem C08_action_cancel : forall SV s sid, s_action (svc_of SV sid) = ACancel ->
  finalize_act SV s sid = cancel_task SV s sid.
Proof. exact action_cancel. Qed.
Print Assumptions C08_action_cancel.

Theorem C08_action_none : forall SV s sid, s_action (svc_of SV sid) = ANone -> finalize_act SV s sid = (s, []).
Proof. exact action_none. Qed.
Print Assumptions C08_action_none.

Theorem C08_action_call : forall SV s sid raises, s_action (svc_of SV sid) = ACall raises ->
  exists o, snd (finalize_act SV s sid) = ActionInvoked sid :: o /\ ~ In (ActionInvoked sid) o /\
            (raises = false -> ~ In (CancelSeen sid) o) /\
            (raises = true -> snd (cancel_task SV s sid) = o).
Proof. exact action_call_once. Qed.
Print Assumptions C08_action_call.

Theorem C08_cancel_is_observed : forall SV s sid,
  (exists k, ts s sid = TRun k) \/ ts s sid = TWait -> snd (cancel_task SV s sid) = [CancelSeen sid].
Proof. exact cancel_reaches_running_task. Qed.
Print Assumptions C08_cancel_is_observed.

(* the model's run-to-quiescence loop never runs out of fuel: every state a run reaches (any
   services, program and gate sequence) is settled -- no silent transition is left *)
Theorem C08_fuel_suffices : forall SV prog gs,
  let '(s, tr) := run_gates SV prog (init SV prog) [] gs in settled SV s.
Proof. exact fuel_suffices. Qed.
Print Assumptions C08_fuel_suffices.

(* the root context's task group, which hosts every service task, is left only after all teardown
   callbacks -- the finalizers of the service tasks among them -- have run, and inside
   coalesce_exceptions *)
Theorem C08_group_left_after_callbacks :
  unwinding false = [E_teardown_callbacks; E_task_group; E_coalesce; E_reset_current].
Proof. exact unwinding_root. Qed.
Print Assumptions C08_group_left_after_callbacks.

(* what the translator read from Context.start_service_task / run_background_task on this run, and the
   model's finalizer is computed from: the task is started through TaskGroup.start() in a context whose
   parent is the context whose method was called, the finalizer is registered on that context after the
   start has returned; it cancels for "cancel", calls a callable once (awaiting an awaitable result) and
   falls back on cancellation when that raises anything, and in every case waits for the task; the task's
   finished event is set in a finally clause after its own context has been left *)
Theorem C08_source_shape :
  svc_owner_is_self = true /\ svc_finalizer_on_self = true /\ svc_finalizer_registered_after_start = true /\
  svc_started_through_start = true /\ svc_cancel_action_cancels = true /\ svc_callable_called_once = true /\
  svc_awaits_awaitable = true /\ svc_fallback_cancel_when_action_raises = true /\
  svc_action_catches_base_exception = true /\ svc_waits_for_task = true /\
  bg_scope_encloses_context = true /\ bg_finished_in_finally_after_context = true.
Proof. exact service_source_shape. Qed.
Print Assumptions C08_source_shape.
