(* C02 - Resources are scoped to the context tree: snapshot down, nothing up or sideways.
   Only the property theorems; each closed by [exact] of a lemma proved elsewhere. *)
From Coq Require Import String List.
From Asphalt Require Import Ctx.ResModel Ctx.ResProofs Ctx.ResInv Ctx.ResHist Gen.Gen_lookup.
Import ListNotations.

(* The property itself, for every state s, every operation a addressed to a context c
   (successful or not, of any kind) and every continuation h2 (any length, any shape of the
   context forest): the run with the operation and the run without it agree on the whole
   record (tables, event log, teardown stack, lifecycle) of every context except c and the
   contexts created LATER from c or from such contexts.  Parent, ancestors, siblings,
   unrelated contexts and already existing children never see it. *)
Theorem C02_noninterference : forall (s : state) (c : nat) (a : action) (h2 : list op),
  agree (taint [c] h2 (nstep s (At c a))) (run (nstep s (At c a)) h2) (run s h2).
Proof. exact action_invisible_elsewhere. Qed.
Print Assumptions C02_noninterference.

(* the general unwinding form *)
Theorem C02_unwinding : forall (h2 : list op) (t : list nat) (s1 s2 : state),
  agree t s1 s2 -> agree (taint t h2 s1) (run s1 h2) (run s2 h2).
Proof. exact noninterference. Qed.
Print Assumptions C02_unwinding.

(* frame: an operation on c leaves every other context record untouched *)
Theorem C02_frame : forall (s : state) (c : nat) (a : action) (d : nat),
  d <> c -> nth_error (fst (step s (At c a))) d = nth_error s d.
Proof. exact step_frame. Qed.
Print Assumptions C02_frame.

Theorem C02_new_frame : forall (s : state) (p : option nat) (d : nat),
  d < length s -> nth_error (fst (step s (New p))) d = nth_error s d.
Proof. exact step_new_frame. Qed.
Print Assumptions C02_new_frame.

(* the only flow: a new context is the snapshot of its parent at creation time ... *)
Theorem C02_new_is_snapshot : forall (s : state) (p : nat) (px : ctx),
  nth_error s p = Some px ->
  nth_error (fst (step s (New (Some p)))) (length s) = Some (snapshot (length s) px).
Proof. exact step_new_snapshot. Qed.
Print Assumptions C02_new_is_snapshot.

(* ... which holds exactly the parent's static resources and its factory table *)
Theorem C02_snapshot_static : forall i p k c,
  find k (res p) = Some c -> cgen c = false -> find k (res (snapshot i p)) = Some c.
Proof. exact snapshot_static. Qed.
Print Assumptions C02_snapshot_static.

Theorem C02_snapshot_nothing_else : forall i p k c,
  find k (res (snapshot i p)) = Some c -> find k (res p) <> None /\ cgen c = false.
Proof. exact (fun i p k c H => conj (snapshot_only_parent i p k c H) (snapshot_no_generated i p k c H)). Qed.
Print Assumptions C02_snapshot_nothing_else.

Theorem C02_snapshot_factories : forall i p, facs (snapshot i p) = facs p.
Proof. exact snapshot_facs. Qed.
Print Assumptions C02_snapshot_factories.

(* all lookup paths agree: in every reachable state get_resources(t) lists exactly the pairs
   (name, object) that the table binds, which is what get_resource(_nowait) return *)
Theorem C02_paths_agree : forall (h : list op) (c : nat) (x : ctx) t n v,
  nth_error (run [] h) c = Some x ->
  (In (n, v) (get_resources x t) <-> exists r, find (t, n) (res x) = Some r /\ cvalue r = v).
Proof.
  exact (fun h c x t n v H =>
    get_resources_spec x t n v (proj1 (reachable_inv h [] init_inv c x H))).
Qed.
Print Assumptions C02_paths_agree.

Theorem C02_lookup_nowait_reads_table : forall x t name opt r,
  in_states (life x) [Open; Closing] = true ->
  find (t, name) (res x) = Some r -> local_step (AGetNowait t name opt) x = (x, Val (cvalue r)).
Proof. exact lookup_hit_nowait. Qed.
Print Assumptions C02_lookup_nowait_reads_table.

Theorem C02_lookup_async_reads_table : forall x tok t name opt r,
  in_states (life x) [Open; Closing] = true -> tok_used x tok = false ->
  find (t, name) (res x) = Some r -> local_step (AGetBegin tok t name opt) x = (x, Val (cvalue r)).
Proof. exact lookup_hit_async. Qed.
Print Assumptions C02_lookup_async_reads_table.

(* Context.__init__ as read from the source on this run (the model's `snapshot` is computed from it): a child
   copies its parent's resources except the generated ones, and all of its factories *)
Theorem C02_snapshot_in_source : init_skips_generated = true /\ init_copies_factories = true.
Proof. exact init_source_shape. Qed.
Print Assumptions C02_snapshot_in_source.
