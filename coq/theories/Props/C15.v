(* C15 - run_application: every ending tears down the root context, exits as documented. *)
From Coq Require Import List Bool Arith ZArith.
From Asphalt Require Import Gen.Gen_exitcode Gen.Gen_sighandler Conc.Runner Conc.RunnerProofs.
Import ListNotations.
Open Scope Z_scope.

(* however the application ends (any history of registrations, service tasks, failures, timeouts,
   signals, crashes, run() results), the teardown is the LIFO walk over everything registered on
   the root context: every callback once, in reverse order of registration *)
Theorem C15_full_teardown : forall cli h o out, app cli h = Some (o, out) ->
  exists a dead, o = teardown a dead (items h).
Proof. exact ends_with_full_teardown. Qed.
Print Assumptions C15_full_teardown.

(* ... including the callbacks that callbacks register during the teardown: LIFO *)
Theorem C15_lifo : forall cli h o out, app cli h = Some (o, out) -> td_ids o = run_order (items h).
Proof. exact callbacks_lifo. Qed.
Print Assumptions C15_lifo.

Theorem C15_reverse_order : forall cli h o out, app cli h = Some (o, out) -> no_kids (items h) ->
  td_ids o = rev (cb_ids (items h)).
Proof. exact callbacks_reverse_order. Qed.
Print Assumptions C15_reverse_order.

Theorem C15_exactly_once : forall cli h o out, app cli h = Some (o, out) ->
  NoDup (all_ids (items h)) ->
  NoDup (td_ids o) /\ (forall id, In id (td_ids o) <-> In id (all_ids (items h))).
Proof. exact callbacks_exactly_once. Qed.
Print Assumptions C15_exactly_once.

(* the documented outcomes *)
Theorem C15_startup_brought_down : forall cli h, no_crash h -> ~ In Started h ->
  In Fail h \/ In Hang h \/ In Sig h ->
  app cli h = Some (teardown ANone None (items h), OExit 1).
Proof. exact startup_brought_down. Qed.
Print Assumptions C15_startup_brought_down.

Theorem C15_cli_returns : forall pre mid r post, no_cause pre -> ~ In Started pre ->
  no_crash (started_history pre (mid ++ RunReturn r :: post)) -> no_run_end pre -> no_run_end mid ->
  let h := started_history pre (mid ++ RunReturn r :: post) in
  app true h = Some (teardown ANone None (items h), exit_of (code_of r)).
Proof. exact cli_returns. Qed.
Print Assumptions C15_cli_returns.

Theorem C15_exit_codes :
  exit_of (code_of RNone) = OReturn /\
  exit_of (code_of (RInt 0)) = OReturn /\
  (forall n, 1 <= n <= 127 -> exit_of (code_of (RInt n)) = OExit n) /\
  (forall n, n < 0 \/ 127 < n -> exit_of (code_of (RInt n)) = OExit 1) /\
  exit_of (code_of ROther) = OExit 1 /\
  exit_of (code_of (RBool true)) = OExit 1 /\ exit_of (code_of (RBool false)) = OReturn.
Proof. exact exit_codes. Qed.
Print Assumptions C15_exit_codes.

Theorem C15_cli_raises : forall pre mid e post, no_cause pre -> ~ In Started pre ->
  no_crash (started_history pre (mid ++ RunRaise e :: post)) -> no_run_end pre -> no_run_end mid ->
  let h := started_history pre (mid ++ RunRaise e :: post) in
  app true h = Some (teardown (AExc (XRun e)) None (items h), ORaised (XRun e)).
Proof. exact cli_raises. Qed.
Print Assumptions C15_cli_raises.

Theorem C15_plain_signal : forall pre mid post, no_cause pre -> ~ In Started pre ->
  no_crash (started_history pre (mid ++ Sig :: post)) ->
  let h := started_history pre (mid ++ Sig :: post) in
  app false h = Some (teardown ANone None (items h), OReturn).
Proof. exact plain_signal_after_startup. Qed.
Print Assumptions C15_plain_signal.

Theorem C15_plain_runs_until_told : forall pre mid, no_cause pre -> ~ In Started pre ->
  no_crash (started_history pre mid) -> ~ In Sig mid ->
  app false (started_history pre mid) = None.
Proof. exact plain_runs_until_told. Qed.
Print Assumptions C15_plain_runs_until_told.

Theorem C15_crash_after_startup : forall cli pre mid sid post, no_cause pre -> ~ In Started pre ->
  no_crash pre -> no_crash mid ->
  let h := started_history pre (mid ++ Crash sid :: post) in
  app cli h = Some (teardown ACancelled (Some sid) (items h), ORaised (XCrash sid)).
Proof. exact crash_after_startup. Qed.
Print Assumptions C15_crash_after_startup.

Theorem C15_crash_during_startup : forall cli pre sid post, ~ In Started (pre ++ Crash sid :: post) -> no_crash pre ->
  let h := pre ++ Crash sid :: post in
  app cli h = Some (teardown ANone (Some sid) (items h), ORaised (XCrash sid)).
Proof. exact crash_during_startup. Qed.
Print Assumptions C15_crash_during_startup.

Theorem C15_startup_continues : forall cli h, no_crash h -> no_cause h -> ~ In Started h -> app cli h = None.
Proof. exact startup_continues. Qed.
Print Assumptions C15_startup_continues.

(* the service tasks of the root context are cancelled and waited for at their place in the stack *)
Theorem C15_service_tasks_stopped : forall a stk, cancelled_ids (teardown a None stk) = rev (svc_ids stk).
Proof. exact teardown_cancelled. Qed.
Print Assumptions C15_service_tasks_stopped.

(* a callback registered with pass_exception is handed the exception that ended the block *)
Theorem C15_callback_argument : forall a dead stk id x, In (Td id x) (teardown a dead stk) -> x = a \/ x = ANoArg.
Proof. exact teardown_args. Qed.
Print Assumptions C15_callback_argument.

(* non-vacuity: a concrete history of each kind *)
Example C15_example_cli :
  app true [Reg 0 true []; Svc 0; Reg 1 false [(7%nat, true); (8%nat, false)]; Started; Reg 2 true []; RunReturn (RInt 5)] =
  Some ([Td 2 ANone; Td 1 ANoArg; Td 8 ANoArg; Td 7 ANone; SvcCancelled 0; Td 0 ANone], OExit 5).
Proof. vm_compute. reflexivity. Qed.
Example C15_example_crash :
  app false [Reg 0 true []; Svc 0; Svc 1; Started; Crash 0] =
  Some ([SvcCancelled 1; Td 0 ACancelled], ORaised (XCrash 0)).
Proof. vm_compute. reflexivity. Qed.

(* teardown callbacks that raise (any set `raisers` of callback ids): the teardown itself is what it would have
   been -- every callback still runs once, in reverse order, with the same argument --; without them nothing
   changes; with them run_application raises one group holding exactly the exceptions of the raising callbacks
   that ran, in the order in which they ran (plus the crash of a service task if that ended the application) *)
Theorem C15_raisers_do_not_change_the_teardown : forall cli raisers s o out,
  finish_r cli raisers s = Some (o, out) -> exists out0, finish cli s = Some (o, out0).
Proof. exact raisers_do_not_change_the_teardown. Qed.
Print Assumptions C15_raisers_do_not_change_the_teardown.

Theorem C15_without_raisers : forall cli s, finish_r cli [] s = finish cli s.
Proof. exact finish_r_without_raisers. Qed.
Print Assumptions C15_without_raisers.

Theorem C15_raising_callbacks_surface : forall cli raisers s o out,
  finish cli s = Some (o, out) -> raised_by raisers o <> [] ->
  finish_r cli raisers s =
  Some (o, ORaisedTd (raised_by raisers o) (match out with ORaised (XCrash sid) => Some sid | _ => None end)).
Proof. exact raising_callbacks_surface. Qed.
Print Assumptions C15_raising_callbacks_surface.

Theorem C15_raised_are_the_raisers_that_ran : forall raisers o id,
  In id (raised_by raisers o) <-> In id (ran o) /\ In id raisers.
Proof. exact raised_are_the_raisers_that_ran. Qed.
Print Assumptions C15_raised_are_the_raisers_that_ran.

(* handle_signals as read from the source on this run -- and what the model's `Sig` step is computed from: the
   handler is a service task of the root context started, inside the startup scope, before the components; on
   SIGTERM / SIGINT it cancels the startup scope (a startup still under way ends with the startup status) and sets
   the event a started plain application waits for; only the first signal is handled *)
Theorem C15_signal_handler_in_source :
  sig_handler_is_service_task_of_root = true /\ sig_handler_started_before_components = true /\
  sig_cancels_startup = true /\ sig_sets_event = true /\ sig_first_only = true /\
  plain_application_waits_for_event = true.
Proof. exact signal_handler_source_shape. Qed.
Print Assumptions C15_signal_handler_in_source.
