(* C05 - Component trees start in order: construct all, prepare, children, then start. *)
From Coq Require Import List Bool Arith.
From Asphalt Require Import Conc.Skeleton Conc.Startup Conc.StartupProofs Conc.StartupFuel Conc.StartupTie Gen.Gen_startup.
Import ListNotations.

(* For every component tree (pre-order numbering), every script of every method, every choice of
   timeout and EVERY sequence of gates the director may open (every schedule), the observation log
   of the run satisfies the ordering invariant of the control skeleton ... *)
Theorem C05_invariant : forall P timeout gs, prog_ok P ->
  let '(s, tr) := start_run P timeout gs in
  inv (shape_of P) (ranks s) (skel tr) /\ length (phs s) = length P.
Proof. exact run_invariant. Qed.
Print Assumptions C05_invariant.

(* ... in particular: prepare() of a component completes before any child begins *)
Theorem C05_prepare_before_children : forall P, prog_ok P -> forall timeout gs s tr d p pc,
  start_run P timeout gs = (s, tr) -> parent_of P d = Some p -> nth_error P p = Some pc -> has_prepare pc = true ->
  before (sPE p) (sPB d) (skel tr) /\ before (sPE p) (sSB d) (skel tr).
Proof. exact order_prepare_before_children. Qed.
Print Assumptions C05_prepare_before_children.

(* start() of a component begins only after start() and prepare() of EVERY descendant returned *)
Theorem C05_start_after_descendants : forall P, prog_ok P -> forall timeout gs s tr c d dc,
  start_run P timeout gs = (s, tr) -> desc (shape_of P) c d -> nth_error P d = Some dc ->
  (has_start dc = true -> before (sSE d) (sSB c) (skel tr)) /\
  (has_prepare dc = true -> before (sPE d) (sSB c) (skel tr)).
Proof. exact order_start_after_descendants. Qed.
Print Assumptions C05_start_after_descendants.

(* each method at most once in every run *)
Theorem C05_at_most_once : forall P, prog_ok P -> forall timeout gs s tr,
  start_run P timeout gs = (s, tr) -> NoDup (skel tr).
Proof. exact methods_at_most_once. Qed.
Print Assumptions C05_at_most_once.

Theorem C05_begin_before_end : forall P, prog_ok P -> forall timeout gs s tr c,
  start_run P timeout gs = (s, tr) -> before (sPB c) (sPE c) (skel tr) /\ before (sSB c) (sSE c) (skel tr) /\
  (match nth_error P c with Some cc => has_prepare cc = true | None => False end -> before (sPE c) (sSB c) (skel tr)).
Proof. exact begin_before_end. Qed.
Print Assumptions C05_begin_before_end.

(* ... and exactly once in every run in which start_component returns: every existing method of
   every component began and ended *)
Theorem C05_complete_run : forall P timeout gs s tr,
  prog_ok P -> connected P -> start_run P timeout gs = (s, tr) -> status_of s = Done ->
  forall c cc, nth_error P c = Some cc ->
    (has_prepare cc = true -> In (PB c) tr /\ In (PE c) tr) /\
    (has_start cc = true -> In (SB c) tr /\ In (SE c) tr).
Proof. exact done_means_all_started. Qed.
Print Assumptions C05_complete_run.

(* siblings start concurrently: at every quiescent point, once a component is starting its children
   every child has begun *)
Theorem C05_concurrent : forall P s p d,
  quiescent P s -> length (phs s) = length P -> parent_of P d = Some p -> rank (ph s p) = 2 ->
  rank (ph s d) <> 0.
Proof. exact children_begin_together. Qed.
Print Assumptions C05_concurrent.

(* the model's run-to-quiescence loop never runs out of fuel: every state a run reaches (any tree,
   scripts, timeout, gate sequence) is settled -- the startup has ended, or nothing silent is left
   to do -- so "at every quiescent point" above (and in C06) means "at every point of every run
   while the startup is running" *)
Theorem C05_fuel_suffices : forall P timeout gs, let '(s, tr) := start_run P timeout gs in settled P s.
Proof. exact fuel_suffices. Qed.
Print Assumptions C05_fuel_suffices.

Theorem C05_reached_is_quiescent : forall P timeout gs,
  let '(s, tr) := start_run P timeout gs in is_running s = true -> quiescent P s.
Proof. exact reached_is_quiescent. Qed.
Print Assumptions C05_reached_is_quiescent.

(* the blocks of _start_component, in the order in which they stand in the source on this run, are the
   model's phases in the model's order (prepare, then the children, then start), each exactly once; the
   children are all started in one task group before any of them is waited for *)
Theorem C05_source_order :
  map block_rank startup_sequence = [1; 2; 3] /\
  increasing (0 :: map block_rank startup_sequence ++ [rank Started]) = true.
Proof. exact source_blocks_are_the_phases. Qed.
Print Assumptions C05_source_order.

Theorem C05_source_shape :
  startup_only_overridden_hooks = true /\ startup_children_concurrent = true /\
  startup_prepare_phase_word_ok = true /\ startup_start_phase_word_ok = true /\
  startup_wraps_exceptions_only = true /\ startup_state_set_before_hook_call = true.
Proof. exact startup_source_shape. Qed.
Print Assumptions C05_source_shape.
