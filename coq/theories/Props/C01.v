(* C01 - Context teardown runs every callback exactly once, LIFO, one at a time. *)
From Coq Require Import List Bool Arith Permutation.
From Asphalt Require Import Td.TdModel Td.TdProofs Td.Lifecycle Gen.Gen_lifecycle Ctx.CtxBaseTie Gen.Gen_ctxbase.
Import ListNotations.

(* For every forest of callbacks (any number, any depth of callbacks registered during teardown),
   every block ending (return, exception, cancellation) and every subset of raising callbacks:
   the loop terminates and its trace and collected exceptions are exactly those of the LIFO
   specification -- each callback begins, with the argument it is entitled to, and ends before
   the next begins; a raising callback changes nothing for the others. *)
Theorem C01_lifo : forall fuel cancelled stack orig,
  sizes stack <= fuel ->
  teardown fuel cancelled stack orig =
  Some (spec_trace cancelled orig (lifo stack), spec_collected cancelled (lifo stack)).
Proof. exact teardown_spec. Qed.
Print Assumptions C01_lifo.

(* what was registered later runs first: for two callbacks pending at the same moment, the
   whole family of the later one precedes the whole family of the earlier one *)
Theorem C01_reverse_order : forall s1 a s2 b s3,
  exists p q r, lifo (s1 ++ a :: s2 ++ b :: s3) = p ++ lifo1 b ++ q ++ lifo1 a ++ r.
Proof. exact later_registered_runs_first. Qed.
Print Assumptions C01_reverse_order.

(* exactly once: the callbacks invoked are a permutation of all callbacks, registered before or
   during the teardown *)
Theorem C01_exactly_once : forall fuel cancelled stack orig tr ex,
  sizes stack <= fuel -> teardown fuel cancelled stack orig = Some (tr, ex) ->
  Permutation (begun tr) (map cb_id (all_of stack)).
Proof. exact invoked_exactly_once. Qed.
Print Assumptions C01_exactly_once.

(* one at a time: the trace is a sequence of Begin i / End i blocks *)
Theorem C01_sequential : forall cancelled orig order, sequential (spec_trace cancelled orig order) = true.
Proof. exact one_at_a_time. Qed.
Print Assumptions C01_sequential.

(* pass_exception callbacks receive exactly the exception that ended the block (None after a
   clean exit), whatever earlier callbacks raised; the others receive no argument *)
Theorem C01_argument : forall cancelled orig order i arg,
  In (Begin i arg) (spec_trace cancelled orig order) -> arg = None \/ arg = Some orig.
Proof. exact argument_is_the_blocks_exception. Qed.
Print Assumptions C01_argument.

(* every exception raised by a callback is collected, in order, none is lost *)
Theorem C01_all_raised : forall order,
  spec_collected false order = flat_map (fun c => match cb_raises c with Some e => [CE e] | None => [] end) order.
Proof. exact all_raised_collected. Qed.
Print Assumptions C01_all_raised.

(* ... and re-raised together in one group with the block's exception as cause *)
Theorem C01_one_group : forall block td,
  block <> Cancel -> td <> [] ->
  aexit false block (map CE td) = ORaise (Grp td) (orig_of block) /\
  aexit true block (map CE td) = ORaise (Grp [Grp td]) (orig_of block).
Proof. exact outcome_groups_callback_exceptions. Qed.
Print Assumptions C01_one_group.

(* no callback raised: the caller observes the block's own outcome; an ordinary Exception as
   itself, in root and child contexts *)
Theorem C01_outcome : forall is_root,
  aexit is_root Return [] = ONormal /\
  forall i, aexit is_root (Raise (Leaf i true)) [] = ORaise (Leaf i true) None.
Proof. exact outcome_is_the_blocks. Qed.
Print Assumptions C01_outcome.

(* leaving always terminates, with the context closed *)
Theorem C01_closed : forall is_root stack block,
  exists tr o, leave is_root stack block = Some (RR tr o true).
Proof. exact (fun r s b => ex_intro _ _ (ex_intro _ _ (leave_total r s b))). Qed.
Print Assumptions C01_closed.

(* the teardown callbacks are the first thing that happens when the block is left, in a root and
   in a child context (exit stack read from Context.__aenter__ on this run) *)
Theorem C01_callbacks_run_first : forall has_parent, exists rest, unwinding has_parent = E_teardown_callbacks :: rest.
Proof. exact callbacks_run_first. Qed.
Print Assumptions C01_callbacks_run_first.

(* shape of add_teardown_callback / _run_teardown_callbacks / __aexit__ as read from the source:
   registrations are appended, the loop pops the last entry until the list is empty, hands over the
   exception given to __aexit__, awaits awaitables, collects every BaseException in call order and
   raises one BaseExceptionGroup from the exit exception *)
Theorem C01_source_shape :
  aexit_closing_before_stack = true /\ aexit_records_exception_before_stack = true /\
  aexit_closed_in_finally = true /\ aexit_child_check_in_finally = true /\
  td_registers_at_end = true /\ td_pops_last = true /\ td_arg_is_exit_exception = true /\
  td_awaits_awaitable = true /\ td_catches_base_exception = true /\ td_collects_in_call_order = true /\
  td_group_is_base_group = true /\ td_cause_is_exit_exception = true.
Proof. exact lifecycle_shape. Qed.
Print Assumptions C01_source_shape.

(* @context_teardown as read from the source on this run: every CALL of the decorated function has its own generator
   and its own callback; the second half is registered (with pass_exception) only when the first half has reached
   its yield; the callback sends the exit exception in and always closes the generator *)
Theorem C01_context_teardown_in_source :
  ctxtd_state_per_call = true /\ ctxtd_registered_after_first_half_with_pass_exception = true /\
  ctxtd_generator_always_closed = true.
Proof. exact context_teardown_source_shape. Qed.
Print Assumptions C01_context_teardown_in_source.
