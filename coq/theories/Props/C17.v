(* C17 - merge_config is a pure, right-biased deep merge.
   This file contains only the property theorems; each is closed by [exact] of a lemma proved
   elsewhere and followed by Print Assumptions. *)
From Coq Require Import String List.
From Asphalt Require Import Config.Val Config.MergeSpec Config.MergeProofs Config.MergeSim Gen.Gen_merge Gen.Tie_merge.

(* (T) about the definition regenerated from the current text of merge_config: whatever the
   arguments, the heap, the depth: no dict object that existed before the call is written
   (so both arguments read back unchanged at every depth) and the result is a new object. *)
Theorem C17_pure : forall fuel h o v h' r,
  merge_config_gen fuel h o v = Some (h', r) ->
  (forall a, a < length h -> hget h' a = hget h a) /\
  (forall n x t, read n h x = Some t -> read n h' x = Some t) /\
  fresh_ref h h' r.
Proof. exact gen_args_unchanged. Qed.
Print Assumptions C17_pure.

(* (T) ... and it computes the pure merge: on EVERY heap (shared and aliased sub-dictionaries
   included), for any two values that read back as trees at any depth, the regenerated definition
   terminates with a new object that reads back as the pure merge of those trees (a non-dict or
   empty argument counting as {}), both arguments still reading as before.  The four theorems
   below, stated of the pure merge, therefore hold of the translated code. *)
Theorem C17_refines : forall n h vo vv to tv,
  read (S n) h vo = Some to -> read (S n) h vv = Some tv ->
  exists h' r, merge_config_gen (S (S n)) h vo vv = Some (h', r) /\
    read (S n) h' r = Some (TDict (merge_dict (as_dict to) (as_dict tv))) /\
    read (S n) h' vo = Some to /\ read (S n) h' vv = Some tv /\ fresh_ref h h' r.
Proof. exact gen_computes_merge. Qed.
Print Assumptions C17_refines.

(* every key of either input is present, and no other *)
Theorem C17_keys : forall o v k,
  In k (keys (merge o v)) <-> In k (keys (odict o)) \/ In k (keys (odict v)).
Proof. exact merge_keys. Qed.
Print Assumptions C17_keys.

(* dict/dict collisions merge recursively; otherwise the override wins, else the original *)
Theorem C17_values : forall o v k, NoDup (keys (odict v)) ->
  lookup k (merge o v) =
  match lookup k (odict o), lookup k (odict v) with
  | Some (TDict a), Some (TDict b) => Some (TDict (merge_dict a b))
  | _, Some x => Some x
  | x, None => x
  end.
Proof. exact merge_values. Qed.
Print Assumptions C17_values.

(* None behaves like {} on either side *)
Theorem C17_none : forall o v,
  merge None v = merge (Some nil) v /\ merge o None = merge o (Some nil) /\ merge o None = odict o.
Proof. exact merge_none_is_empty. Qed.
Print Assumptions C17_none.

(* the result is again a well-formed dictionary (unique keys) *)
Theorem C17_wf : forall o v, NoDup (keys (odict o)) -> NoDup (keys (merge o v)).
Proof. exact merge_wf. Qed.
Print Assumptions C17_wf.
