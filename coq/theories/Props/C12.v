(* C12 - current_context() follows strict per-task stack discipline. *)
From Coq Require Import List Bool Arith.
From Asphalt Require Import Conc.CurCtx Conc.CurCtxProofs Td.Lifecycle Gen.Gen_lifecycle Ctx.CtxBaseTie Gen.Gen_ctxbase.
Import ListNotations.

(* current_context() is the innermost context the observing task itself is in *)
Theorem C12_top : forall s t x, nth_error s t = Some x -> step s (Observe t) = (s, OCurrent (top x)).
Proof. exact observe_is_top. Qed.
Print Assumptions C12_top.

Theorem C12_enter : forall s t x,
  nth_error s t = Some x -> alive x = true ->
  exists c, snd (step s (Enter t)) = OEntered c (top x) /\
            forall x', nth_error (fst (step s (Enter t))) t = Some x' -> top x' = Some c.
Proof. exact enter_makes_current. Qed.
Print Assumptions C12_enter.

(* leaving a block by any route restores what was current before entry ... *)
Theorem C12_restore : forall s t x h,
  nth_error s t = Some x -> alive x = true ->
  let s1 := fst (step s (Enter t)) in
  exists x2, nth_error (fst (step s1 (Leave t h))) t = Some x2 /\ stack x2 = stack x /\
             snd (step s1 (Leave t h)) = OCurrent (top x).
Proof. exact leave_restores. Qed.
Print Assumptions C12_restore.

(* ... for every nesting depth and every interleaving with any number of other tasks: a history
   in which task t's blocks are properly nested (and everybody else does whatever they like in
   between) leaves t's stack exactly as it was *)
Theorem C12_restore_nested : forall t w, balanced t w ->
  forall s st, stack_of s t = Some (st, true) -> stack_of (run s w) t = Some (st, true).
Proof. exact balanced_restores. Qed.
Print Assumptions C12_restore_nested.

(* also for a context created earlier (its parent may differ from what is current at entry) *)
Theorem C12_restore_pre : forall s t x c p h,
  nth_error s t = Some x -> alive x = true -> pre x = Some (c, p) -> fst c = t ->
  let s1 := fst (step s (EnterPre t)) in
  snd (step s (EnterPre t)) = OEntered c p /\
  exists x2, nth_error (fst (step s1 (Leave t h))) t = Some x2 /\ stack x2 = stack x /\
             snd (step s1 (Leave t h)) = OCurrent (top x).
Proof. exact leave_restores_pre. Qed.
Print Assumptions C12_restore_pre.

(* a new context takes the context current at its creation as parent *)
Theorem C12_parent : forall s t x, nth_error s t = Some x -> snd (step s (NewCtx t)) = OParent (top x).
Proof. exact parent_is_current_at_creation. Qed.
Print Assumptions C12_parent.

(* a task inherits the context current where it was spawned; service tasks run in a fresh child *)
Theorem C12_inherit : forall s t x,
  nth_error s t = Some x -> alive x = true ->
  snd (step s (Spawn t SPlain)) = OSpawned (length s) (top x) None /\
  exists y, nth_error (fst (step s (Spawn t SPlain))) (length s) = Some y /\ top y = top x.
Proof. exact spawned_inherits. Qed.
Print Assumptions C12_inherit.

Theorem C12_service_context : forall s t x owner,
  nth_error s t = Some x -> alive x = true -> top x = Some owner ->
  snd (step s (Spawn t SService)) = OSpawned (length s) (Some (length s, 0)) (Some owner).
Proof. exact service_task_context. Qed.
Print Assumptions C12_service_context.

(* concurrently running tasks never observe or disturb each other's current context: an operation
   touches only its actor's record, and any history of other tasks leaves a task's record as is *)
Theorem C12_isolation_step : forall s o u, u <> actor o -> u < length s -> nth_error (fst (step s o)) u = nth_error s u.
Proof. exact step_frame. Qed.
Print Assumptions C12_isolation_step.

Theorem C12_isolation : forall h s u,
  u < length s -> (forall o, In o h -> actor o <> u) -> nth_error (run s h) u = nth_error s u.
Proof. exact others_invisible. Qed.
Print Assumptions C12_isolation.

(* while the teardown callbacks of a context run, the context is still the current one (and still
   listed by its parent, its task group still open); the current context is reset only afterwards,
   and after the exit nothing of it is left in place *)
Theorem C12_current_during_teardown : forall has_parent,
  seen_by_callbacks has_parent = Some (Around true has_parent (negb has_parent)).
Proof. exact callbacks_see_everything_in_place. Qed.
Print Assumptions C12_current_during_teardown.

Theorem C12_reset_on_exit : forall has_parent, after_exit has_parent = Around false false false.
Proof. exact everything_released. Qed.
Print Assumptions C12_reset_on_exit.

(* the same for EVERY exit stack on which the teardown callbacks are pushed last (whatever else is on it, in
   whatever order): what is pushed last is unwound first, with everything still in place; and that is where the
   source on this run pushes them *)
Theorem C12_pushed_last_sees_everything : forall l a, seen_from (rev (l ++ [E_teardown_callbacks])) a = Some a.
Proof. exact pushed_last_sees_everything. Qed.
Print Assumptions C12_pushed_last_sees_everything.

Theorem C12_teardown_callbacks_pushed_last : forall has_parent, exists l, exit_entries has_parent = l ++ [E_teardown_callbacks].
Proof. exact teardown_callbacks_pushed_last. Qed.
Print Assumptions C12_teardown_callbacks_pushed_last.

(* Context.__init__ / current_context() as read from the source on this run: a new context is inactive; its parent
   is the one given explicitly, else the creating task's current context; a component's view of the context is
   replaced by the real context behind it; current_context() reads the task's context variable *)
Theorem C12_context_creation_in_source :
  ctx_starts_inactive = true /\ ctx_explicit_parent_first = true /\ ctx_component_view_unwrapped = true /\
  ctx_task_group_shared_with_descendants = true /\ ctx_current_is_the_context_variable = true.
Proof. exact context_creation_source_shape. Qed.
Print Assumptions C12_context_creation_in_source.
