(* C14 - Component configuration is a layered deep merge that fully determines the tree. *)
From Coq Require Import String List Bool.
From Asphalt Require Import Config.Val Config.MergeSpec Config.MergeProofs Config.CompCfg Config.CompCfgProofs Gen.Gen_initcomp.
Import ListNotations.
Open Scope string_scope.
Open Scope list_scope.

(* For every class table [hard] (the add_component() calls of each constructor), every
   configuration and every depth: a component is constructed with exactly its configuration minus
   `type` and `components`, is of the class its type resolves to, and its children are built from
   the hard-coded child configuration deep-merged with, and overridden by, the external
   `components` section ... *)
Theorem C14_kwargs : forall hard f path cfg dn p c kw dn' ks,
  init_component hard (S f) path cfg dn = COk (Node p c kw dn' ks) ->
  p = path /\ dn' = dn /\ kw = remove "type" (remove "components" cfg) /\
  exists ty ext, lookup "type" cfg = Some ty /\ resolve ty = Some c /\ ext_children cfg = COk ext /\
                 kids_of hard f path (merge (Some (hard c)) ext) = COk ks.
Proof. exact node_spec. Qed.
Print Assumptions C14_kwargs.

(* ... one child per entry of that merge, in order, each built (recursively, by the same
   function) from its own entry, under `path.alias`, with the alias's default resource name *)
Theorem C14_children : forall hard f path l ks,
  kids_of hard f path l = COk ks ->
  length ks = length l /\
  forall i alias ccfg, nth_error l i = Some (alias, ccfg) ->
    exists d k, (ccfg = TNone /\ d = [] \/ ccfg = TDict d) /\ nth_error ks i = Some k /\
      init_component hard f (child_path path alias) (normalise alias d) (default_name_of alias) = COk k.
Proof. exact kids_spec. Qed.
Print Assumptions C14_children.

(* precedence per child: external overrides hard-coded, dictionaries merge recursively *)
Theorem C14_precedence : forall (hard : cls -> dict) c ext alias, NoDup (keys (odict ext)) ->
  lookup alias (merge (Some (hard c)) ext) =
  match lookup alias (hard c), lookup alias (odict ext) with
  | Some (TDict a), Some (TDict b) => Some (TDict (merge_dict a b))
  | _, Some x => Some x
  | x, None => x
  end.
Proof. exact child_config_precedence. Qed.
Print Assumptions C14_precedence.

(* components that appear only in the external configuration are created too *)
Theorem C14_config_only : forall (hard : cls -> dict) c ext alias,
  In alias (keys (merge (Some (hard c)) ext)) <-> In alias (keys (hard c)) \/ In alias (keys (odict ext)).
Proof. exact children_are_the_union. Qed.
Print Assumptions C14_config_only.

(* class, module:attr reference and entry-point name are equivalent *)
Theorem C14_type_spellings : forall k, k < n_classes ->
  resolve (TStr (ep_name k)) = Some k /\ resolve (TStr (ref_name k)) = Some k /\ resolve (class_obj k) = Some k.
Proof. exact spellings_agree. Qed.
Print Assumptions C14_type_spellings.

Theorem C14_spelling_irrelevant : forall hard f path cfg dn t1 t2,
  resolve t1 = resolve t2 ->
  init_component hard f path (set "type" t1 cfg) dn = init_component hard f path (set "type" t2 cfg) dn.
Proof. exact spelling_irrelevant. Qed.
Print Assumptions C14_spelling_irrelevant.

(* the type defaults to the alias; `kind/name` selects type `kind` ... *)
Theorem C14_default_type : forall alias d, lookup "type" d = None ->
  lookup "type" (normalise alias d) = Some (TStr (if has_slash alias then before_slash alias else alias)).
Proof. exact omitted_type_is_alias. Qed.
Print Assumptions C14_default_type.

Theorem C14_alias_parts : forall kind name,
  has_slash kind = false -> default_name_of (kind ++ String slash name) = name /\
                            before_slash (kind ++ String slash name) = kind.
Proof. exact default_name_of_alias. Qed.
Print Assumptions C14_alias_parts.

(* ... and makes resources added under the name `default` in start() -- not in prepare(), not
   explicitly named ones -- appear under `name` *)
Theorem C14_remap : forall ph given dn,
  remap ph given dn = if (match ph with Starting => true | _ => false end) && String.eqb given "default" then dn else given.
Proof. exact remap_spec. Qed.
Print Assumptions C14_remap.

(* _init_component as read from the source on this run: `type` and `components` are taken out before the
   constructor sees the rest; merge_config(hard-coded children, external children) -- the model's merge has its
   arguments in the order found there --; a child's configuration is None -> {}, or a COPY of the mapping (the
   caller's object is never written to); the alias is the default type, a string type keeps what precedes its
   first slash, the default resource name is what follows the alias's first slash *)
Theorem C14_init_component_in_source :
  ic_kwargs_exclude_type_and_components = true /\ ic_external_overrides_hardcoded = true /\
  ic_none_config_is_empty = true /\ ic_child_config_copied = true /\ ic_alias_is_default_type = true /\
  ic_type_keeps_what_precedes_slash = true /\ ic_default_name_follows_first_slash = true /\
  ic_children_in_merged_order = true.
Proof. exact init_component_source_shape. Qed.
Print Assumptions C14_init_component_in_source.
