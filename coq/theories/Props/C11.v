(* C11 - Every (instance, signal attribute) pair is an independent channel. *)
From Coq Require Import List Bool Arith.
From Asphalt Require Import Ev.SigModel Ev.SigProofs Gen.Gen_signal.
Import ListNotations.

(* accessing the attribute on the instance yields the same bound signal at every later point of
   every history *)
Theorem C11_identity : forall s i a c h,
  snd (access s i a) = c -> snd (access (srun (fst (access s i a)) h) i a) = c.
Proof. exact access_same_forever. Qed.
Print Assumptions C11_identity.

(* different attributes or different instances never share one, in any reachable state *)
Theorem C11_distinct : forall h k1 k2 c,
  lookup_bound k1 (bound (srun init h)) = Some c -> lookup_bound k2 (bound (srun init h)) = Some c -> k1 = k2.
Proof. exact (fun h k1 k2 c => access_injective (srun init h) k1 k2 c (reachable_bound_wf h)). Qed.
Print Assumptions C11_distinct.

(* the bound signal carries that instance and that attribute (source and topic of its events) *)
Theorem C11_carries_owner : forall h k c,
  lookup_bound k (bound (srun init h)) = Some c -> owner_of c (bound (srun init h)) = Some k.
Proof. exact (fun h k c => owner_of_lookup (bound (srun init h)) k c (reachable_bound_wf h)). Qed.
Print Assumptions C11_carries_owner.

(* an event dispatched on a channel changes only streams subscribed to THAT channel *)
Theorem C11_isolation : forall c e l i st,
  nth_error l i = Some st -> subscribed c st = false -> nth_error (fst (deliver_all c e l)) i = Some st.
Proof. exact not_subscribed_untouched. Qed.
Print Assumptions C11_isolation.

(* an event of the wrong class is rejected with TypeError and changes nothing *)
Theorem C11_typecheck : forall s c id cl i a,
  owner_of c (bound s) = Some (i, a) -> cls_sub cl (attr_cls a) = false ->
  burst s [(c, (id, cl))] = (s, [DTypeErr]).
Proof. exact type_error_noop. Qed.
Print Assumptions C11_typecheck.

(* using a signal through the class raises UnboundSignal and changes nothing *)
Theorem C11_unbound : forall s a h, sstep s (ClassUse a h) = (s, OUnbound).
Proof. exact class_use_unbound. Qed.
Print Assumptions C11_unbound.

(* the key of the table of bound signals as read from Signal.__get__ on this run -- the model's table is
   keyed the same way: (identity of the instance, attribute name); the instance only weakly referenced and
   the entry dropped with it *)
Theorem C11_table_in_source :
  sig_key_by_identity = true /\ sig_key_includes_topic = true /\
  sig_owner_weakly_referenced = true /\ sig_entry_dropped_with_owner = true.
Proof. exact signal_table_source_shape. Qed.
Print Assumptions C11_table_in_source.
