(* C18 - resource_added announces every publication exactly once, on the right context. *)
From Coq Require Import String List.
From Asphalt Require Import Ctx.ResModel Ctx.ResProofs Ctx.ResInv Ctx.ResHist Ctx.AddTie Gen.Gen_addres.
Import ListNotations.

(* only operations addressed to a context touch its record, hence its event log *)
Theorem C18_right_context : forall s c a d x,
  d <> c -> nth_error s d = Some x -> nth_error (fst (step s (At c a))) d = Some x.
Proof. exact evlog_only_own_operations. Qed.
Print Assumptions C18_right_context.

Theorem C18_new_context_silent : forall s p x,
  nth_error (fst (step s (New p))) (length s) = Some x -> evlog x = [].
Proof. exact evlog_new_context_empty. Qed.
Print Assumptions C18_new_context_silent.

(* any operation appends at most one event and never rewrites the past *)
Theorem C18_at_most_one : forall a x,
  exists l, evlog (fst (local_step a x)) = evlog x ++ l /\ length l <= 1.
Proof. exact evlog_prefix. Qed.
Print Assumptions C18_at_most_one.

Theorem C18_failed_silent : forall a x,
  is_err (snd (local_step a x)) = true -> evlog (fst (local_step a x)) = evlog x.
Proof. exact evlog_failed. Qed.
Print Assumptions C18_failed_silent.

Theorem C18_add_resource : forall x n vty name types desc cb,
  snd (local_step (AAddResource (Some n) vty name types desc cb) x) = OK ->
  evlog (fst (local_step (AAddResource (Some n) vty name types desc cb) x)) =
  evlog x ++ [REv (eff_types types vty) name desc false].
Proof. exact evlog_add_resource. Qed.
Print Assumptions C18_add_resource.

Theorem C18_add_factory : forall x f kind name types desc,
  snd (local_step (AAddFactory f kind name types desc) x) = OK ->
  evlog (fst (local_step (AAddFactory f kind name types desc) x)) = evlog x ++ [REv types name desc true].
Proof. exact evlog_add_factory. Qed.
Print Assumptions C18_add_factory.

Theorem C18_existing_lookup_silent : forall x t name opt r,
  find (t, name) (res x) = Some r ->
  evlog (fst (local_step (AGetNowait t name opt) x)) = evlog x /\
  forall tok, evlog (fst (local_step (AGetBegin tok t name opt) x)) = evlog x.
Proof. exact evlog_lookup_existing. Qed.
Print Assumptions C18_existing_lookup_silent.

(* a generation announces exactly the types it registers, once *)
Theorem C18_generation : forall x f v,
  evlog (store_generated x f v) =
  evlog x ++ match free_types x f with [] => [] | ts => [REv ts (fname f) (fdesc f) false] end.
Proof. exact evlog_store_generated. Qed.
Print Assumptions C18_generation.

(* in the source on this run the event is dispatched as the LAST stage of both methods, after every check and
   after the insertion (and the registration of the teardown callback): a call that fails dispatches nothing,
   and a listener that looks the resource up finds it *)
Theorem C18_dispatch_is_last :
  filter (fun a => negb (is_check a)) add_resource_stages = [A_insert; A_register_callback; A_dispatch] /\
  filter (fun a => negb (fac_is_check a)) add_factory_stages = [F_insert; F_dispatch].
Proof. exact add_effect_order. Qed.
Print Assumptions C18_dispatch_is_last.
