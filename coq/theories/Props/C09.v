(* C09 - Task factories: inherited context, exact handle set, teardown waits, errors kept. *)
From Coq Require Import List Bool Arith.
From Asphalt Require Import Conc.Factory Conc.FactoryProofs Conc.FactoryCancel Gen.Gen_service Gen.Gen_taskfactory.
Import ListNotations.

(* at every point of every run (any spawns, segments, cancellations, teardown moment, handler
   verdict) all_task_handles() is exactly the set of spawned tasks that have not finished *)
Theorem C09_live_exact : forall v gs s tr k,
  run_gates v init [] gs = (s, tr) -> (In k (handles s) <-> running s k = true).
Proof. exact handles_exact. Qed.
Print Assumptions C09_live_exact.

Theorem C09_invariant : forall v gs, let '(s, tr) := run_gates v init [] gs in hinv s.
Proof. exact run_inv. Qed.
Print Assumptions C09_invariant.

(* every task runs in a fresh child of the factory's own context, whoever spawned it *)
Theorem C09_context : forall v s b k p, In (Spawned k p) (snd (fire v s (GSpawn b))) -> p = true.
Proof. exact task_context. Qed.
Print Assumptions C09_context.

(* cancel() ends only that task *)
Theorem C09_cancel_one : forall v s k j, j <> k -> ph s = Open ->
  oncancel_of s k = None \/ swallowed v = true ->
  tstate_of (fst (fire v s (GCancel k))) j = tstate_of s j.
Proof. exact cancel_only_that_task. Qed.
Print Assumptions C09_cancel_one.

(* ... and it DOES end it, whenever it is called -- also straight after the spawn, before the task has run any of
   its segments: the task has ended (its finished event is set), it is no longer listed, it has observed the
   cancellation, and under every later schedule none of its segments runs *)
Theorem C09_cancel_ends_the_task : forall v s k n, ph s = Open \/ ph s = Closing -> tstate_of s k = TRun n -> oncancel_of s k = None ->
  let s' := fst (fire v s (GCancel k)) in
  tstate_of s' k = TEnded /\ ~ In k (handles s') /\
  (forall v', fire v' s' (GTask k) = (s', [])) /\
  ~ In (Seg k) (snd (fire v s (GCancel k))) /\ In (CancelSeen k) (snd (fire v s (GCancel k))).
Proof. exact cancelled_task_is_over. Qed.
Print Assumptions C09_cancel_ends_the_task.

(* an Exception that escapes a task while it is being cancelled is an escaping Exception *)
Theorem C09_cancelled_task_raising : forall v s k e n, ph s = Open -> tstate_of s k = TRun n -> oncancel_of s k = Some e ->
  (swallowed v = false -> ph (fst (fire v s (GCancel k))) = Crashed e) /\
  (forall verdict, v = Some verdict -> In (Handler k e) (snd (fire v s (GCancel k)))).
Proof. exact cancelled_task_raising. Qed.
Print Assumptions C09_cancelled_task_raising.

(* tearing the owning context down waits for -- does not cancel -- the running tasks *)
Theorem C09_teardown_waits : forall v s, ph s = Open ->
  tasks (fst (fire v s GTeardown)) = tasks s /\
  (ph (fst (fire v s GTeardown)) = Closed <-> handles s = []) /\
  ~ In (CancelSeen 0) (snd (fire v s GTeardown)) /\ (forall k, ~ In (CancelSeen k) (snd (fire v s GTeardown))).
Proof. exact teardown_waits. Qed.
Print Assumptions C09_teardown_waits.

Theorem C09_left_when_idle : forall s, ph s = Closing ->
  (snd (maybe_close s) = [OwnerLeft] <-> handles s = []).
Proof. exact owner_left_only_when_idle. Qed.
Print Assumptions C09_left_when_idle.

(* an escaping Exception reaches the handler exactly once; swallowed iff the verdict is truthy;
   otherwise -- and without a handler -- it takes the owning root context down *)
Theorem C09_handler : forall verdict s k b e, b_end b = ERaise e ->
  (exists o, snd (finish_task (Some verdict) s k b) = Handler k e :: o /\ forall k' e', ~ In (Handler k' e') o) /\
  (verdict = true -> ph (fst (finish_task (Some verdict) s k b)) = ph s) /\
  (verdict = false -> ph (fst (finish_task (Some verdict) s k b)) = Crashed e).
Proof. exact handler_verdict. Qed.
Print Assumptions C09_handler.

Theorem C09_no_handler : forall s k b e, b_end b = ERaise e -> ph (fst (finish_task None s k b)) = Crashed e.
Proof. exact no_handler_propagates. Qed.
Print Assumptions C09_no_handler.

(* what the translator read from run_background_task on this run: the task's cancel scope encloses its own
   context, whose parent is the context handed in (the factory's, not the spawner's); only an Exception goes to
   the handler, which is consulted iff there is one, and the exception is swallowed iff it returns something
   truthy; the finished event is set in a finally clause after the context has been left *)
Theorem C09_source_shape :
  bg_scope_encloses_context = true /\ bg_context_parent_is_given = true /\
  bg_started_before_target_without_status = true /\ bg_handler_for_exceptions_only = true /\
  bg_handler_consulted_iff_given = true /\ bg_swallowed_iff_truthy = true /\
  bg_finished_in_finally_after_context = true.
Proof. exact background_task_source_shape. Qed.
Print Assumptions C09_source_shape.

(* TaskFactory as read from the source on this run: the factory is a service task of the owner whose teardown
   action only sets an event; a handle is added before the spawn, taken out again when the spawn fails (both
   methods), and taken out in a finally clause when the task's wrapper ends; all_task_handles() copies the set *)
Theorem C09_task_factory_in_source :
  tf_is_a_service_task_of_the_owner = true /\ tf_teardown_only_sets_an_event = true /\
  tf_context_is_the_service_tasks = true /\ tf_handle_added_before_spawn = true /\
  tf_start_task_discards_on_failure = true /\ tf_start_task_soon_discards_on_failure = true /\
  tf_handle_removed_in_finally = true /\ tf_all_task_handles_is_a_copy = true.
Proof. exact task_factory_source_shape. Qed.
Print Assumptions C09_task_factory_in_source.

Theorem C09_failed_spawn_leaves_nothing : forall s b, failed_spawn s b = (s, [SpawnFailed]).
Proof. exact failed_spawn_leaves_nothing. Qed.
Print Assumptions C09_failed_spawn_leaves_nothing.
