(* C03 - One resource per (type, name) per context; failed adds change nothing. *)
From Coq Require Import String List.
From Asphalt Require Import Ctx.ResModel Ctx.ResProofs Ctx.ResInv Ctx.ResHist Ctx.AddTie Gen.Gen_addres.
Import ListNotations.

(* each pair resolves to at most one resource / factory: the tables of every context of
   every reachable state are functional *)
Theorem C03_functional : forall (h : list op) (c : nat) (x : ctx),
  nth_error (run [] h) c = Some x -> NoDup (kys (res x)) /\ NoDup (kys (facs x)).
Proof.
  exact (fun h c x H => let I := proj1 (reachable_inv h [] init_inv c x H) in
                        conj (inv_res_nodup x I) (inv_fac_nodup x I)).
Qed.
Print Assumptions C03_functional.

(* no operation whatsoever replaces or removes a binding *)
Theorem C03_stable : forall a x k r,
  find k (res x) = Some r -> find k (res (fst (local_step a x))) = Some r.
Proof. exact res_stable. Qed.
Print Assumptions C03_stable.

Theorem C03_factory_stable : forall a x k f,
  find k (facs x) = Some f -> find k (facs (fst (local_step a x))) = Some f.
Proof. exact fac_stable. Qed.
Print Assumptions C03_factory_stable.

(* a lookup that returns an object returns what its pair is bound to from then on *)
Theorem C03_lookup_binds : forall a x k v,
  ctx_inv x -> lookup_key x a = Some k -> snd (local_step a x) = Val v ->
  exists r, find k (res (fst (local_step a x))) = Some r /\ cvalue r = v.
Proof. exact lookup_binds. Qed.
Print Assumptions C03_lookup_binds.

(* once a lookup has returned an object for a pair, every later lookup of that pair in the
   same context that returns an object returns the same one -- for every history in between
   (any operations, in any context, including suspended and racing asynchronous lookups and
   resources added under the pair meanwhile) and every lookup API *)
Theorem C03_same_object_forever : forall s c x a1 k v h x2 a2 v2,
  state_inv s -> nth_error s c = Some x ->
  lookup_key x a1 = Some k -> snd (local_step a1 x) = Val v ->
  nth_error (run (nstep s (At c a1)) h) c = Some x2 ->
  lookup_key x2 a2 = Some k -> snd (local_step a2 x2) = Val v2 ->
  v2 = v.
Proof. exact lookups_agree_forever. Qed.
Print Assumptions C03_same_object_forever.

(* conflicts *)
Theorem C03_resource_conflict : forall x n vty name types desc cb,
  in_states (life x) [Open; Closing] = true ->
  let types_ := eff_types types vty in
  forallb ty_is_class types_ = true -> valid_name name = true -> cb <> BadCb ->
  existsb (taken (res x) name) types_ = true ->
  local_step (AAddResource (Some n) vty name types desc cb) x = (x, Err Conflict).
Proof. exact add_resource_conflict. Qed.
Print Assumptions C03_resource_conflict.

Theorem C03_factory_conflict : forall x f kind name types desc,
  life x = Open -> types <> [] -> valid_name name = true -> existsb ty_is_none types = false ->
  existsb (taken (facs x) name) types = true ->
  local_step (AAddFactory f kind name types desc) x = (x, Err Conflict).
Proof. exact add_factory_conflict. Qed.
Print Assumptions C03_factory_conflict.

(* an add_resource / add_resource_factory / add_teardown_callback call that raises, for any
   reason, leaves the WHOLE state (every table of every context, teardown stacks, event
   logs) exactly as it was *)
Theorem C03_failed_add_noop : forall s c a,
  is_add a = true -> is_err (snd (step s (At c a))) = true -> fst (step s (At c a)) = s.
Proof. exact failed_add_changes_nothing. Qed.
Print Assumptions C03_failed_add_noop.

(* add_resource / add_resource_factory as read from the source on this run (the model's add operations are
   interpreters over these stage lists): every check stands before every effect, so a call that fails --
   with any of the documented errors -- leaves the context exactly as it was *)
Theorem C03_checks_precede_effects :
  checks_first is_check add_resource_stages = true /\ checks_first fac_is_check add_factory_stages = true.
Proof. exact add_checks_precede_effects. Qed.
Print Assumptions C03_checks_precede_effects.

Theorem C03_failed_run_add_changes_nothing : forall x v types_ name desc cb e,
  snd (run_add add_resource_stages x v types_ name desc cb) = Err e ->
  fst (run_add add_resource_stages x v types_ name desc cb) = x.
Proof. exact failed_run_add_changes_nothing. Qed.
Print Assumptions C03_failed_run_add_changes_nothing.

Theorem C03_failed_add_factory_changes_nothing : forall x f kind name types desc e,
  snd (run_addfac add_factory_stages x f kind name types desc) = Err e ->
  fst (run_addfac add_factory_stages x f kind name types desc) = x.
Proof. exact failed_add_factory_changes_nothing. Qed.
Print Assumptions C03_failed_add_factory_changes_nothing.

(* the same for EVERY order of the stages in which no check stands behind an effect (and a teardown callback is
   registered only where it was checked to be callable): the property does not depend on the particular order
   of the checks, only on their standing before the effects *)
Theorem C03_failed_add_changes_nothing_for_any_order : forall l x v types_ name desc cb e,
  checks_first is_check l = true ->
  (cb = BadCb -> In A_callback_callable l \/ ~ In A_register_callback l) ->
  snd (run_add l x v types_ name desc cb) = Err e ->
  fst (run_add l x v types_ name desc cb) = x.
Proof. exact failed_add_changes_nothing_for_any_order. Qed.
Print Assumptions C03_failed_add_changes_nothing_for_any_order.

Theorem C03_failed_add_factory_changes_nothing_for_any_order : forall l x f kind name types desc e,
  checks_first fac_is_check l = true ->
  snd (run_addfac l x f kind name types desc) = Err e ->
  fst (run_addfac l x f kind name types desc) = x.
Proof. exact failed_add_factory_changes_nothing_for_any_order. Qed.
Print Assumptions C03_failed_add_factory_changes_nothing_for_any_order.
