(* C13 - Context lifecycle: usable only from entry to end of teardown, entered once. *)
From Coq Require Import String List Arith.
From Asphalt Require Import Ctx.ResModel Ctx.ResProofs Ctx.ResInv Ctx.ResHist Ctx.GuardTie Gen.Gen_guards Td.Lifecycle Gen.Gen_lifecycle Ctx.CtxBaseTie Gen.Gen_ctxbase.
Import ListNotations.

(* (T) the table of lifecycle states in which each guarded method is accepted, extracted from
   the current source on this run, is the model's table ... *)
Theorem C13_guard_table_is_the_sources : forall a m,
  method_of a = Some m -> allowed a = map st_of (allowed_gen m).
Proof. exact guard_table_tie. Qed.
Print Assumptions C13_guard_table_is_the_sources.

(* ... and says what the property says *)
Theorem C13_guard_table :
  map st_of (allowed_gen m_add_resource_factory) = [Open] /\
  map st_of (allowed_gen m_add_resource) = [Open; Closing] /\
  map st_of (allowed_gen m_get_resource) = [Open; Closing] /\
  map st_of (allowed_gen m_get_resource_nowait) = [Open; Closing] /\
  map st_of (allowed_gen m_add_teardown_callback) = [Open; Closing] /\
  map st_of (allowed_gen m_aenter) = [Inactive].
Proof. exact guard_table_content. Qed.
Print Assumptions C13_guard_table.

(* outside its allowed states an operation raises RuntimeError and changes nothing, anywhere *)
Theorem C13_rejected_noop : forall s c a x,
  nth_error s c = Some x -> in_states (life x) (allowed a) = false ->
  step s (At c a) = (s, match a with AExitEnd => patch s c a (Err RuntimeErr) | _ => Err RuntimeErr end).
Proof. exact rejected_changes_nothing. Qed.
Print Assumptions C13_rejected_noop.

(* inside them the guard never raises RuntimeError *)
Theorem C13_accepted : forall a x, in_states (life x) (allowed a) = true ->
  match a with
  | AEnter | AAddResource _ _ _ _ _ _ | AAddFactory _ _ _ _ _ | AGetNowait _ _ _ | AGetBegin _ _ _ _
  | AAddTeardown _ => snd (local_step a x) <> Err RuntimeErr
  | _ => True
  end.
Proof. exact guard_accepts_not_rt. Qed.
Print Assumptions C13_accepted.

(* a lookup that was allowed to begin and had to wait (another task is generating the resource) is not refused when
   it is resumed, whatever the state of the context by then: during teardown lookups stay allowed *)
Theorem C13_pending_lookup_not_refused : forall tok x, snd (local_step (AGetEnd tok) x) <> Err RuntimeErr.
Proof. exact pending_lookup_never_refused. Qed.
Print Assumptions C13_pending_lookup_not_refused.

(* entered once: entering succeeds exactly from the inactive state, and the lifecycle only
   moves forward (inactive < open < closing < closed) under every operation, so no history
   re-opens a context *)
Theorem C13_enter_once : forall x, snd (local_step AEnter x) = OK <-> life x = Inactive.
Proof. exact enter_once. Qed.
Print Assumptions C13_enter_once.

Theorem C13_monotone : forall a x, rank (life x) <= rank (life (fst (local_step a x))).
Proof. exact life_monotone. Qed.
Print Assumptions C13_monotone.

Theorem C13_monotone_history : forall h s c x x',
  nth_error s c = Some x -> nth_error (run s h) c = Some x' -> rank (life x) <= rank (life x').
Proof. exact life_monotone_run. Qed.
Print Assumptions C13_monotone_history.

(* `closed` is exactly "teardown has begun": false in inactive/open, true from closing on *)
Theorem C13_closed_flag : forall x, closed_flag x = Nat.leb 2 (rank (life x)).
Proof. exact closed_flag_rank. Qed.
Print Assumptions C13_closed_flag.

(* the end of teardown closes the context (the model's ExitEnd is reached whether or not
   callbacks raised: the harness checks that the implementation reaches it too) *)
Theorem C13_exit_closes : forall x, life x = Closing -> life (fst (local_step AExitEnd x)) = Closed.
Proof. exact exit_end_closes. Qed.
Print Assumptions C13_exit_closes.

(* leaving a context while a child entered from it is still open is reported -- whichever
   context it is and however its block ended *)
Theorem C13_open_child_reported : forall s c x,
  nth_error s c = Some x -> life x = Closing -> has_open_child s c = true ->
  exists ran, snd (step s (At c AExitEnd)) = Exited ran true.
Proof. exact open_child_reported. Qed.
Print Assumptions C13_open_child_reported.

(* a child context leaves its parent's registry of open children as the very last step of its
   exit, after its teardown callbacks and after the current context has been reset *)
Theorem C13_child_deregistered_last :
  unwinding true = [E_teardown_callbacks; E_reset_current; E_child_deregister].
Proof. exact unwinding_child. Qed.
Print Assumptions C13_child_deregistered_last.

(* __aexit__ sets `closing` before unwinding and `closed` (and checks for open children) in a
   finally clause, i.e. also when the unwinding raises *)
Theorem C13_exit_statement_order :
  aexit_closing_before_stack = true /\ aexit_closed_in_finally = true /\ aexit_child_check_in_finally = true.
Proof. exact exit_statement_order. Qed.
Print Assumptions C13_exit_statement_order.

(* Context.closed and the lifecycle guard as read from the source on this run: a context starts inactive, `closed`
   is true exactly in the states closing and closed, and a guarded method called in a state it does not accept
   raises RuntimeError naming that state *)
Theorem C13_closed_and_guard_in_source :
  ctx_starts_inactive = true /\ ctx_closed_iff_closing_or_closed = true /\ ctx_guard_raises_runtimeerror_per_state = true.
Proof. exact closed_and_guard_source_shape. Qed.
Print Assumptions C13_closed_and_guard_in_source.
