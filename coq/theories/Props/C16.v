(* C16 - asphalt run: documented config precedence and deterministic service selection. *)
From Coq Require Import String List Bool.
From Asphalt Require Import Config.Val Config.MergeSpec Config.MergeProofs Config.CliModel Config.CliProofs Gen.Gen_cli.
Import ListNotations.
Open Scope string_scope.
Open Scope list_scope.

(* files are deep-merged in order: each further file is merged OVER what came before
   (merge is the specification C17 proves merge_config to refine; its laws -- later wins per
   key, dicts merge recursively -- apply at every step) *)
Theorem C16_files : forall files f,
  files_config (files ++ [f]) = merge (Some (files_config files)) (Some f).
Proof. exact files_config_snoc. Qed.
Print Assumptions C16_files.

(* a --set override makes exactly its path read back its value ... *)
Theorem C16_set : forall ks d v d',
  ks <> [] -> set_path d ks v = Some d' -> get_path d' ks = Some v.
Proof. exact set_path_get. Qed.
Print Assumptions C16_set.

(* ... and touches nothing else: every path diverging from it reads as before, whatever the
   files said there *)
Theorem C16_set_frame : forall ks d v d' qs,
  set_path d ks v = Some d' -> diverge ks qs -> get_path d' qs = get_path d qs.
Proof. exact set_path_frame. Qed.
Print Assumptions C16_set_frame.

Theorem C16_later_override_wins : forall ks d v1 v2 d1 d2,
  ks <> [] -> set_path d ks v1 = Some d1 -> set_path d1 ks v2 = Some d2 -> get_path d2 ks = Some v2.
Proof. exact later_override_wins. Qed.
Print Assumptions C16_later_override_wins.

(* it fails only when an intermediate value exists and is not a mapping *)
Theorem C16_set_error : forall ks d v,
  set_path d ks v = None ->
  exists pre k post x, ks = pre ++ k :: post /\ post <> [] /\
                       get_path d (pre ++ [k]) = Some x /\ (forall s, x <> TDict s).
Proof. exact set_path_fails_only_on_non_mapping. Qed.
Print Assumptions C16_set_error.

(* dots separate keys: a key written as parts joined by dots splits back into the parts *)
Theorem C16_split : forall parts,
  parts <> [] -> forallb no_special parts = true -> split_key (join_dots parts) = parts.
Proof. exact split_join_plain. Qed.
Print Assumptions C16_split.

(* the selection ladder: --service, else ASPHALT_SERVICE, else the only service, else `default`;
   otherwise -- or if the named service does not exist -- an error *)
Theorem C16_select : forall flag env services,
  select_service flag env services =
  match services, requested flag env with
  | [], _ => Fail ENoServices
  | _, Some name => match lookup name services with Some c => Ok c | None => Fail EServiceUndefined end
  | [(_, c)], None => Ok c
  | _, None => match lookup "default" services with Some c => Ok c | None => Fail EMultiNoDefault end
  end.
Proof. exact select_spec. Qed.
Print Assumptions C16_select.

Theorem C16_flag_beats_env : forall f env, f <> EmptyString -> requested (Some f) env = Some f.
Proof. exact flag_beats_env. Qed.
Print Assumptions C16_flag_beats_env.

(* what reaches run_application: the selected service's section merged OVER the remaining
   top-level keys; the result type makes "an error starts nothing" explicit *)
Theorem C16_final : forall files ovs flag env l,
  cli files ovs flag env = Ok l ->
  exists config1 top services svc osvc rc,
    fold_left apply_override ovs (Ok (files_config files)) = Ok config1 /\
    select_service flag env services = Ok svc /\ as_odict svc = Ok osvc /\
    lookup "component" (merge (Some top) osvc) = Some (TDict rc) /\
    lookup "type" rc = Some (l_type l) /\ l_root_cfg l = remove "type" rc /\
    l_options l = remove "backend_options" (remove "backend" (remove "component" (merge (Some top) osvc))).
Proof. exact cli_launch_shape. Qed.
Print Assumptions C16_final.

(* _cli.run as read from the source on this run (the model's precedences are computed from it): the files in
   order, a later one over an earlier one; then the --set overrides, each split at its FIRST `=`, its key at
   unescaped dots, missing sections created; the service named by the flag before the one named by the
   environment variable; the selection ladder; the selected service merged OVER the top level *)
Theorem C16_run_in_source :
  cli_steps_in_documented_order = true /\ cli_later_file_wins = true /\
  cli_override_split_at_first_equals = true /\ cli_key_split_at_unescaped_dots = true /\
  cli_missing_sections_created = true /\ cli_flag_beats_env = true /\
  cli_selection_ladder_as_documented = true /\ cli_service_overrides_top_level = true /\
  cli_default_backend_is_asyncio = true.
Proof. exact cli_source_shape. Qed.
Print Assumptions C16_run_in_source.
