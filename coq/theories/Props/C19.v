(* C19 - @inject is equivalent to explicit lookups in the current context. *)
From Coq Require Import String List Bool.
From Asphalt Require Import Ctx.ResModel Ctx.ResProofs Ctx.ResInv Ctx.InjectModel Ctx.InjectProofs Gen.Gen_inject.
Import ListNotations.
Open Scope string_scope.
Open Scope list_scope.

(* For every signature, every context state and both function kinds: when every lookup succeeds,
   the decorated call runs the body with each injected parameter bound to exactly what the explicit
   lookups (get_resource_nowait for plain, get_resource for coroutine functions; optional iff the
   annotation is Optional) return, in order, and leaves the context exactly as they leave it *)
Theorem C19_equiv : forall ds c tok x,
  existsb bad_union ds = false ->
  forallb is_value (snd (explicit c tok ds x)) = true ->
  call ds c tok x = (fst (explicit c tok ds x), IBody (snd (explicit c tok ds x))).
Proof. exact inject_equiv. Qed.
Print Assumptions C19_equiv.

(* when some lookup raises, that first exception is what the call raises and the body never runs *)
Theorem C19_first_failure : forall c ds1 d ds2 tok x e,
  existsb bad_union (ds1 ++ d :: ds2) = false ->
  forallb is_value (snd (explicit c tok ds1 x)) = true ->
  snd (local_step (lookup_action c (tok + length ds1) d) (fst (explicit c tok ds1 x))) = Err e ->
  snd (call (ds1 ++ d :: ds2) c tok x) = IRaised e.
Proof. exact inject_first_failure. Qed.
Print Assumptions C19_first_failure.

Theorem C19_missing : forall x t name c tok,
  in_states (life x) [Open; Closing] = true -> tok_used x tok = false ->
  find (t, name) (res x) = None -> find (t, name) (facs x) = None ->
  call [Dep name (ATy t)] c tok x = (x, IRaised NotFound).
Proof. exact inject_missing. Qed.
Print Assumptions C19_missing.

Theorem C19_optional : forall x t name c tok,
  in_states (life x) [Open; Closing] = true -> tok_used x tok = false ->
  find (t, name) (res x) = None -> find (t, name) (facs x) = None ->
  call [Dep name (AOpt t)] c tok x = (x, IBody [NoneVal]).
Proof. exact inject_optional_none. Qed.
Print Assumptions C19_optional.

(* positional-only, unannotated or un-called markers are rejected when the decorator is applied,
   wherever they stand; every other signature is accepted with its markers as dependencies in order *)
Theorem C19_reject : forall sig c, existsb offending sig = true -> decorate sig c = Rejected.
Proof. exact decorate_rejects. Qed.
Print Assumptions C19_reject.

Theorem C19_accept : forall sig c, existsb offending sig = false ->
  decorate sig c = match deps_of sig with [] => Unchanged | ds => Wrapper ds c end.
Proof. exact decorate_accepts. Qed.
Print Assumptions C19_accept.

(* injected lookups are ordinary steps of the resource-table model: the invariants behind
   C02-C04 are preserved, so static, factory-made and inherited resources behave alike *)
Theorem C19_same_tables : forall ds c tok x,
  ctx_inv x -> pending_ok x -> ctx_inv (fst (call ds c tok x)) /\ pending_ok (fst (call ds c tok x)).
Proof. exact call_preserves_invariants. Qed.
Print Assumptions C19_same_tables.

(* the explicit call each injected parameter stands for, as read from inject() on this run: a plain function
   looks its dependencies up with get_resource_nowait, a coroutine function awaits get_resource; optional=True
   exactly for the parameters declared Optional *)
Theorem C19_the_explicit_calls : forall tok name t,
  lookup_action false tok (Dep name (ATy t)) = AGetNowait t name false /\
  lookup_action false tok (Dep name (AOpt t)) = AGetNowait t name true /\
  lookup_action true tok (Dep name (ATy t)) = AGetBegin tok t name false /\
  lookup_action true tok (Dep name (AOpt t)) = AGetBegin tok t name true.
Proof. exact the_explicit_calls. Qed.
Print Assumptions C19_the_explicit_calls.

Theorem C19_inject_in_source :
  inj_context_at_call_time = true /\ inj_in_signature_order = true /\ inj_added_as_keywords = true /\
  inj_sync_uses_nowait = true /\ inj_async_awaits_get_resource = true /\ inj_scan_as_documented = true.
Proof. exact inject_source_shape. Qed.
Print Assumptions C19_inject_in_source.
