(* Non-vacuity of the hypotheses of the C09 theorems: concrete gate sequences reach states with
   `ph s = Open` and several running tasks (one of which raises when cancelled), a swallowed and an
   unswallowed exception, a teardown that waits for a running task. *)
From Coq Require Import List Bool Arith.
From Asphalt Require Import Conc.Factory Conc.FactoryProofs.
Import ListNotations.

Definition gs3 : list gate :=
  [GSpawn (Beh 2 EReturn None); GSpawn (Beh 1 (ERaise 7) None); GSpawn (Beh 3 EReturn (Some 9));
   GTask 0; GTask 1; GCancel 2; GTeardown; GTask 0].

(* three tasks running in an open factory; task 2 raises 9 when cancelled *)
Example three_running :
  let s := fst (run_gates None init [] (firstn 3 gs3)) in
  ph s = Open /\ handles s = [0; 1; 2] /\ tstate_of s 2 = TRun 3 /\ oncancel_of s 2 = Some 9 /\ oncancel_of s 0 = None.
Proof. vm_compute. repeat split. Qed.

(* a handler that swallows: the exception of task 1 and the one task 2 raises while being cancelled are
   both handed over once; the teardown waits for task 0 and the owner is left when it has ended *)
Example swallowing_handler :
  run_gates (Some true) init [] gs3 =
  (St [(Beh 2 EReturn None, TEnded); (Beh 1 (ERaise 7) None, TEnded); (Beh 3 EReturn (Some 9), TEnded)] [] Closed,
   [Spawned 0 true; Spawned 1 true; Spawned 2 true; Seg 0; Seg 1; Handler 1 7; Ended 1; CancelSeen 2;
    Handler 2 9; Ended 2; Seg 0; Ended 0; OwnerLeft]).
Proof. vm_compute. reflexivity. Qed.

(* a handler that does not swallow: the factory goes down with the exception *)
Example unswallowed :
  ph (fst (run_gates (Some false) init [] (firstn 5 gs3))) = Crashed 7.
Proof. vm_compute. reflexivity. Qed.

(* teardown with a task still running: Closing, nobody cancelled *)
Example teardown_waits_for_running_task :
  let '(s, tr) := run_gates (Some true) init [] (firstn 7 gs3) in
  ph s = Closing /\ handles s = [0] /\ ~ In (CancelSeen 0) tr.
Proof. vm_compute. repeat split. intuition discriminate. Qed.

(* the premises of `cancelled_task_is_over` are met straight after a spawn, before the task has run at all *)
Example freshly_spawned_task_can_be_cancelled :
  let s := fst (fire None init (GSpawn (Beh 3 EReturn None))) in
  ph s = Open /\ tstate_of s 0 = TRun 3 /\ oncancel_of s 0 = None /\
  snd (fire None s (GCancel 0)) = [CancelSeen 0; Ended 0] /\
  snd (fire None (fst (fire None s (GCancel 0))) (GTask 0)) = [].
Proof. vm_compute. repeat split; reflexivity. Qed.
