(* Model of component startup (src/asphalt/core/_component.py: start_component,
   _start_component, ComponentContext.get_resource, the startup watchdog) as a scheduled machine:
   the director opens one gate at a time (the next segment of one component's prepare()/start()
   script, or the timeout), the machine runs to quiescence.  The component tree is a flat list in
   pre-order with parent pointers.  Used by C05, C06, C07.  Definitions only. *)
From Coq Require Import List Bool Arith.
From Asphalt Require Import Gen.Gen_compctx Gen.Gen_startup.
Import ListNotations.

Definition key := (nat * nat)%type.      (* (type, name); name 0 is "default" *)
Definition key_eqb (a b : key) : bool := Nat.eqb (fst a) (fst b) && Nat.eqb (snd a) (snd b).

Inductive act :=
| Publish (types : list nat) (name : nat) (factory : bool)  (* add_resource / add_resource_factory *)
| Wait (t : nat) (name : nat)                                (* await get_resource(t, name) *)
| GetOpt (t : nat) (name : nat)                              (* await get_resource(t, name, optional=True) *)
| Fail (e : nat)                                             (* raise an Exception *)
| AddTd (cb : nat)                                           (* add_teardown_callback *)
| Noop.

Definition seg := list act.              (* executed without a checkpoint once its gate is open *)
Definition script := list seg.

Record comp := Comp {
  parent : option nat;
  has_prepare : bool; has_start : bool;
  prep : script; start : script;
  dname : nat }.                          (* default resource name given by the alias (0: "default") *)
Definition prog := list comp.

(* a published object: who published it, the how-manieth publication of the run it was, and
   whether it is the product of a factory *)
Record val := Val { v_by : nat; v_seq : nat; v_factory : bool }.

Inductive phase :=
| NotStarted
| InPrepare (rest : script) (pend : list act) (blocked : option key)
| InChildren
| InStart (rest : script) (pend : list act) (blocked : option key)
| Started.

Definition rank (p : phase) : nat :=
  match p with NotStarted => 0 | InPrepare _ _ _ => 1 | InChildren => 2 | InStart _ _ _ => 3 | Started => 4 end.

Inductive cause := CExc (e : nat) | CConflict.
Inductive status :=
| Running
| Aborted (f : nat) (in_start : bool) (c : cause)   (* ComponentStartError(phase, path of f, class of f) from c *)
| TimedOut
| Done.

Inductive obs :=
| PB (c : nat) | PE (c : nat) | SB (c : nat) | SE (c : nat)   (* prepare/start begin/end *)
| Got (c : nat) (k : key) (v : option val)                    (* a lookup returned *)
| Failed (c : nat)
| Cancelled (c : nat)                                         (* a running component was cancelled *)
| Returned                                                    (* start_component returned the root *)
| Raised.                                                     (* start_component raised *)

Record st := St {
  phs : list phase;
  table : list (key * val);        (* the surrounding context's resources and factories *)
  tds : list nat;                  (* its teardown stack, top last *)
  status_of : status;
  armed : bool;                    (* the watchdog is running *)
  npub : nat;
  gens : list nat }.               (* factories (by publication number) whose product has been generated *)

Definition ph (s : st) (c : nat) : phase := nth c (phs s) NotStarted.
Fixpoint upd {A} (l : list A) (c : nat) (x : A) : list A :=
  match l, c with [], _ => [] | _ :: r, O => x :: r | y :: r, S c' => y :: upd r c' x end.
Definition set_ph (s : st) (c : nat) (p : phase) : st :=
  St (upd (phs s) c p) (table s) (tds s) (status_of s) (armed s) (npub s) (gens s).

Fixpoint tfind (k : key) (l : list (key * val)) : option val :=
  match l with [] => None | (k', v) :: r => if key_eqb k k' then Some v else tfind k r end.

(* a lookup served by a factory generates its product in the surrounding context *)
Definition note_gen (s : st) (v : option val) : st :=
  match v with
  | Some x => if v_factory x then St (phs s) (table s) (tds s) (status_of s) (armed s) (npub s) (v_seq x :: gens s) else s
  | None => s
  end.

Definition parent_of (P : prog) (d : nat) : option nat :=
  match nth_error P d with Some c => parent c | None => None end.
Definition is_child (P : prog) (c d : nat) : bool :=
  match parent_of P d with Some p => Nat.eqb p c | None => false end.
Definition all_children_started (P : prog) (s : st) (c : nat) : bool :=
  forallb (fun d => if is_child P c d then Nat.eqb (rank (ph s d)) 4 else true) (seq 0 (length P)).
(* when may child d begin?  As read from the children block of _start_component on this run (Gen/Gen_startup.v):
   every child is started with start_soon in one task group -- all of them as soon as the parent has reached that
   block -- or, were they awaited one after the other, each only after its earlier siblings have started *)
Definition earlier_siblings_started (P : prog) (s : st) (d : nat) : bool :=
  forallb (fun e => if Nat.ltb e d && (match parent_of P e, parent_of P d with
                                         | Some a, Some b => Nat.eqb a b | _, _ => false end)
                    then Nat.eqb (rank (ph s e)) 4 else true) (seq 0 (length P)).
Definition parent_ready (P : prog) (s : st) (d : nat) : bool :=
  match parent_of P d with
  | None => true
  | Some p => if startup_children_concurrent then Nat.eqb (rank (ph s p)) 2
              else Nat.eqb (rank (ph s p)) 2 && earlier_siblings_started P s d
  end.

(* the name a resource is published under: `default` is remapped only in start() *)
Definition eff_name_for (remapped : bool) (cc : comp) (in_start : bool) (name : nat) : nat :=
  if remapped && in_start && Nat.eqb name 0 then dname cc else name.
(* whether resources / factories are remapped is read from ComponentContext.add_resource /
   add_resource_factory on this run (Gen/Gen_compctx.v) *)
Definition eff_name (cc : comp) (in_start : bool) (name : nat) : nat :=
  eff_name_for cc_resource_default_remapped_while_starting cc in_start name.
Definition eff_name_fac (cc : comp) (in_start : bool) (name : nat) : nat :=
  eff_name_for cc_factory_default_remapped_while_starting cc in_start name.

Definition running (p : phase) : bool :=
  match p with InPrepare _ _ _ | InStart _ _ _ => true | _ => false end.

(* a component fails: everything else that is running is cancelled, nothing runs afterwards *)
Definition abort (P : prog) (s : st) (f : nat) (in_start : bool) (c : cause) : st * list obs :=
  (St (phs s) (table s) (tds s) (Aborted f in_start c) false (npub s) (gens s),
   Failed f :: map Cancelled (filter (fun d => negb (Nat.eqb d f) && running (ph s d)) (seq 0 (length P))) ++ [Raised]).

(* run actions of component c until one blocks, one fails, or none is left.
   Result: state, observations, and what is left when blocked (remaining actions, awaited key) *)
Fixpoint run_acts (P : prog) (cc : comp) (c : nat) (in_start : bool) (acts : list act) (s : st)
  : st * list obs * option (list act * key) * bool (* failed *) :=
  match acts with
  | [] => (s, [], None, false)
  | a :: r =>
      match a with
      | Noop => run_acts P cc c in_start r s
      | AddTd cb =>
          run_acts P cc c in_start r (St (phs s) (table s) (tds s ++ [cb]) (status_of s) (armed s) (npub s) (gens s))
      | Publish types name fac =>
          let n := if fac then eff_name_fac cc in_start name else eff_name cc in_start name in
          if existsb (fun t => match tfind (t, n) (table s) with Some _ => true | None => false end) types
          then let '(s', o) := abort P s c in_start CConflict in (s', o, None, true)
          else
            let v := Val c (npub s) fac in
            run_acts P cc c in_start r
              (St (phs s) (table s ++ map (fun t => ((t, n), v)) types) (tds s) (status_of s) (armed s) (S (npub s)) (gens s))
      | GetOpt t name =>
          let '(s', o, b, f) := run_acts P cc c in_start r (note_gen s (tfind (t, name) (table s))) in
          (s', Got c (t, name) (tfind (t, name) (table s)) :: o, b, f)
      | Wait t name =>
          match tfind (t, name) (table s) with
          | Some v => let '(s', o, b, f) := run_acts P cc c in_start r (note_gen s (Some v)) in
                      (s', Got c (t, name) (Some v) :: o, b, f)
          | None => (s, [], Some (r, (t, name)), false)
          end
      | Fail e => let '(s', o) := abort P s c in_start (CExc e) in (s', o, None, true)
      end
  end.

(* run actions of c and store the resulting phase *)
Definition exec (P : prog) (cc : comp) (c : nat) (in_start : bool) (rest : script) (acts : list act) (s : st)
  : st * list obs :=
  let '(s1, o, b, failed) := run_acts P cc c in_start acts s in
  if failed then (s1, o)
  else
    let p := match b with
             | Some (pend, k) => if in_start then InStart rest pend (Some k) else InPrepare rest pend (Some k)
             | None => if in_start then InStart rest [] None else InPrepare rest [] None
             end in
    (set_ph s1 c p, o).

(* one internal (ungated) transition of component c, if one applies *)
Definition silent (P : prog) (s : st) (c : nat) : option (st * list obs) :=
  match nth_error P c with
  | None => None
  | Some cc =>
      match ph s c with
      | NotStarted =>
          if parent_ready P s c then
            Some (if has_prepare cc then (set_ph s c (InPrepare (prep cc) [] None), [PB c])
                  else (set_ph s c InChildren, []))
          else None
      | InPrepare [] [] None => Some (set_ph s c InChildren, [PE c])
      | InPrepare rest pend (Some k) =>
          match tfind k (table s) with
          | Some v => let '(s', o) := exec P cc c false rest pend (note_gen s (Some v)) in Some (s', Got c k (Some v) :: o)
          | None => None
          end
      | InChildren =>
          if all_children_started P s c then
            Some (if has_start cc then (set_ph s c (InStart (start cc) [] None), [SB c])
                  else (set_ph s c Started, []))
          else None
      | InStart [] [] None => Some (set_ph s c Started, [SE c])
      | InStart rest pend (Some k) =>
          match tfind k (table s) with
          | Some v => let '(s', o) := exec P cc c true rest pend (note_gen s (Some v)) in Some (s', Got c k (Some v) :: o)
          | None => None
          end
      | _ => None
      end
  end.

Fixpoint first_silent (P : prog) (s : st) (cs : list nat) : option (st * list obs) :=
  match cs with
  | [] => None
  | c :: r => match silent P s c with Some x => Some x | None => first_silent P s r end
  end.

(* what get_resources() of the surrounding context shows: resources, and products of factories
   that have been asked for *)
Definition visible (s : st) : list (key * val) :=
  filter (fun kv => negb (v_factory (snd kv)) || existsb (Nat.eqb (v_seq (snd kv))) (gens s)) (table s).

Definition is_running (s : st) : bool := match status_of s with Running => true | _ => false end.

(* run to quiescence; start_component returns as soon as the root has started *)
Fixpoint settle (fuel : nat) (P : prog) (s : st) : st * list obs :=
  match fuel with
  | O => (s, [])
  | S f =>
      if negb (is_running s) then (s, [])
      else if Nat.eqb (rank (ph s 0)) 4
      then (St (phs s) (table s) (tds s) Done false (npub s) (gens s), [Returned])
      else
        match first_silent P s (seq 0 (length P)) with
        | None => (s, [])
        | Some (s', o) => let '(s'', o') := settle f P s' in (s'', o ++ o')
        end
  end.

Fixpoint script_size (sc : script) : nat := match sc with [] => 0 | sg :: r => S (length sg) + script_size r end.
Definition fuel_for (P : prog) : nat :=
  S (fold_right (fun cc acc => 5 + script_size (prep cc) + script_size (start cc) + acc) 0 P).

Inductive gate := GComp (c : nat) | GTimeout.

Definition at_gate (p : phase) : bool :=
  match p with
  | InPrepare (_ :: _) [] None | InStart (_ :: _) [] None => true
  | _ => false
  end.

Definition enabled (P : prog) (s : st) : list gate :=
  if is_running s then
    map GComp (filter (fun c => at_gate (ph s c)) (seq 0 (length P))) ++ (if armed s then [GTimeout] else [])
  else [].

Definition fire (P : prog) (s : st) (g : gate) : st * list obs :=
  if negb (is_running s) then (s, []) else
  match g with
  | GTimeout =>
      if armed s then
        (St (phs s) (table s) (tds s) TimedOut false (npub s) (gens s),
         map Cancelled (filter (fun d => running (ph s d)) (seq 0 (length P))) ++ [Raised])
      else (s, [])
  | GComp c =>
      match nth_error P c with
      | None => (s, [])
      | Some cc =>
          match ph s c with
          | InPrepare (sg :: rest) [] None =>
              let '(s1, o1) := exec P cc c false rest sg s in
              let '(s2, o2) := settle (fuel_for P) P s1 in (s2, o1 ++ o2)
          | InStart (sg :: rest) [] None =>
              let '(s1, o1) := exec P cc c true rest sg s in
              let '(s2, o2) := settle (fuel_for P) P s1 in (s2, o1 ++ o2)
          | _ => (s, [])
          end
      end
  end.

Definition init (P : prog) (timeout : bool) : st * list obs :=
  settle (fuel_for P) P (St (map (fun _ => NotStarted) P) [] [] Running timeout 0 []).

(* a run: the director's choices index the enabled set *)
Fixpoint run (P : prog) (s : st) (choices : list nat) : list (list gate * list obs) :=
  match choices with
  | [] => []
  | ch :: r =>
      match nth_error (enabled P s) ch with
      | None => []
      | Some g => let '(s', o) := fire P s g in (enabled P s, o) :: run P s' r
      end
  end.
