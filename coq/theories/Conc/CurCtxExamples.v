(* Non-vacuity of the hypotheses of the C12 theorems: a concrete history reaches a state with
   three live tasks -- the main task in nested contexts, a service task in its own child context and
   a plain task that inherited the spawner's -- in which each theorem's premises
   (`nth_error s t = Some x`, `alive x = true`, `top x = Some owner`, a foreign actor) are met. *)
From Coq Require Import List Bool Arith.
From Asphalt Require Import Conc.CurCtx Conc.CurCtxProofs.
Import ListNotations.

Definition h4 : list op :=
  [Enter 0; Enter 0; Spawn 0 SService; Spawn 0 SPlain; Enter 2; Leave 0 ByReturn; NewCtx 1; Observe 2].

Example h4_outputs :
  map (fun n => snd (step (run init (firstn n h4)) (nth n h4 (Observe 0)))) (seq 0 8) =
  [OEntered (0, 0) None; OEntered (0, 1) (Some (0, 0));
   OSpawned 1 (Some (1, 0)) (Some (0, 1));        (* the service task: own context, child of the owner's *)
   OSpawned 2 (Some (0, 1)) None;                 (* the plain task inherits the spawner's current context *)
   OEntered (2, 0) (Some (0, 1));
   OCurrent (Some (0, 0));                        (* the main task leaves its inner block: back to the outer one *)
   OParent (Some (1, 0));                         (* a context created in the service task *)
   OCurrent (Some (2, 0))].                       (* untouched by what the others did meanwhile *)
Proof. vm_compute. reflexivity. Qed.

Example h4_state :
  let s := run init h4 in
  length s = 3 /\
  (exists x, nth_error s 0 = Some x /\ alive x = true /\ top x = Some (0, 0)) /\
  (exists x, nth_error s 1 = Some x /\ alive x = true /\ top x = Some (1, 0)) /\
  (exists x, nth_error s 2 = Some x /\ alive x = true /\ top x = Some (2, 0)).
Proof. vm_compute. repeat split; eexists; repeat split. Qed.
