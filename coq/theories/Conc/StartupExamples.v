(* Non-vacuity of the hypotheses of the C05-C07 theorems: a concrete tree (a root with prepare and
   start, two children, a grandchild) in which one sibling waits in start() for a resource the other
   sibling publishes later, and another component waits for a factory; the premises `prog_ok`,
   `connected`, "the run ends Done", "a component is blocked at a quiescent point", "a component
   fails" are all met by concrete runs. *)
From Coq Require Import List Bool Arith Lia.
From Asphalt Require Import Conc.Skeleton Conc.Startup Conc.StartupProofs.
Import ListNotations.

Definition P3 : prog :=
  [ Comp None true true [[Noop]] [[AddTd 0]] 0;                         (* 0: root *)
    Comp (Some 0) false true [] [[Wait 1 0]; [Publish [2] 3 false]] 0;  (* 1: waits for (1, default) *)
    Comp (Some 0) true true [[Noop]] [[Noop]; [Publish [1] 0 false]] 0; (* 2: publishes it, later *)
    Comp (Some 2) false true [] [[Publish [3] 0 true]; [Wait 3 5]] 5 ]. (* 3: grandchild, alias c/n5 *)

Example P3_ok : prog_ok P3 /\ connected P3.
Proof.
  split.
  - intros d p H. do 4 (destruct d as [|d]; [cbv in H; try discriminate; inversion H; lia|]).
    cbv in H. destruct d; discriminate.
  - intros d [H1 H2]. cbn in H2. destruct d as [|[|[|[|d]]]]; try lia; eexists; reflexivity.
Qed.

(* a complete run: every gate sequence below is a schedule the director may choose *)
Definition gs_done : list gate :=
  [GComp 0; GComp 1; GComp 2; GComp 3; GComp 3; GComp 2; GComp 2; GComp 1; GComp 0].

Example P3_runs_to_done : status_of (fst (start_run P3 false gs_done)) = Done.
Proof. vm_compute. reflexivity. Qed.

(* at an intermediate quiescent point component 1 is blocked in get_resource on a key nobody has
   published yet (the premise of the no-lost-wake-up theorems), and is released by the publication *)
Definition gs_blocked : list gate := [GComp 0; GComp 1; GComp 2].
Example P3_blocked :
  let s := fst (start_run P3 false gs_blocked) in
  blocked_on (ph s 1) = Some (1, 0) /\ tfind (1, 0) (table s) = None /\ quiescent P3 s /\ is_running s = true.
Proof. vm_compute. repeat split. Qed.
Example P3_released :
  In (Got 1 (1, 0) (Some (Val 2 1 false))) (snd (start_run P3 false gs_done)).
Proof. vm_compute. tauto. Qed.

(* the same tree with a component that fails in start(): the run ends Aborted naming it *)
Definition P3f : prog :=
  [ Comp None true true [[Noop]] [[AddTd 0]] 0;
    Comp (Some 0) false true [] [[Wait 1 0]] 0;
    Comp (Some 0) true true [[Noop]] [[Fail 7]] 0 ].
Example P3f_aborts :
  status_of (fst (start_run P3f false [GComp 0; GComp 2; GComp 2])) = Aborted 2 true (CExc 7).
Proof. vm_compute. reflexivity. Qed.

(* and with a startup timeout armed, the timeout gate ends a run in which component 1 waits forever *)
Example P3f_times_out :
  status_of (fst (start_run P3f true [GComp 0; GComp 2; GTimeout])) = TimedOut.
Proof. vm_compute. reflexivity. Qed.
