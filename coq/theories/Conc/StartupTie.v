(* Tie T for the startup machine (C05, C06, C07): the blocks of _start_component, in the order in
   which they stand in the source on this run (Gen/Gen_startup.v), are the phases of the model in
   the model's order; the children are started concurrently in one task group; an Exception out
   of prepare()/start() is wrapped with the phase word the model's `Aborted` carries. *)
From Coq Require Import List Bool Arith.
From Asphalt Require Import Conc.Startup Gen.Gen_startup Gen.Gen_compctx.
Import ListNotations.

(* the model's phase a block of the source corresponds to, by rank *)
Definition block_rank (b : startup_block) : nat :=
  match b with
  | P_prepare => rank (InPrepare [] [] None)
  | P_children => rank InChildren
  | P_start => rank (InStart [] [] None)
  end.

Fixpoint increasing (l : list nat) : bool :=
  match l with
  | a :: ((b :: _) as r) => Nat.ltb a b && increasing r
  | _ => true
  end.

(* every block occurs once and they stand in the order of the model's phases: NotStarted (0) <
   prepare < children < start < Started (4) *)
Theorem source_blocks_are_the_phases :
  map block_rank startup_sequence = [1; 2; 3] /\
  increasing (0 :: map block_rank startup_sequence ++ [rank Started]) = true.
Proof. split; reflexivity. Qed.

Theorem startup_source_shape :
  startup_only_overridden_hooks = true /\ startup_children_concurrent = true /\
  startup_prepare_phase_word_ok = true /\ startup_start_phase_word_ok = true /\
  startup_wraps_exceptions_only = true /\ startup_state_set_before_hook_call = true.
Proof. repeat split. Qed.

Theorem error_wrapping_in_source :
  startup_prepare_phase_word_ok = true /\ startup_start_phase_word_ok = true /\ startup_wraps_exceptions_only = true.
Proof. repeat split. Qed.

(* the name a publication lands under (computed from ComponentContext.add_resource / add_resource_factory as
   read on this run): `default` becomes the alias's name in start() -- for resources and for factories --,
   and nothing else is ever renamed *)
Theorem default_name_remapping : forall cc n,
  eff_name cc true 0 = dname cc /\ eff_name_fac cc true 0 = dname cc /\
  eff_name cc false n = n /\ eff_name_fac cc false n = n /\
  eff_name cc true (S n) = S n /\ eff_name_fac cc true (S n) = S n.
Proof. intros. repeat split. Qed.

Theorem component_context_source_shape :
  cc_delegates_to_surrounding_context = true /\ cc_optional_never_waits = true /\
  cc_lookup_before_waiting = true /\ cc_waits_only_when_the_requested_resource_is_missing = true /\
  cc_wait_filters_by_name = true /\
  cc_wait_filters_by_type_membership = true /\ cc_lookup_again_after_wake = true.
Proof. repeat split. Qed.
