(* Tie T for the startup machine (C05, C06, C07): the blocks of _start_component, in the order in
   which they stand in the source on this run (Gen/Gen_startup.v), are the phases of the model in
   the model's order; the children are started concurrently in one task group; an Exception out
   of prepare()/start() is wrapped with the phase word the model's `Aborted` carries. *)
From Coq Require Import List Bool Arith.
From Asphalt Require Import Conc.Startup Gen.Gen_startup.
Import ListNotations.

(* the model's phase a block of the source corresponds to, by rank *)
Definition block_rank (b : startup_block) : nat :=
  match b with
  | P_prepare => rank (InPrepare [] [] None)
  | P_children => rank InChildren
  | P_start => rank (InStart [] [] None)
  end.

Fixpoint increasing (l : list nat) : bool :=
  match l with
  | a :: ((b :: _) as r) => Nat.ltb a b && increasing r
  | _ => true
  end.

(* every block occurs once and they stand in the order of the model's phases: NotStarted (0) <
   prepare < children < start < Started (4) *)
Theorem source_blocks_are_the_phases :
  map block_rank startup_sequence = [1; 2; 3] /\
  increasing (0 :: map block_rank startup_sequence ++ [rank Started]) = true.
Proof. split; reflexivity. Qed.

Theorem startup_source_shape :
  startup_only_overridden_hooks = true /\ startup_children_concurrent = true /\
  startup_prepare_phase_word_ok = true /\ startup_start_phase_word_ok = true /\
  startup_wraps_exceptions_only = true /\ startup_state_set_before_hook_call = true.
Proof. repeat split. Qed.

Theorem error_wrapping_in_source :
  startup_prepare_phase_word_ok = true /\ startup_start_phase_word_ok = true /\ startup_wraps_exceptions_only = true.
Proof. repeat split. Qed.
