(* C09: cancel() through a task's handle ENDS that task -- whenever it is called, also straight after the spawn,
   before the task has run any of its segments: the task is over, it is no longer listed, and none of its
   segments runs afterwards, under any later schedule. *)
From Coq Require Import List Bool Arith Lia.
From Asphalt Require Import Conc.Factory Conc.FactoryProofs Gen.Gen_taskfactory.
Import ListNotations.

Lemma maybe_close_tasks s : tasks (fst (maybe_close s)) = tasks s.
Proof. unfold maybe_close. destruct (ph s); try reflexivity. destruct (handles s); reflexivity. Qed.

Lemma tstate_maybe_close s k : tstate_of (fst (maybe_close s)) k = tstate_of s k.
Proof. unfold tstate_of. now rewrite maybe_close_tasks. Qed.

Lemma maybe_close_handles s k : ~ In k (handles s) -> ~ In k (handles (fst (maybe_close s))).
Proof. unfold maybe_close. destruct (ph s); auto. destruct (handles s) eqn:E; simpl; auto. rewrite E. auto. Qed.

Lemma task_gate_on_ended v s k : tstate_of s k = TEnded -> snd (fire v s (GTask k)) = [].
Proof.
  intro E. unfold fire. destruct (ph s); try reflexivity; unfold tstate_of in E;
    destruct (nth_error (tasks s) k) as [[b [[|n]|]]|]; try discriminate; reflexivity.
Qed.

Lemma ended_stays_ended v s k : k < length (tasks s) -> tstate_of s k = TEnded -> forall j, j = k ->
  snd (fire v s (GTask j)) = [] /\ fst (fire v s (GTask j)) = s.
Proof.
  intros _ E j ->. unfold fire. destruct (ph s); try (split; reflexivity); unfold tstate_of in E;
    destruct (nth_error (tasks s) k) as [[b [[|n]|]]|]; try discriminate; split; reflexivity.
Qed.

Theorem cancelled_task_is_over : forall v s k n, ph s = Open \/ ph s = Closing -> tstate_of s k = TRun n -> oncancel_of s k = None ->
  let s' := fst (fire v s (GCancel k)) in
  tstate_of s' k = TEnded /\ ~ In k (handles s') /\
  (forall v', fire v' s' (GTask k) = (s', [])) /\
  ~ In (Seg k) (snd (fire v s (GCancel k))) /\ In (CancelSeen k) (snd (fire v s (GCancel k))).
Proof.
  intros v s k n P R C.
  assert (L : k < length (tasks s)).
  { unfold tstate_of in R. destruct (nth_error (tasks s) k) eqn:E; [|discriminate]. apply nth_error_Some. congruence. }
  assert (F : fire v s (GCancel k) =
              (fst (maybe_close (remove_handle (set_t s k TEnded) k)),
               CancelSeen k :: Ended k :: snd (maybe_close (remove_handle (set_t s k TEnded) k)))).
  { unfold fire. destruct P as [P|P]; rewrite P, R, C; destruct (maybe_close _); reflexivity. }
  cbv zeta. rewrite F. cbn [fst snd].
  assert (T : tstate_of (fst (maybe_close (remove_handle (set_t s k TEnded) k))) k = TEnded).
  { rewrite tstate_maybe_close. unfold tstate_of, remove_handle. cbn [tasks].
    change (tstate_of (set_t s k TEnded) k = TEnded). now apply tstate_set_same. }
  repeat split.
  - exact T.
  - apply maybe_close_handles. unfold remove_handle. cbn [handles]. rewrite filter_In. intros [_ H].
    rewrite Nat.eqb_refl in H. discriminate.
  - intro v'. destruct (ended_stays_ended v' (fst (maybe_close (remove_handle (set_t s k TEnded) k))) k) with (j := k) as [A B]; auto.
    + rewrite maybe_close_tasks. unfold remove_handle. cbn [tasks]. now rewrite set_t_length.
    + destruct (fire v' _ (GTask k)). simpl in *. congruence.
  - intros [H|[H|H]]; try discriminate. unfold maybe_close in H.
    destruct (ph (remove_handle (set_t s k TEnded) k)); try contradiction.
    destruct (handles (remove_handle (set_t s k TEnded) k)); simpl in H; try contradiction. destruct H as [H|[]]. discriminate.
  - left. reflexivity.
Qed.
