(* Theorems about current_context() (C12). *)
From Coq Require Import List Bool Arith Lia.
From Asphalt Require Import Conc.CurCtx.
Import ListNotations.

Lemma upd_length s t x : length (upd s t x) = length s.
Proof. revert t; induction s; intros [|t]; simpl; auto. Qed.
Lemma upd_other s t x u : u <> t -> nth_error (upd s t x) u = nth_error s u.
Proof. revert t u; induction s; intros [|t] [|u] H; simpl; auto; try congruence. Qed.
Lemma upd_same s t x : t < length s -> nth_error (upd s t x) t = Some x.
Proof. revert t; induction s; intros [|t] H; simpl in *; try lia; auto. apply IHs; lia. Qed.

(* ---------- isolation: what a task does touches only its own record ---------- *)
Theorem step_frame : forall s o u, u <> actor o -> u < length s -> nth_error (fst (step s o)) u = nth_error s u.
Proof.
  intros s o u N L. destruct o; simpl in *;
  repeat match goal with
  | |- context [match nth_error s ?t with _ => _ end] => destruct (nth_error s t) as [x|] eqn:?; simpl; auto
  | |- context [if ?b then _ else _] => destruct b; simpl; auto
  | |- context [match stack ?x with _ => _ end] => destruct (stack x); simpl; auto
  | |- context [match top ?x with _ => _ end] => destruct (top x); simpl; auto
  | |- context [match pre ?x with _ => _ end] => destruct (pre x) as [[? ?]|]; simpl; auto
  | |- context [match ?k with SPlain => _ | SService => _ end] => destruct k; simpl; auto
  end; try (apply upd_other; auto); try (rewrite nth_error_app1; auto).
Qed.

(* a task's record after any history equals its record after the sub-history of its own
   operations, as long as it already exists: the scripts and scheduling of all other tasks are
   irrelevant to what it observes *)
Lemma run_cons s o h : run s (o :: h) = run (fst (step s o)) h.
Proof. reflexivity. Qed.

Lemma step_length_mono s o : length s <= length (fst (step s o)).
Proof.
  destruct o; simpl;
  repeat match goal with
  | |- context [match nth_error s ?t with _ => _ end] => destruct (nth_error s t) as [x|] eqn:?; simpl; auto
  | |- context [if ?b then _ else _] => destruct b; simpl; auto
  | |- context [match stack ?x with _ => _ end] => destruct (stack x); simpl; auto
  | |- context [match top ?x with _ => _ end] => destruct (top x); simpl; auto
  | |- context [match pre ?x with _ => _ end] => destruct (pre x) as [[? ?]|]; simpl; auto
  | |- context [match ?k with SPlain => _ | SService => _ end] => destruct k; simpl; auto
  end; rewrite ?upd_length, ?app_length; simpl; lia.
Qed.

Theorem others_invisible : forall h s u,
  u < length s -> (forall o, In o h -> actor o <> u) -> nth_error (run s h) u = nth_error s u.
Proof.
  induction h as [|o r IH]; intros s u L H; auto.
  rewrite run_cons, IH.
  - apply step_frame; auto. intro E. apply (H o); simpl; auto.
  - pose proof (step_length_mono s o). lia.
  - intros o' Ho'. apply H. simpl; auto.
Qed.

(* ---------- top: current_context() is the innermost context the task itself is in ---------- *)
Theorem observe_is_top : forall s t x, nth_error s t = Some x -> step s (Observe t) = (s, OCurrent (top x)).
Proof. intros s t x H. simpl. now rewrite H. Qed.

Theorem enter_makes_current : forall s t x,
  nth_error s t = Some x -> alive x = true ->
  exists c, snd (step s (Enter t)) = OEntered c (top x) /\
            forall x', nth_error (fst (step s (Enter t))) t = Some x' -> top x' = Some c.
Proof.
  intros s t x H A. simpl. rewrite H, A. simpl. eexists. split; [reflexivity|].
  intros x' Hx. rewrite upd_same in Hx by (apply nth_error_Some; congruence). inversion Hx. reflexivity.
Qed.

(* a new context takes the context current at its creation as parent *)
Theorem parent_is_current_at_creation : forall s t x,
  nth_error s t = Some x -> snd (step s (NewCtx t)) = OParent (top x).
Proof. intros s t x H. simpl. now rewrite H. Qed.

(* ---------- restore: leaving, by any route, restores what was current before entry ---------- *)
Theorem leave_restores : forall s t x h,
  nth_error s t = Some x -> alive x = true ->
  let s1 := fst (step s (Enter t)) in
  exists x2, nth_error (fst (step s1 (Leave t h))) t = Some x2 /\ stack x2 = stack x /\
             snd (step s1 (Leave t h)) = OCurrent (top x).
Proof.
  intros s t x h H A. simpl. rewrite H, A. simpl.
  assert (L : t < length s) by (apply nth_error_Some; congruence).
  rewrite upd_same by auto. simpl. rewrite Nat.eqb_refl. simpl.
  eexists. split; [apply upd_same; now rewrite upd_length|]. split; auto.
Qed.

(* ... for arbitrarily nested blocks and arbitrary interleaving with other tasks: a history that
   is balanced for task t (every Enter of t matched by a later Leave of t, properly nested) leaves
   t's stack exactly as it was *)
Inductive balanced (t : tid) : list op -> Prop :=
| BNil : balanced t []
| BOther o w : actor o <> t -> balanced t w -> balanced t (o :: w)
| BObserve w : balanced t w -> balanced t (Observe t :: w)
| BNew w : balanced t w -> balanced t (NewCtx t :: w)
| BProbe w : balanced t w -> balanced t (CompProbe t :: w)
| BSpawn k w : balanced t w -> balanced t (Spawn t k :: w)
| BBlock w1 h w2 : balanced t w1 -> balanced t w2 -> balanced t (Enter t :: w1 ++ Leave t h :: w2).

Lemma run_app s h1 h2 : run s (h1 ++ h2) = run (run s h1) h2.
Proof. unfold run. apply fold_left_app. Qed.

Definition stack_of (s : state) (t : tid) : option (list cid * bool) :=
  match nth_error s t with Some x => Some (stack x, alive x) | None => None end.

Lemma own_step_stack s t o st : actor o = t -> stack_of s t = Some (st, true) ->
  match o with
  | Observe _ | NewCtx _ | CompProbe _ | Spawn _ _ => stack_of (fst (step s o)) t = Some (st, true)
  | _ => True
  end.
Proof.
  intros E H. unfold stack_of in *. destruct (nth_error s t) as [x|] eqn:N; [|discriminate].
  inversion H; subst. assert (L : actor o < length s) by (apply nth_error_Some; congruence).
  destruct o; simpl in *; auto; rewrite N; simpl; rewrite ?H2; simpl.
  - rewrite N, ?H2. reflexivity.
  - rewrite upd_same by auto. reflexivity.
  - destruct (top x); simpl; rewrite N, ?H2; reflexivity.
  - destruct k; [|destruct (top x)]; simpl; rewrite ?nth_error_app1 by auto; rewrite N, ?H2; reflexivity.
Qed.

Theorem balanced_restores : forall t w, balanced t w ->
  forall s st, stack_of s t = Some (st, true) -> stack_of (run s w) t = Some (st, true).
Proof.
  intros t w B. induction B; intros s st Hst; auto.
  - (* another task acts *)
    rewrite run_cons. apply IHB. unfold stack_of in *.
    destruct (nth_error s t) as [x|] eqn:N; [|discriminate].
    rewrite step_frame; auto; [now rewrite N | apply nth_error_Some; congruence].
  - rewrite run_cons. apply IHB. apply (own_step_stack s t (Observe t) st eq_refl Hst).
  - rewrite run_cons. apply IHB. apply (own_step_stack s t (NewCtx t) st eq_refl Hst).
  - rewrite run_cons. apply IHB. apply (own_step_stack s t (CompProbe t) st eq_refl Hst).
  - rewrite run_cons. apply IHB. apply (own_step_stack s t (Spawn t k) st eq_refl Hst).
  - (* a nested block *)
    rewrite run_cons, run_app, run_cons.
    unfold stack_of in Hst. destruct (nth_error s t) as [x|] eqn:N; [|discriminate]. injection Hst as Hs H2. subst st.
    assert (L : t < length s) by (apply nth_error_Some; congruence).
    set (c := (t, created x)).
    assert (HE : stack_of (fst (step s (Enter t))) t = Some (c :: stack x, true)).
    { unfold stack_of. simpl. rewrite N, H2. simpl. now rewrite upd_same. }
    specialize (IHB1 _ _ HE). apply IHB2.
    remember (run (fst (step s (Enter t))) w1) as s1 eqn:Es1. clear Es1.
    unfold stack_of in IHB1 |- *. destruct (nth_error s1 t) as [y|] eqn:Ny; [|discriminate].
    injection IHB1 as Hs Ha. cbn [step fst]. rewrite Ny, Hs, Ha. cbn [fst]. rewrite Nat.eqb_refl. cbn [andb fst].
    rewrite upd_same by (apply nth_error_Some; congruence). reflexivity.
Qed.

(* ---------- inheritance: a task starts with the context current where it was spawned ---------- *)
Theorem spawned_inherits : forall s t x,
  nth_error s t = Some x -> alive x = true ->
  snd (step s (Spawn t SPlain)) = OSpawned (length s) (top x) None /\
  exists y, nth_error (fst (step s (Spawn t SPlain))) (length s) = Some y /\ top y = top x.
Proof.
  intros s t x H A. simpl. rewrite H, A. simpl. split; auto.
  eexists. split; [rewrite nth_error_app2, Nat.sub_diag by lia; reflexivity|].
  unfold top. simpl. destruct (stack x); reflexivity.
Qed.

(* service tasks and task-factory tasks run in a fresh child of the owning context *)
Theorem service_task_context : forall s t x owner,
  nth_error s t = Some x -> alive x = true -> top x = Some owner ->
  snd (step s (Spawn t SService)) = OSpawned (length s) (Some (length s, 0)) (Some owner).
Proof. intros s t x owner H A T. simpl. now rewrite H, A, T. Qed.

(* entering a context that was created earlier -- possibly while another context was current, so
   that its parent is not what is current now -- and leaving it by any route restores what was
   current before entry (not the context's parent) *)
Theorem leave_restores_pre : forall s t x c p h,
  nth_error s t = Some x -> alive x = true -> pre x = Some (c, p) -> fst c = t ->
  let s1 := fst (step s (EnterPre t)) in
  snd (step s (EnterPre t)) = OEntered c p /\
  exists x2, nth_error (fst (step s1 (Leave t h))) t = Some x2 /\ stack x2 = stack x /\
             snd (step s1 (Leave t h)) = OCurrent (top x).
Proof.
  intros s t x c p h H A Pr Fc. simpl. rewrite H, Pr, A. simpl. split; auto.
  assert (L : t < length s) by (apply nth_error_Some; congruence).
  rewrite upd_same by auto. simpl. rewrite Fc, Nat.eqb_refl. simpl.
  eexists. split; [apply upd_same; now rewrite upd_length|]. split; auto.
Qed.
