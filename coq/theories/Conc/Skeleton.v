(* The control skeleton of component startup: only the rank of every component
   (0 not started, 1 in prepare(), 2 starting children, 3 in start(), 4 started) and the
   begin/end observations of prepare() and start().  Every ordering property of C05 (and the
   "ancestors never start" clause of C07) is proved here, for every sequence of skeleton steps;
   Conc/StartupProofs.v shows that every step of the full machine is a sequence of these. *)
From Coq Require Import List Bool Arith Lia.
Import ListNotations.

Inductive sob := sPB (c : nat) | sPE (c : nat) | sSB (c : nat) | sSE (c : nat).
Definition sob_eq_dec : forall a b : sob, {a = b} + {a <> b}.
Proof. decide equality; apply Nat.eq_dec. Defined.

(* the tree: parent pointers (pre-order: a parent has a smaller index) and which methods exist *)
Record shape := Shape { par : nat -> option nat; hasp : nat -> bool; hass : nat -> bool; size : nat }.

Definition tree_ok (T : shape) : Prop := forall d p, par T d = Some p -> p < d /\ d < size T.

Definition rk (r : list nat) (c : nat) : nat := nth c r 0.
Fixpoint upd (r : list nat) (c : nat) (x : nat) : list nat :=
  match r, c with [], _ => [] | _ :: t, O => x :: t | y :: t, S c' => y :: upd t c' x end.

Lemma upd_length r c x : length (upd r c x) = length r.
Proof. revert c; induction r; intros [|c]; simpl; auto. Qed.
Lemma rk_upd_same r c x : c < length r -> rk (upd r c x) c = x.
Proof. unfold rk. revert c; induction r; intros [|c] H; simpl in *; try lia; auto. apply IHr; lia. Qed.
Lemma rk_upd_other r c x d : d <> c -> rk (upd r c x) d = rk r d.
Proof. unfold rk. revert c d; induction r; intros [|c] [|d] H; simpl; auto; congruence. Qed.

Definition children_done (T : shape) (r : list nat) (c : nat) : Prop :=
  forall d, par T d = Some c -> rk r d = 4.
Definition parent_ready (T : shape) (r : list nat) (d : nat) : Prop :=
  match par T d with None => True | Some p => rk r p = 2 end.

Inductive sstep (T : shape) : list nat * list sob -> list nat * list sob -> Prop :=
| SBeginP r tr c : c < length r -> rk r c = 0 -> parent_ready T r c -> hasp T c = true ->
    sstep T (r, tr) (upd r c 1, tr ++ [sPB c])
| SBeginN r tr c : c < length r -> rk r c = 0 -> parent_ready T r c -> hasp T c = false ->
    sstep T (r, tr) (upd r c 2, tr)
| SPrepDone r tr c : c < length r -> rk r c = 1 -> sstep T (r, tr) (upd r c 2, tr ++ [sPE c])
| SChildP r tr c : c < length r -> rk r c = 2 -> children_done T r c -> hass T c = true ->
    sstep T (r, tr) (upd r c 3, tr ++ [sSB c])
| SChildN r tr c : c < length r -> rk r c = 2 -> children_done T r c -> hass T c = false ->
    sstep T (r, tr) (upd r c 4, tr)
| SStartDone r tr c : c < length r -> rk r c = 3 -> sstep T (r, tr) (upd r c 4, tr ++ [sSE c]).

Inductive ssteps (T : shape) : list nat * list sob -> list nat * list sob -> Prop :=
| SRefl x : ssteps T x x
| SCons x y z : sstep T x y -> ssteps T y z -> ssteps T x z.

Lemma ssteps_trans T x y z : ssteps T x y -> ssteps T y z -> ssteps T x z.
Proof. induction 1; auto. intro. econstructor; eauto. Qed.
Lemma ssteps_one T x y : sstep T x y -> ssteps T x y.
Proof. intro. econstructor; eauto. constructor. Qed.

(* "a occurs before every occurrence of b" *)
Definition before (a b : sob) (tr : list sob) : Prop := forall t1 t2, tr = t1 ++ b :: t2 -> In a t1.

Lemma before_snoc a b tr o : before a b tr -> (o <> b \/ In a tr) -> before a b (tr ++ [o]).
Proof.
  intros Hb Ho t1 t2 E.
  destruct (list_eq_dec sob_eq_dec t2 []) as [->|Hne].
  - apply app_inj_tail in E. destruct E as [-> ->]. destruct Ho as [Ho|Ho]; [congruence|auto].
  - destruct (exists_last Hne) as (t2' & x & ->).
    replace (t1 ++ b :: t2' ++ [x]) with ((t1 ++ b :: t2') ++ [x]) in E by (rewrite <- app_assoc; reflexivity).
    apply app_inj_tail in E. destruct E as [E _]. eapply Hb; eauto.
Qed.

(* descendants *)
Inductive desc (T : shape) : nat -> nat -> Prop :=
| DChild c d : par T d = Some c -> desc T c d
| DStep c m d : desc T c m -> par T d = Some m -> desc T c d.

(* ---------- the invariant ---------- *)
Record inv (T : shape) (r : list nat) (tr : list sob) : Prop := {
  i_len : length r = size T;
  i_le : forall c, rk r c <= 4;
  (* a component has begun only if its parent is starting its children; once the parent is past
     that, every child has started *)
  i_up : forall d p, par T d = Some p -> 1 <= rk r d -> 2 <= rk r p;
  i_down : forall d p, par T d = Some p -> 3 <= rk r p -> rk r d = 4;
  (* observations and ranks determine each other *)
  i_pb : forall c, In (sPB c) tr -> 1 <= rk r c;
  i_pe : forall c, In (sPE c) tr -> 2 <= rk r c;
  i_sb : forall c, In (sSB c) tr -> 3 <= rk r c;
  i_se : forall c, In (sSE c) tr -> rk r c = 4;
  i_pe' : forall c, hasp T c = true -> 2 <= rk r c -> In (sPE c) tr;
  i_pb' : forall c, hasp T c = true -> 1 <= rk r c -> In (sPB c) tr;
  i_sb' : forall c, hass T c = true -> 3 <= rk r c -> In (sSB c) tr;
  i_se' : forall c, hass T c = true -> rk r c = 4 -> In (sSE c) tr;
  i_r1 : forall c, rk r c = 1 -> hasp T c = true;
  i_r3 : forall c, rk r c = 3 -> hass T c = true;
  i_nodup : NoDup tr;
  (* orders *)
  o_pb_pe : forall c, before (sPB c) (sPE c) tr;
  o_sb_se : forall c, before (sSB c) (sSE c) tr;
  o_pe_pb : forall d p, par T d = Some p -> hasp T p = true -> before (sPE p) (sPB d) tr;
  o_pe_sb : forall d p, par T d = Some p -> hasp T p = true -> before (sPE p) (sSB d) tr;
  o_pe_own_sb : forall c, hasp T c = true -> before (sPE c) (sSB c) tr;
  o_se_sb : forall c d, desc T c d -> hass T d = true -> before (sSE d) (sSB c) tr;
  o_pe_sb_desc : forall c d, desc T c d -> hasp T d = true -> before (sPE d) (sSB c) tr
}.

Lemma before_nil a b : before a b [].
Proof. intros t1 t2 E. destruct t1; discriminate. Qed.

Lemma inv_init T : inv T (repeat 0 (size T)) [].
Proof.
  assert (Z : forall c, rk (repeat 0 (size T)) c = 0).
  { intro c. unfold rk. generalize (size T). intro n. revert c. induction n; intros [|c]; simpl; auto. }
  constructor; intros; rewrite ?Z in *; try lia; try (now apply before_nil); try contradiction;
    try (simpl in *; contradiction).
  - apply repeat_length.
  - constructor.
Qed.

(* all descendants of a component that is in (or past) start() have started *)
Lemma desc_started T r tr c d : inv T r tr -> desc T c d -> 3 <= rk r c -> rk r d = 4.
Proof.
  intros I D. induction D as [c d H|c m d D IH H]; intro R.
  - eapply i_down; eauto.
  - specialize (IH R). eapply i_down; eauto. lia.
Qed.

Lemma children_done_desc T r tr c d : inv T r tr -> children_done T r c -> desc T c d -> rk r d = 4.
Proof.
  intros I CD D. induction D as [c d H|c m d D IH H].
  - now apply CD.
  - specialize (IH CD). eapply i_down; eauto. lia.
Qed.

(* ---------- every skeleton step preserves the invariant ---------- *)
Lemma in_snoc {A} (x : A) l y : In x (l ++ [y]) <-> In x l \/ x = y.
Proof. rewrite in_app_iff. simpl. intuition. Qed.

Lemma NoDup_snoc {A} (l : list A) x : NoDup l -> ~ In x l -> NoDup (l ++ [x]).
Proof.
  induction l as [|y t IH]; simpl; intros N H.
  - constructor; [intros []|constructor].
  - inversion N; subst. constructor.
    + rewrite in_app_iff. intros [H1|[H1|[]]]; [contradiction | subst; apply H; auto].
    + apply IH; auto.
Qed.

Section Step.
Variable T : shape.
Hypothesis TOK : tree_ok T.

(* a step raises the rank of one component c to x and appends at most one observation *)
Lemma raise_inv r tr c x (o : list sob) :
  inv T r tr -> c < length r -> rk r c < x -> x <= 4 ->
  (* side conditions, depending on the new rank *)
  (rk r c = 0 -> parent_ready T r c) ->
  (rk r c = 0 -> x = 1 \/ x = 2) -> (rk r c = 1 -> x = 2) -> (rk r c = 2 -> x = 3 \/ x = 4) -> (rk r c = 3 -> x = 4) ->
  (rk r c = 2 -> children_done T r c) ->
  (x = 1 -> hasp T c = true) -> (rk r c = 0 -> x = 2 -> hasp T c = false) ->
  (x = 3 -> hass T c = true) -> (rk r c = 2 -> x = 4 -> hass T c = false) ->
  o = (if Nat.eqb (rk r c) 0 then (if Nat.eqb x 1 then [sPB c] else [])
       else if Nat.eqb (rk r c) 1 then [sPE c]
       else if Nat.eqb (rk r c) 2 then (if Nat.eqb x 3 then [sSB c] else [])
       else [sSE c]) ->
  inv T (upd r c x) (tr ++ o).
Proof.
  intros I L Lt Le PR X0 X1 X2 X3 CD HP1 HP2 HS1 HS2 Eo.
  assert (Same : forall d, d <> c -> rk (upd r c x) d = rk r d) by (intros; now apply rk_upd_other).
  assert (New : rk (upd r c x) c = x) by now apply rk_upd_same.
  assert (Mono : forall d, rk r d <= rk (upd r c x) d).
  { intro d. destruct (Nat.eq_dec d c) as [->|N]; [rewrite New; lia | rewrite Same; auto]. }
  pose proof (i_le T r tr I c) as Le4.
  (* which case are we in *)
  assert (Cases : (rk r c = 0 /\ x = 1 /\ o = [sPB c]) \/ (rk r c = 0 /\ x = 2 /\ o = []) \/
                  (rk r c = 1 /\ x = 2 /\ o = [sPE c]) \/ (rk r c = 2 /\ x = 3 /\ o = [sSB c]) \/
                  (rk r c = 2 /\ x = 4 /\ o = []) \/ (rk r c = 3 /\ x = 4 /\ o = [sSE c])).
  { destruct (rk r c) as [|[|[|[|n]]]] eqn:E; simpl in Eo.
    - destruct (X0 eq_refl) as [->| ->]; simpl in Eo; auto.
    - rewrite (X1 eq_refl) in *. auto 6.
    - destruct (X2 eq_refl) as [->| ->]; simpl in Eo; auto 8.
    - rewrite (X3 eq_refl) in *. auto 10.
    - lia. }
  clear Eo.
  (* membership in the extended trace *)
  assert (InOld : forall a, In a tr -> In a (tr ++ o)) by (intros; apply in_or_app; auto).
  assert (InNew : forall a, In a (tr ++ o) -> In a tr \/ In a o) by (intros a H; apply in_app_or in H; auto).
  constructor.
  - rewrite upd_length. apply (i_len T r tr I).
  - intro d. destruct (Nat.eq_dec d c) as [->|N]; [rewrite New; auto | rewrite Same by auto; apply (i_le T r tr I)].
  - (* i_up *)
    intros d p Hp H1. destruct (Nat.eq_dec d c) as [->|N].
    + destruct (TOK _ _ Hp) as [Hlt _]. rewrite Same by lia.
      destruct (Nat.eq_dec (rk r c) 0) as [Z|NZ].
      * specialize (PR Z). unfold parent_ready in PR. rewrite Hp in PR. lia.
      * apply (i_up T r tr I c p Hp). lia.
    + rewrite Same in H1 by auto. pose proof (i_up T r tr I d p Hp H1). pose proof (Mono p). lia.
  - (* i_down *)
    intros d p Hp H3. destruct (TOK _ _ Hp) as [Hlt _]. destruct (Nat.eq_dec p c) as [->|N].
    + rewrite Same by lia. rewrite New in H3.
      destruct (Nat.eq_dec (rk r c) 3) as [E3|NE3]; [apply (i_down T r tr I d c Hp); lia|].
      assert (E2 : rk r c = 2) by (destruct Cases as [C|[C|[C|[C|[C|C]]]]]; lia).
      apply (CD E2 d Hp).
    + rewrite Same in H3 by auto. pose proof (i_down T r tr I d p Hp H3) as D4.
      destruct (Nat.eq_dec d c) as [->|Nd]; [lia | now rewrite Same].
  - (* i_pb *) intros d H. apply InNew in H. destruct H as [H|H].
    + pose proof (i_pb T r tr I d H). pose proof (Mono d). lia.
    + destruct Cases as [C|[C|[C|[C|[C|C]]]]]; destruct C as (_ & -> & ->); simpl in H; try contradiction;
        destruct H as [H|[]]; inversion H; subst; rewrite New; lia.
  - (* i_pe *) intros d H. apply InNew in H. destruct H as [H|H].
    + pose proof (i_pe T r tr I d H). pose proof (Mono d). lia.
    + destruct Cases as [C|[C|[C|[C|[C|C]]]]]; destruct C as (_ & -> & ->); simpl in H; try contradiction;
        destruct H as [H|[]]; inversion H; subst; rewrite New; lia.
  - (* i_sb *) intros d H. apply InNew in H. destruct H as [H|H].
    + pose proof (i_sb T r tr I d H). pose proof (Mono d). lia.
    + destruct Cases as [C|[C|[C|[C|[C|C]]]]]; destruct C as (_ & -> & ->); simpl in H; try contradiction;
        destruct H as [H|[]]; inversion H; subst; rewrite New; lia.
  - (* i_se *) intros d H. apply InNew in H. destruct H as [H|H].
    + pose proof (i_se T r tr I d H). destruct (Nat.eq_dec d c) as [->|N]; [lia | now rewrite Same].
    + destruct Cases as [C|[C|[C|[C|[C|C]]]]]; destruct C as (_ & -> & ->); simpl in H; try contradiction;
        destruct H as [H|[]]; inversion H; subst; rewrite New; lia.
  - (* i_pe' *) intros d Hd H2. destruct (Nat.eq_dec d c) as [->|N].
    + rewrite New in H2. destruct Cases as [C|[C|[C|[C|[C|C]]]]]; destruct C as (R & Ex & Eo'); subst x o; try lia.
      * rewrite (HP2 R eq_refl) in Hd. discriminate.
      * apply in_or_app. right. simpl. auto.
      * apply InOld. apply (i_pe' T r tr I c Hd). lia.
      * apply InOld. apply (i_pe' T r tr I c Hd). lia.
      * apply InOld. apply (i_pe' T r tr I c Hd). lia.
    + rewrite Same in H2 by auto. apply InOld. now apply (i_pe' T r tr I d Hd).
  - (* i_pb' *) intros d Hd H1. destruct (Nat.eq_dec d c) as [->|N].
    + destruct Cases as [C|[C|[C|[C|[C|C]]]]]; destruct C as (R & Ex & Eo'); subst x o.
      * apply in_or_app. right. simpl. auto.
      * rewrite (HP2 R eq_refl) in Hd. discriminate.
      * apply InOld. apply (i_pb' T r tr I c Hd). lia.
      * apply InOld. apply (i_pb' T r tr I c Hd). lia.
      * apply InOld. apply (i_pb' T r tr I c Hd). lia.
      * apply InOld. apply (i_pb' T r tr I c Hd). lia.
    + rewrite Same in H1 by auto. apply InOld. now apply (i_pb' T r tr I d Hd).
  - (* i_sb' *) intros d Hd H3. destruct (Nat.eq_dec d c) as [->|N].
    + rewrite New in H3. destruct Cases as [C|[C|[C|[C|[C|C]]]]]; destruct C as (R & Ex & Eo'); subst x o; try lia.
      * apply in_or_app. right. simpl. auto.
      * rewrite (HS2 R eq_refl) in Hd. discriminate.
      * apply InOld. apply (i_sb' T r tr I c Hd). lia.
    + rewrite Same in H3 by auto. apply InOld. now apply (i_sb' T r tr I d Hd).
  - (* i_se' *) intros d Hd H4. destruct (Nat.eq_dec d c) as [->|N].
    + rewrite New in H4. destruct Cases as [C|[C|[C|[C|[C|C]]]]]; destruct C as (R & Ex & Eo'); subst x o; try lia.
      * rewrite (HS2 R eq_refl) in Hd. discriminate.
      * apply in_or_app. right. simpl. auto.
    + rewrite Same in H4 by auto. apply InOld. now apply (i_se' T r tr I d Hd).
  - (* i_r1 *) intros d H1. destruct (Nat.eq_dec d c) as [->|N].
    + rewrite New in H1. now apply HP1.
    + rewrite Same in H1 by auto. now apply (i_r1 T r tr I d).
  - (* i_r3 *) intros d H3. destruct (Nat.eq_dec d c) as [->|N].
    + rewrite New in H3. now apply HS1.
    + rewrite Same in H3 by auto. now apply (i_r3 T r tr I d).
  - (* NoDup *)
    destruct Cases as [C|[C|[C|[C|[C|C]]]]]; destruct C as (R & Ex & Eo'); subst o; rewrite ?app_nil_r;
      try apply (i_nodup T r tr I); apply NoDup_snoc; try apply (i_nodup T r tr I); intro H.
    + pose proof (i_pb T r tr I c H). lia.
    + pose proof (i_pe T r tr I c H). lia.
    + pose proof (i_sb T r tr I c H). lia.
    + pose proof (i_se T r tr I c H). lia.
  - (* o_pb_pe *) intro d.
    destruct Cases as [C|[C|[C|[C|[C|C]]]]]; destruct C as (R & Ex & Eo'); subst o; rewrite ?app_nil_r;
      try apply (o_pb_pe T r tr I); apply before_snoc; try apply (o_pb_pe T r tr I);
      try (left; discriminate).
    destruct (Nat.eq_dec d c) as [->|N]; [right | left; congruence].
    apply (i_pb' T r tr I c); [apply (i_r1 T r tr I c R) | lia].
  - (* o_sb_se *) intro d.
    destruct Cases as [C|[C|[C|[C|[C|C]]]]]; destruct C as (R & Ex & Eo'); subst o; rewrite ?app_nil_r;
      try apply (o_sb_se T r tr I); apply before_snoc; try apply (o_sb_se T r tr I);
      try (left; discriminate).
    destruct (Nat.eq_dec d c) as [->|N]; [right | left; congruence].
    apply (i_sb' T r tr I c); [apply (i_r3 T r tr I c R) | lia].
  - (* o_pe_pb *) intros d p Hp Hh.
    destruct Cases as [C|[C|[C|[C|[C|C]]]]]; destruct C as (R & Ex & Eo'); subst o; rewrite ?app_nil_r;
      try apply (o_pe_pb T r tr I d p Hp Hh); apply before_snoc; try apply (o_pe_pb T r tr I d p Hp Hh);
      try (left; discriminate).
    destruct (Nat.eq_dec d c) as [->|N]; [right | left; congruence].
    specialize (PR R). unfold parent_ready in PR. rewrite Hp in PR. apply (i_pe' T r tr I p Hh). lia.
  - (* o_pe_sb *) intros d p Hp Hh.
    destruct Cases as [C|[C|[C|[C|[C|C]]]]]; destruct C as (R & Ex & Eo'); subst o; rewrite ?app_nil_r;
      try apply (o_pe_sb T r tr I d p Hp Hh); apply before_snoc; try apply (o_pe_sb T r tr I d p Hp Hh);
      try (left; discriminate).
    destruct (Nat.eq_dec d c) as [->|N]; [right | left; congruence].
    apply (i_pe' T r tr I p Hh). apply (i_up T r tr I c p Hp). lia.
  - (* o_pe_own_sb *) intros d Hh.
    destruct Cases as [C|[C|[C|[C|[C|C]]]]]; destruct C as (R & Ex & Eo'); subst o; rewrite ?app_nil_r;
      try apply (o_pe_own_sb T r tr I d Hh); apply before_snoc; try apply (o_pe_own_sb T r tr I d Hh);
      try (left; discriminate).
    destruct (Nat.eq_dec d c) as [->|N]; [right | left; congruence].
    apply (i_pe' T r tr I c Hh). lia.
  - (* o_se_sb *) intros a d D Hh.
    destruct Cases as [C|[C|[C|[C|[C|C]]]]]; destruct C as (R & Ex & Eo'); subst o; rewrite ?app_nil_r;
      try apply (o_se_sb T r tr I a d D Hh); apply before_snoc; try apply (o_se_sb T r tr I a d D Hh);
      try (left; discriminate).
    destruct (Nat.eq_dec a c) as [->|N]; [right | left; congruence].
    apply (i_se' T r tr I d Hh). eapply children_done_desc; eauto.
  - (* o_pe_sb_desc *) intros a d D Hh.
    destruct Cases as [C|[C|[C|[C|[C|C]]]]]; destruct C as (R & Ex & Eo'); subst o; rewrite ?app_nil_r;
      try apply (o_pe_sb_desc T r tr I a d D Hh); apply before_snoc; try apply (o_pe_sb_desc T r tr I a d D Hh);
      try (left; discriminate).
    destruct (Nat.eq_dec a c) as [->|N]; [right | left; congruence].
    apply (i_pe' T r tr I d Hh). erewrite children_done_desc; eauto.
Qed.

Lemma sstep_inv x y : sstep T x y -> inv T (fst x) (snd x) -> inv T (fst y) (snd y).
Proof.
  intros S I. destruct S; simpl in *.
  - apply (raise_inv r tr c 1 [sPB c]); auto; try lia; try (intros; lia); try (rewrite H0; reflexivity); intros; try lia; auto.
  - replace tr with (tr ++ []) by apply app_nil_r.
    apply (raise_inv r tr c 2 []); auto; try lia; try (intros; lia); try (rewrite H0; reflexivity); intros; try lia; auto.
  - apply (raise_inv r tr c 2 [sPE c]); auto; try lia; try (intros; lia); try (rewrite H0; reflexivity); intros; try lia; auto.
  - apply (raise_inv r tr c 3 [sSB c]); auto; try lia; try (intros; lia); try (rewrite H0; reflexivity); intros; try lia; auto.
  - replace tr with (tr ++ []) by apply app_nil_r.
    apply (raise_inv r tr c 4 []); auto; try lia; try (intros; lia); try (rewrite H0; reflexivity); intros; try lia; auto.
  - apply (raise_inv r tr c 4 [sSE c]); auto; try lia; try (intros; lia); try (rewrite H0; reflexivity); intros; try lia; auto.
Qed.

Theorem ssteps_inv x y : ssteps T x y -> inv T (fst x) (snd x) -> inv T (fst y) (snd y).
Proof. induction 1; auto. intro I. apply IHssteps. eapply sstep_inv; eauto. Qed.

End Step.
