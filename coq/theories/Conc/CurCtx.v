(* Model of current_context() (src/asphalt/core/_context.py: _current_context context variable,
   __aenter__/__aexit__, Context.__init__ parent selection; _concurrent.py: task contexts).
   Each task has its own stack of entered contexts; a context is named by the task that created
   it and that task's creation counter, so that a task's view never depends on what other tasks
   do.  Used by C12.  Definitions only. *)
From Coq Require Import List Bool Arith.
Import ListNotations.

Definition tid := nat.
Definition cid := (tid * nat)%type.      (* (creating task, its k-th context) *)

Record task := Task {
  stack : list cid;     (* entered contexts, innermost first; the bottom may be inherited *)
  created : nat;        (* contexts created by this task so far *)
  alive : bool;
  pre : option (cid * option cid) }.   (* a context created earlier (with the parent it got then), not entered yet *)

Definition state := list task.
Definition init : state := [Task [] 0 true None].   (* the main task, no current context *)

Definition top (t : task) : option cid := match stack t with c :: _ => Some c | [] => None end.

Inductive how := ByReturn | ByException | ByCancel | ByTeardownError.
Inductive skind :=
| SPlain      (* anyio task group: the task inherits the spawner's context variables *)
| SService    (* start_service_task / TaskFactory: runs in a fresh child of the owning context *).

Inductive op :=
| Enter (t : tid)                 (* ctx = Context(); async with ctx: ... *)
| Leave (t : tid) (h : how)       (* the innermost block of t ends *)
| Observe (t : tid)               (* current_context() *)
| NewCtx (t : tid)                (* Context() created but not entered: which parent does it get *)
| EnterPre (t : tid)              (* enter the context created by the last NewCtx (whatever is current now) *)
| CompProbe (t : tid)             (* start a probe component: inside its start() a new Context()'s parent *)
| Spawn (t : tid) (k : skind)     (* a new task *)
| Finish (t : tid).               (* the task function returns *)

Inductive out :=
| OEntered (c : cid) (parent : option cid)
| OCurrent (c : option cid)       (* what current_context() is (None = NoCurrentContext) *)
| OParent (p : option cid)
| OSpawned (t : tid) (cur : option cid) (parent : option cid)  (* the new task's view at its start *)
| ODone
| OInvalid.

Fixpoint upd (s : state) (t : tid) (x : task) : state :=
  match s, t with
  | [], _ => []
  | _ :: r, O => x :: r
  | y :: r, S t' => y :: upd r t' x
  end.

Definition step (s : state) (o : op) : state * out :=
  match o with
  | Enter t =>
      match nth_error s t with
      | Some x => if alive x then
                    let c := (t, created x) in
                    (upd s t (Task (c :: stack x) (S (created x)) true (pre x)), OEntered c (top x))
                  else (s, OInvalid)
      | None => (s, OInvalid)
      end
  | Leave t _ =>
      match nth_error s t with
      | Some x =>
          match stack x with
          | c :: rest => if alive x && Nat.eqb (fst c) t   (* a task leaves only what it entered itself *)
                         then (upd s t (Task rest (created x) true (pre x)),
                               OCurrent (match rest with c' :: _ => Some c' | [] => None end))
                         else (s, OInvalid)
          | [] => (s, OInvalid)
          end
      | None => (s, OInvalid)
      end
  | Observe t =>
      match nth_error s t with Some x => (s, OCurrent (top x)) | None => (s, OInvalid) end
  | NewCtx t =>
      match nth_error s t with
      | Some x => (upd s t (Task (stack x) (S (created x)) (alive x) (Some ((t, created x), top x))), OParent (top x))
      | None => (s, OInvalid)
      end
  | EnterPre t =>
      match nth_error s t with
      | Some x =>
          match pre x with
          | Some (c, p) => if alive x then (upd s t (Task (c :: stack x) (created x) true None), OEntered c p)
                           else (s, OInvalid)
          | None => (s, OInvalid)
          end
      | None => (s, OInvalid)
      end
  | CompProbe t =>
      match nth_error s t with
      | Some x => match top x with Some _ => (s, OParent (top x)) | None => (s, OInvalid) end
      | None => (s, OInvalid)
      end
  | Spawn t k =>
      match nth_error s t with
      | Some x =>
          if alive x then
            let n := length s in
            match k with
            | SPlain => (s ++ [Task (match top x with Some c => [c] | None => [] end) 0 true None],
                         OSpawned n (top x) None)
            | SService =>
                match top x with
                | Some owner => (s ++ [Task [(n, 0); owner] 1 true None], OSpawned n (Some (n, 0)) (Some owner))
                | None => (s, OInvalid)
                end
            end
          else (s, OInvalid)
      | None => (s, OInvalid)
      end
  | Finish t =>
      match nth_error s t with
      | Some x => (upd s t (Task (stack x) (created x) false (pre x)), ODone)
      | None => (s, OInvalid)
      end
  end.

Definition run (s : state) (h : list op) : state := fold_left (fun s o => fst (step s o)) h s.

Definition actor (o : op) : tid :=
  match o with
  | Enter t | Leave t _ | Observe t | NewCtx t | EnterPre t | CompProbe t | Spawn t _ | Finish t => t
  end.
