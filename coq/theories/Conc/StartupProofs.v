(* The startup machine refines the control skeleton (Conc/Skeleton.v); consequences for
   C05, C06, C07. *)
From Coq Require Import List Bool Arith Lia.
From Asphalt Require Import Conc.Skeleton Conc.Startup.
Import ListNotations.

(* ---------- projection onto the skeleton ---------- *)
Definition shape_of (P : prog) : shape :=
  Shape (parent_of P)
        (fun c => match nth_error P c with Some cc => has_prepare cc | None => false end)
        (fun c => match nth_error P c with Some cc => has_start cc | None => false end)
        (length P).

Definition ranks (s : st) : list nat := map rank (phs s).

Definition skel1 (x : obs) : list sob :=
  match x with PB c => [sPB c] | PE c => [sPE c] | SB c => [sSB c] | SE c => [sSE c] | _ => [] end.
Definition skel (o : list obs) : list sob := flat_map skel1 o.

Lemma skel_app a b : skel (a ++ b) = skel a ++ skel b.
Proof. unfold skel. apply flat_map_app. Qed.

Lemma rk_ranks s c : rk (ranks s) c = rank (ph s c).
Proof. unfold rk, ranks, ph. change 0 with (rank NotStarted). apply map_nth. Qed.

Definition prog_ok (P : prog) : Prop := forall d p, parent_of P d = Some p -> p < d.

Lemma tree_ok_shape P : prog_ok P -> tree_ok (shape_of P).
Proof.
  intros H d p Hp. simpl in Hp. split; [now apply H|].
  unfold parent_of in Hp. destruct (nth_error P d) eqn:E; [|discriminate]. simpl. apply nth_error_Some. congruence.
Qed.

(* ---------- phases are only changed through set_ph ---------- *)
Lemma upd_length {A} (l : list A) c x : length (Startup.upd l c x) = length l.
Proof. revert c; induction l; intros [|c]; simpl; auto. Qed.

Lemma map_upd_same_rank l c p : c < length l -> rank p = rank (nth c l NotStarted) ->
  map rank (Startup.upd l c p) = map rank l.
Proof.
  revert c. induction l as [|y t IH]; intros [|c] L E; simpl in *; try lia.
  - now rewrite E.
  - f_equal. apply IH; [lia|auto].
Qed.

Lemma map_upd l c p : map rank (Startup.upd l c p) = Skeleton.upd (map rank l) c (rank p).
Proof. revert c. induction l as [|y t IH]; intros [|c]; simpl; auto. now rewrite IH. Qed.

Lemma note_gen_phs s v : phs (note_gen s v) = phs s.
Proof. unfold note_gen. destruct v as [x|]; auto. destruct (v_factory x); reflexivity. Qed.
Lemma note_gen_table s v : table (note_gen s v) = table s.
Proof. unfold note_gen. destruct v as [x|]; auto. destruct (v_factory x); reflexivity. Qed.
Lemma note_gen_status s v : status_of (note_gen s v) = status_of s.
Proof. unfold note_gen. destruct v as [x|]; auto. destruct (v_factory x); reflexivity. Qed.
Lemma note_gen_tds s v : tds (note_gen s v) = tds s.
Proof. unfold note_gen. destruct v as [x|]; auto. destruct (v_factory x); reflexivity. Qed.

Lemma skel_cancelled l : skel (map Cancelled l) = [].
Proof. induction l; simpl; auto. Qed.

Lemma abort_phs P s f b c : phs (fst (abort P s f b c)) = phs s.
Proof. reflexivity. Qed.
Lemma skel_abort_obs f l : skel (Failed f :: map Cancelled l ++ [Raised]) = [].
Proof. change (skel (Failed f :: map Cancelled l ++ [Raised])) with (skel (map Cancelled l ++ [Raised])).
       rewrite skel_app, skel_cancelled. reflexivity. Qed.
Lemma abort_skel P s f b c : skel (snd (abort P s f b c)) = [].
Proof. unfold abort. simpl snd. apply skel_abort_obs. Qed.

Local Arguments note_gen : simpl never.
Local Arguments abort : simpl never.

Lemma run_acts_phs P cc c b : forall acts s,
  phs (fst (fst (fst (run_acts P cc c b acts s)))) = phs s /\
  skel (snd (fst (fst (run_acts P cc c b acts s)))) = [].
Proof.
  induction acts as [|a r IH]; intro s; [simpl; auto|].
  destruct a; cbn [run_acts].
  - destruct (existsb _ types).
    + destruct (abort P s c b CConflict) as [s' o] eqn:E. cbn [fst snd].
      replace s' with (fst (abort P s c b CConflict)) by now rewrite E.
      replace o with (snd (abort P s c b CConflict)) by now rewrite E.
      split; [apply abort_phs|apply abort_skel].
    + apply (IH (St (phs s) (table s ++ map (fun t => (t, (if factory then eff_name_fac cc b name else eff_name cc b name),
                                                          Val c (npub s) factory)) types)
                     (tds s) (status_of s) (armed s) (S (npub s)) (gens s))).
  - destruct (tfind (t, name) (table s)) as [v|]; [|simpl; auto].
    destruct (IH (note_gen s (Some v))) as [A B].
    destruct (run_acts P cc c b r (note_gen s (Some v))) as [[[s' o] bl] f]. cbn [fst snd] in *.
    rewrite note_gen_phs in A. auto.
  - destruct (IH (note_gen s (tfind (t, name) (table s)))) as [A B].
    destruct (run_acts P cc c b r (note_gen s (tfind (t, name) (table s)))) as [[[s' o] bl] f]. cbn [fst snd] in *.
    rewrite note_gen_phs in A. auto.
  - destruct (abort P s c b (CExc e)) as [s' o] eqn:E. cbn [fst snd].
    replace s' with (fst (abort P s c b (CExc e))) by now rewrite E.
    replace o with (snd (abort P s c b (CExc e))) by now rewrite E.
    split; [apply abort_phs|apply abort_skel].
  - apply (IH (St (phs s) (table s) (tds s ++ [cb]) (status_of s) (armed s) (npub s) (gens s))).
  - apply IH.
Qed.

Lemma exec_ranks (P : prog) (cc : comp) (c : nat) (b : bool) (rest : script) (acts : list act) (s : st) :
  c < length (phs s) -> rank (ph s c) = (if b then 3 else 1) ->
  ranks (fst (exec P cc c b rest acts s)) = ranks s /\ skel (snd (exec P cc c b rest acts s)) = [] /\
  length (phs (fst (exec P cc c b rest acts s))) = length (phs s).
Proof.
  intros L R. unfold exec. destruct (run_acts_phs P cc c b acts s) as [A B].
  destruct (run_acts P cc c b acts s) as [[[s1 o] bl] failed]. simpl in *.
  destruct failed; simpl.
  - unfold ranks. rewrite A. auto.
  - unfold ranks. simpl. rewrite A. split; [|split; [auto|apply upd_length]].
    apply map_upd_same_rank; auto. fold (ph s c). rewrite R.
    destruct bl as [[pend k]|]; destruct b; reflexivity.
Qed.

(* ---------- every internal transition is a sequence of skeleton steps ---------- *)
Lemma parent_ready_spec P s c : Startup.parent_ready P s c = true -> Skeleton.parent_ready (shape_of P) (ranks s) c.
Proof.
  unfold Startup.parent_ready, Skeleton.parent_ready. simpl. destruct (parent_of P c) as [p|]; auto.
  intro H. apply Nat.eqb_eq in H. now rewrite rk_ranks.
Qed.

Lemma children_started_spec P s c : all_children_started P s c = true -> children_done (shape_of P) (ranks s) c.
Proof.
  unfold all_children_started. rewrite forallb_forall. intros H d Hp. simpl in Hp.
  assert (Hd : d < length P).
  { unfold parent_of in Hp. destruct (nth_error P d) eqn:E; [|discriminate]. apply nth_error_Some. congruence. }
  specialize (H d). rewrite in_seq in H. specialize (H ltac:(lia)).
  unfold is_child in H. rewrite Hp, Nat.eqb_refl in H. apply Nat.eqb_eq in H. now rewrite rk_ranks.
Qed.

Lemma ranks_set_ph s c p : ranks (set_ph s c p) = Skeleton.upd (ranks s) c (rank p).
Proof. unfold ranks, set_ph. simpl. apply map_upd. Qed.

Lemma length_ranks s : length (ranks s) = length (phs s).
Proof. unfold ranks. apply map_length. Qed.

Lemma ph_overflow s c : length (phs s) <= c -> ph s c = NotStarted.
Proof. intro H. unfold ph. now apply nth_overflow. Qed.

Theorem silent_refines P s c s' o tr :
  length (phs s) = length P -> silent P s c = Some (s', o) ->
  ssteps (shape_of P) (ranks s, tr) (ranks s', tr ++ skel o) /\ length (phs s') = length P.
Proof.
  intros L H. unfold silent in H. destruct (nth_error P c) as [cc|] eqn:Ec; [|discriminate].
  assert (Lc : c < length (phs s)) by (rewrite L; apply nth_error_Some; congruence).
  assert (Lr : c < length (ranks s)) by now rewrite length_ranks.
  assert (HP : hasp (shape_of P) c = has_prepare cc) by (simpl; now rewrite Ec).
  assert (HS : hass (shape_of P) c = has_start cc) by (simpl; now rewrite Ec).
  destruct (ph s c) as [|rest pend bl| |rest pend bl|] eqn:Ep.
  - (* begin *)
    destruct (Startup.parent_ready P s c) eqn:PR; [|discriminate].
    apply parent_ready_spec in PR.
    destruct (has_prepare cc) eqn:Hh; inversion H; subst; clear H; rewrite ranks_set_ph; simpl.
    + split; [|now rewrite upd_length]. apply ssteps_one. apply SBeginP; auto. now rewrite rk_ranks, Ep.
    + rewrite app_nil_r. split; [|now rewrite upd_length]. apply ssteps_one. apply SBeginN; auto. now rewrite rk_ranks, Ep.
  - (* in prepare *)
    destruct bl as [k|].
    + destruct (tfind k (table s)) as [v|] eqn:Tk; [|destruct rest, pend; discriminate].
      assert (E : exists s1 o1, exec P cc c false rest pend (note_gen s (Some v)) = (s1, o1) /\ s' = s1 /\ o = Got c k (Some v) :: o1).
      { destruct rest, pend; destruct (exec P cc c false _ _ (note_gen s (Some v))) as [s1 o1] eqn:E;
          inversion H; subst; eauto. }
      destruct E as (s1 & o1 & E & -> & ->).
      destruct (exec_ranks P cc c false rest pend (note_gen s (Some v))) as (A & B & C).
      { now rewrite note_gen_phs. }
      { unfold ph. rewrite note_gen_phs. fold (ph s c). now rewrite Ep. }
      rewrite E in A, B, C. simpl in *. rewrite B, app_nil_r.
      unfold ranks in A |- *. rewrite note_gen_phs in A, C. rewrite A. split; [constructor|congruence].
    + destruct rest; [|discriminate]. destruct pend; [|discriminate]. inversion H; subst; clear H.
      rewrite ranks_set_ph. simpl. split; [|now rewrite upd_length].
      apply ssteps_one. apply SPrepDone; auto. now rewrite rk_ranks, Ep.
  - (* children *)
    destruct (all_children_started P s c) eqn:AC; [|discriminate]. apply children_started_spec in AC.
    destruct (has_start cc) eqn:Hh; inversion H; subst; clear H; rewrite ranks_set_ph; simpl.
    + split; [|now rewrite upd_length]. apply ssteps_one. apply SChildP; auto. now rewrite rk_ranks, Ep.
    + rewrite app_nil_r. split; [|now rewrite upd_length]. apply ssteps_one. apply SChildN; auto. now rewrite rk_ranks, Ep.
  - (* in start *)
    destruct bl as [k|].
    + destruct (tfind k (table s)) as [v|] eqn:Tk; [|destruct rest, pend; discriminate].
      assert (E : exists s1 o1, exec P cc c true rest pend (note_gen s (Some v)) = (s1, o1) /\ s' = s1 /\ o = Got c k (Some v) :: o1).
      { destruct rest, pend; destruct (exec P cc c true _ _ (note_gen s (Some v))) as [s1 o1] eqn:E;
          inversion H; subst; eauto. }
      destruct E as (s1 & o1 & E & -> & ->).
      destruct (exec_ranks P cc c true rest pend (note_gen s (Some v))) as (A & B & C).
      { now rewrite note_gen_phs. }
      { unfold ph. rewrite note_gen_phs. fold (ph s c). now rewrite Ep. }
      rewrite E in A, B, C. simpl in *. rewrite B, app_nil_r.
      unfold ranks in A |- *. rewrite note_gen_phs in A, C. rewrite A. split; [constructor|congruence].
    + destruct rest; [|discriminate]. destruct pend; [|discriminate]. inversion H; subst; clear H.
      rewrite ranks_set_ph. simpl. split; [|now rewrite upd_length].
      apply ssteps_one. apply SStartDone; auto. now rewrite rk_ranks, Ep.
  - discriminate.
Qed.

Lemma first_silent_refines P s cs s' o tr :
  length (phs s) = length P -> first_silent P s cs = Some (s', o) ->
  ssteps (shape_of P) (ranks s, tr) (ranks s', tr ++ skel o) /\ length (phs s') = length P.
Proof.
  intros L. induction cs as [|c r IH]; simpl; [discriminate|].
  destruct (silent P s c) as [[s1 o1]|] eqn:E; [|exact IH].
  intro H. inversion H; subst. eapply silent_refines; eauto.
Qed.

Theorem settle_refines P : forall fuel s tr,
  length (phs s) = length P ->
  ssteps (shape_of P) (ranks s, tr) (ranks (fst (settle fuel P s)), tr ++ skel (snd (settle fuel P s))) /\
  length (phs (fst (settle fuel P s))) = length P.
Proof.
  induction fuel as [|f IH]; intros s tr L; simpl.
  - rewrite app_nil_r. split; [constructor|auto].
  - destruct (negb (is_running s)); simpl; [rewrite app_nil_r; split; [constructor|auto]|].
    destruct (Nat.eqb (rank (ph s 0)) 4); simpl; [rewrite app_nil_r; split; [constructor|auto]|].
    destruct (first_silent P s (seq 0 (length P))) as [[s1 o1]|] eqn:E; simpl;
      [|rewrite app_nil_r; split; [constructor|auto]].
    destruct (first_silent_refines P s _ s1 o1 tr L E) as [S1 L1].
    destruct (IH s1 (tr ++ skel o1) L1) as [S2 L2].
    destruct (settle f P s1) as [s2 o2]. simpl in *.
    rewrite skel_app, app_assoc. split; [eapply ssteps_trans; eauto|auto].
Qed.

Local Opaque settle.

Theorem fire_refines P s g tr :
  length (phs s) = length P ->
  ssteps (shape_of P) (ranks s, tr) (ranks (fst (fire P s g)), tr ++ skel (snd (fire P s g))) /\
  length (phs (fst (fire P s g))) = length P.
Proof.
  intro L. unfold fire. destruct (negb (is_running s)); simpl; [rewrite app_nil_r; split; [constructor|auto]|].
  destruct g as [c|].
  - destruct (nth_error P c) as [cc|] eqn:Ec; simpl; [|rewrite app_nil_r; split; [constructor|auto]].
    assert (Lc : c < length (phs s)) by (rewrite L; apply nth_error_Some; congruence).
    destruct (ph s c) as [|rest pend bl| |rest pend bl|] eqn:Ep; simpl; try (rewrite app_nil_r; split; [constructor|auto]).
    + destruct rest as [|sg rest]; [simpl; rewrite app_nil_r; split; [constructor|auto]|].
      destruct pend; [|simpl; rewrite app_nil_r; split; [constructor|auto]].
      destruct bl; [simpl; rewrite app_nil_r; split; [constructor|auto]|].
      destruct (exec_ranks P cc c false rest sg s Lc) as (A & B & C); [now rewrite Ep|].
      destruct (exec P cc c false rest sg s) as [s1 o1]. cbn [fst snd] in *.
      destruct (settle_refines P (fuel_for P) s1 (tr ++ skel o1)) as [S2 L2]; [congruence|].
      destruct (settle (fuel_for P) P s1) as [s2 o2]. cbn [fst snd] in *.
      rewrite skel_app, app_assoc. rewrite B, app_nil_r in *. rewrite <- A. auto.
    + destruct rest as [|sg rest]; [simpl; rewrite app_nil_r; split; [constructor|auto]|].
      destruct pend; [|simpl; rewrite app_nil_r; split; [constructor|auto]].
      destruct bl; [simpl; rewrite app_nil_r; split; [constructor|auto]|].
      destruct (exec_ranks P cc c true rest sg s Lc) as (A & B & C); [now rewrite Ep|].
      destruct (exec P cc c true rest sg s) as [s1 o1]. cbn [fst snd] in *.
      destruct (settle_refines P (fuel_for P) s1 (tr ++ skel o1)) as [S2 L2]; [congruence|].
      destruct (settle (fuel_for P) P s1) as [s2 o2]. cbn [fst snd] in *.
      rewrite skel_app, app_assoc. rewrite B, app_nil_r in *. rewrite <- A. auto.
  - destruct (armed s); simpl; [|rewrite app_nil_r; split; [constructor|auto]].
    rewrite skel_app, skel_cancelled. simpl. rewrite app_nil_r. split; [constructor|auto].
Qed.

(* ---------- all runs ---------- *)
(* the state and the whole observation log after the initial settle and any sequence of gates
   (whatever the director chooses, enabled or not) *)
Fixpoint run_gates (P : prog) (s : st) (tr : list obs) (gs : list gate) : st * list obs :=
  match gs with
  | [] => (s, tr)
  | g :: r => let '(s', o) := fire P s g in run_gates P s' (tr ++ o) r
  end.

Definition start_run (P : prog) (timeout : bool) (gs : list gate) : st * list obs :=
  let '(s0, o0) := init P timeout in run_gates P s0 o0 gs.

Lemma ranks_init (P : prog) timeout : ranks (St (map (fun _ => NotStarted) P) [] [] Running timeout 0 []) = repeat 0 (length P).
Proof. unfold ranks. simpl. induction P; simpl; auto. now rewrite IHP. Qed.

Theorem run_invariant : forall P timeout gs, prog_ok P ->
  let '(s, tr) := start_run P timeout gs in
  inv (shape_of P) (ranks s) (skel tr) /\ length (phs s) = length P.
Proof.
  intros P timeout gs OK. unfold start_run, init.
  pose proof (tree_ok_shape P OK) as TOK.
  set (s00 := St (map (fun _ => NotStarted) P) [] [] Running timeout 0 []).
  assert (L0 : length (phs s00) = length P) by (simpl; apply map_length).
  destruct (settle_refines P (fuel_for P) s00 [] L0) as [S0 L1].
  destruct (settle (fuel_for P) P s00) as [s0 o0]. simpl in S0, L1.
  assert (I0 : inv (shape_of P) (ranks s0) (skel o0)).
  { apply (ssteps_inv _ TOK _ _ S0). simpl. unfold s00. rewrite ranks_init. apply (inv_init (shape_of P)). }
  clear S0. revert s0 o0 L1 I0. induction gs as [|g r IH]; intros s tr L I; simpl; auto.
  destruct (fire_refines P s g (skel tr) L) as [S1 L1].
  destruct (fire P s g) as [s1 o1]. simpl in *.
  apply IH; auto. rewrite skel_app. apply (ssteps_inv _ TOK _ _ S1). exact I.
Qed.

(* ====================== C05: consequences for every run ====================== *)
Section Runs.
Variable P : prog.
Hypothesis OK : prog_ok P.

Lemma run_inv timeout gs s tr : start_run P timeout gs = (s, tr) -> inv (shape_of P) (ranks s) (skel tr).
Proof. intro E. pose proof (run_invariant P timeout gs OK) as H. rewrite E in H. tauto. Qed.

(* prepare() of a component completes before any of its children begins (prepare or start) *)
Theorem order_prepare_before_children : forall timeout gs s tr d p pc,
  start_run P timeout gs = (s, tr) -> parent_of P d = Some p -> nth_error P p = Some pc -> has_prepare pc = true ->
  before (sPE p) (sPB d) (skel tr) /\ before (sPE p) (sSB d) (skel tr).
Proof.
  intros timeout gs s tr d p pc E Hp Np Hh. pose proof (run_inv _ _ _ _ E) as I.
  assert (Hs : hasp (shape_of P) p = true) by (simpl; now rewrite Np).
  split; [apply (o_pe_pb _ _ _ I d p Hp Hs) | apply (o_pe_sb _ _ _ I d p Hp Hs)].
Qed.

(* start() of a component is called only after start() (and prepare()) of every descendant returned *)
Theorem order_start_after_descendants : forall timeout gs s tr c d dc,
  start_run P timeout gs = (s, tr) -> desc (shape_of P) c d -> nth_error P d = Some dc ->
  (has_start dc = true -> before (sSE d) (sSB c) (skel tr)) /\
  (has_prepare dc = true -> before (sPE d) (sSB c) (skel tr)).
Proof.
  intros timeout gs s tr c d dc E D Nd. pose proof (run_inv _ _ _ _ E) as I. split; intro Hh.
  - apply (o_se_sb _ _ _ I c d D). simpl. now rewrite Nd.
  - apply (o_pe_sb_desc _ _ _ I c d D). simpl. now rewrite Nd.
Qed.

(* each method of each component runs at most once, and begins before it ends *)
Theorem methods_at_most_once : forall timeout gs s tr,
  start_run P timeout gs = (s, tr) -> NoDup (skel tr).
Proof. intros timeout gs s tr E. apply (i_nodup _ _ _ (run_inv _ _ _ _ E)). Qed.

Theorem begin_before_end : forall timeout gs s tr c,
  start_run P timeout gs = (s, tr) -> before (sPB c) (sPE c) (skel tr) /\ before (sSB c) (sSE c) (skel tr) /\
  (match nth_error P c with Some cc => has_prepare cc = true | None => False end -> before (sPE c) (sSB c) (skel tr)).
Proof.
  intros timeout gs s tr c E. pose proof (run_inv _ _ _ _ E) as I.
  split; [apply (o_pb_pe _ _ _ I)|split; [apply (o_sb_se _ _ _ I)|]].
  intro H. apply (o_pe_own_sb _ _ _ I). simpl. destruct (nth_error P c); [auto|contradiction].
Qed.

End Runs.

(* ====================== C06: waiting for resources ====================== *)
Lemma first_silent_none P s : forall cs, first_silent P s cs = None -> forall c, In c cs -> silent P s c = None.
Proof.
  induction cs as [|c0 r IH]; simpl; intros H c Hc; [destruct Hc|].
  destruct (silent P s c0) eqn:S; [discriminate|]. destruct Hc as [E|Hin]; subst; auto.
Qed.

Definition quiescent (P : prog) (s : st) : Prop := first_silent P s (seq 0 (length P)) = None.

Definition blocked_on (p : phase) : option key :=
  match p with InPrepare _ _ b | InStart _ _ b => b | _ => None end.

(* no lost wake-up: in a quiescent state a component is blocked in get_resource only if what it
   waits for is NOT in the surrounding context -- as soon as it is published the waiter runs
   (within the same quiescent step), whatever the interleaving and however many other
   publications happened in between *)
Theorem no_lost_wakeup : forall P s c k,
  quiescent P s -> c < length P -> blocked_on (ph s c) = Some k -> tfind k (table s) = None.
Proof.
  intros P s c k Q L B. pose proof (first_silent_none P s _ Q c) as S.
  rewrite in_seq in S. specialize (S ltac:(lia)).
  unfold silent in S. destruct (nth_error P c) as [cc|] eqn:Ec; [|apply nth_error_None in Ec; lia].
  destruct (tfind k (table s)) as [v|] eqn:T; auto. exfalso.
  destruct (ph s c) as [|rest pend bl| |rest pend bl|]; simpl in B; try discriminate; subst bl; rewrite T in S.
  - destruct rest, pend; destruct (exec P cc c false _ _ (note_gen s (Some v))); discriminate.
  - destruct rest, pend; destruct (exec P cc c true _ _ (note_gen s (Some v))); discriminate.
Qed.

(* no false wake-up, and the right object: a blocked component resumes only through a transition
   that finds ITS (type, name) in the surrounding context, and gets exactly what is stored there *)
Theorem wakeup_only_when_published : forall P s c k s' o,
  blocked_on (ph s c) = Some k -> silent P s c = Some (s', o) ->
  exists v o', tfind k (table s) = Some v /\ o = Got c k (Some v) :: o'.
Proof.
  intros P s c k s' o B S. unfold silent in S. destruct (nth_error P c) as [cc|]; [|discriminate].
  destruct (ph s c) as [|rest pend bl| |rest pend bl|]; simpl in B; try discriminate; subst bl.
  - destruct (tfind k (table s)) as [v|]; [|destruct rest, pend; discriminate].
    exists v. destruct rest, pend; destruct (exec P cc c false _ _ (note_gen s (Some v))) as [s1 o1];
      inversion S; eauto.
  - destruct (tfind k (table s)) as [v|]; [|destruct rest, pend; discriminate].
    exists v. destruct rest, pend; destruct (exec P cc c true _ _ (note_gen s (Some v))) as [s1 o1];
      inversion S; eauto.
Qed.

(* a publication of another type or another name changes nothing for a waiter *)
Lemma tfind_app_other k l l' : (forall kv, In kv l' -> key_eqb k (fst kv) = false) -> tfind k (l ++ l') = tfind k l.
Proof.
  intro H. induction l as [|[k0 v0] r IH]; simpl.
  - induction l' as [|[k1 v1] r' IH']; simpl; auto.
    pose proof (H (k1, v1) (or_introl eq_refl)) as E. simpl in E. rewrite E.
    apply IH'. intros kv Hin. apply H. simpl; auto.
  - destruct (key_eqb k k0); auto.
Qed.

(* what is in the surrounding context stays there, bound to the same object *)
Lemma tfind_app_stable k v l l' : tfind k l = Some v -> tfind k (l ++ l') = Some v.
Proof. induction l as [|[k0 v0] r IH]; simpl; [discriminate|]. destruct (key_eqb k k0); auto. Qed.

(* optional lookups never wait: one atomic action, answered from the table as it is *)
Theorem optional_never_waits : forall P cc c b t name r s,
  snd (fst (run_acts P cc c b (GetOpt t name :: r) s)) =
  snd (fst (run_acts P cc c b r (note_gen s (tfind (t, name) (table s))))).
Proof.
  intros. cbn [run_acts]. destruct (run_acts P cc c b r (note_gen s (tfind (t, name) (table s)))) as [[[s' o] bl] f].
  reflexivity.
Qed.

(* ====================== C07: failures and the timeout ====================== *)
Theorem stopped_means_stopped : forall P s g, is_running s = false -> enabled P s = [] /\ fire P s g = (s, []).
Proof. intros P s g H. unfold enabled, fire. now rewrite H. Qed.

Lemma abort_status P s f b c : status_of (fst (abort P s f b c)) = Aborted f b c /\ tds (fst (abort P s f b c)) = tds s
  /\ table (fst (abort P s f b c)) = table s.
Proof. unfold abort. simpl. auto. Qed.

(* a failing component: ComponentStartError naming its phase, itself and the cause; everybody else
   that was running is cancelled; what had been registered stays registered *)
Theorem fail_aborts : forall P cc c b e r s,
  run_acts P cc c b (Fail e :: r) s =
  (fst (abort P s c b (CExc e)), snd (abort P s c b (CExc e)), None, true).
Proof. intros. cbn [run_acts]. destruct (abort P s c b (CExc e)). reflexivity. Qed.

Theorem timeout_aborts : forall P s, is_running s = true -> armed s = true ->
  status_of (fst (fire P s GTimeout)) = TimedOut /\ enabled P (fst (fire P s GTimeout)) = [] /\
  tds (fst (fire P s GTimeout)) = tds s.
Proof. intros P s R A. unfold fire. rewrite R, A. simpl. unfold enabled. simpl. auto. Qed.

(* the component that is running has only ancestors that are starting their children; none of
   them has begun its start() *)
Theorem ancestors_not_started : forall T r tr f, tree_ok T -> inv T r tr ->
  (rk r f = 1 \/ rk r f = 3) -> forall a, desc T a f -> rk r a = 2 /\ ~ In (sSB a) tr.
Proof.
  intros T r tr f TOK I Rf a D.
  assert (G : forall a d, desc T a d -> 1 <= rk r d -> rk r d < 4 -> rk r a = 2).
  { clear a D. intros a d D. induction D as [a d H|a m d D IH H]; intros R1 R4.
    - pose proof (i_up T r tr I d a H R1). destruct (Nat.le_gt_cases 3 (rk r a)) as [G3|G3]; [|lia].
      pose proof (i_down T r tr I d a H G3). lia.
    - assert (Rm : rk r m = 2).
      { pose proof (i_up T r tr I d m H R1). destruct (Nat.le_gt_cases 3 (rk r m)) as [G3|G3]; [|lia].
        pose proof (i_down T r tr I d m H G3). lia. }
      apply IH; lia. }
  assert (Ra : rk r a = 2) by (apply (G a f D); lia).
  split; auto. intro H. pose proof (i_sb T r tr I a H). lia.
Qed.

(* ====================== how a run can end ====================== *)
Definition sok (s : st) : Prop :=
  (status_of s = Done -> rank (ph s 0) = 4) /\
  (forall f b c, status_of s = Aborted f b c -> rank (ph s f) = (if b then 3 else 1)).

Lemma run_acts_status P cc c b : forall acts s, status_of s = Running ->
  let r := run_acts P cc c b acts s in
  (snd r = false /\ status_of (fst (fst (fst r))) = Running) \/
  (snd r = true /\ exists ca, status_of (fst (fst (fst r))) = Aborted c b ca).
Proof.
  induction acts as [|a r IH]; intros s R; [simpl; auto|].
  destruct a; cbn [run_acts].
  - destruct (existsb _ types).
    + destruct (abort P s c b CConflict) as [s' o] eqn:E. cbn [fst snd]. right. split; auto.
      exists CConflict. replace s' with (fst (abort P s c b CConflict)) by now rewrite E. apply abort_status.
    + apply IH. exact R.
  - destruct (tfind (t, name) (table s)) as [v|]; [|simpl; auto].
    specialize (IH (note_gen s (Some v))). rewrite note_gen_status in IH. specialize (IH R).
    destruct (run_acts P cc c b r (note_gen s (Some v))) as [[[s' o] bl] f]. exact IH.
  - specialize (IH (note_gen s (tfind (t, name) (table s)))). rewrite note_gen_status in IH. specialize (IH R).
    destruct (run_acts P cc c b r (note_gen s (tfind (t, name) (table s)))) as [[[s' o] bl] f]. exact IH.
  - destruct (abort P s c b (CExc e)) as [s' o] eqn:E. cbn [fst snd]. right. split; auto.
    exists (CExc e). replace s' with (fst (abort P s c b (CExc e))) by now rewrite E. apply abort_status.
  - apply IH. exact R.
  - apply IH. exact R.
Qed.

Lemma ph_set_same s c p : c < length (phs s) -> ph (set_ph s c p) c = p.
Proof.
  unfold ph, set_ph. simpl. generalize (phs s). intros l. revert c.
  induction l as [|y t IH]; intros [|c] L; simpl in *; try lia; auto. apply IH. lia.
Qed.

Lemma exec_sok P cc c (b : bool) rest acts s :
  c < length (phs s) -> status_of s = Running -> rank (ph s c) = (if b then 3 else 1) ->
  sok (fst (exec P cc c b rest acts s)).
Proof.
  intros L R Rk. unfold exec.
  pose proof (run_acts_status P cc c b acts s R) as St. destruct (run_acts_phs P cc c b acts s) as [A _].
  destruct (run_acts P cc c b acts s) as [[[s1 o] bl] failed]. cbn [fst snd] in *.
  destruct St as [[-> S1]|[-> [ca S1]]]; cbn [fst].
  - split; intros; unfold set_ph in *; simpl in *; congruence.
  - split; [congruence|]. intros f b' c' E. rewrite S1 in E. inversion E; subst.
    unfold ph. rewrite A. exact Rk.
Qed.

Lemma sok_running s : status_of s = Running -> sok s.
Proof. intro R. split; intros; congruence. Qed.

Lemma silent_sok P s c s' o : length (phs s) = length P -> status_of s = Running -> silent P s c = Some (s', o) -> sok s'.
Proof.
  intros L R H. unfold silent in H. destruct (nth_error P c) as [cc|] eqn:Ec; [|discriminate].
  assert (Lc : c < length (phs s)) by (rewrite L; apply nth_error_Some; congruence).
  destruct (ph s c) as [|rest pend bl| |rest pend bl|] eqn:Ep.
  - destruct (Startup.parent_ready P s c); [|discriminate].
    destruct (has_prepare cc); inversion H; subst; apply sok_running; exact R.
  - destruct bl as [k|].
    + destruct (tfind k (table s)) as [v|]; [|destruct rest, pend; discriminate].
      assert (E : s' = fst (exec P cc c false rest pend (note_gen s (Some v)))).
      { destruct rest, pend; destruct (exec P cc c false _ _ (note_gen s (Some v))); inversion H; reflexivity. }
      subst s'. apply exec_sok; rewrite ?note_gen_phs, ?note_gen_status; auto.
      unfold ph. rewrite note_gen_phs. fold (ph s c). now rewrite Ep.
    + destruct rest; [|discriminate]. destruct pend; [|discriminate]. inversion H; subst. apply sok_running; exact R.
  - destruct (all_children_started P s c); [|discriminate].
    destruct (has_start cc); inversion H; subst; apply sok_running; exact R.
  - destruct bl as [k|].
    + destruct (tfind k (table s)) as [v|]; [|destruct rest, pend; discriminate].
      assert (E : s' = fst (exec P cc c true rest pend (note_gen s (Some v)))).
      { destruct rest, pend; destruct (exec P cc c true _ _ (note_gen s (Some v))); inversion H; reflexivity. }
      subst s'. apply exec_sok; rewrite ?note_gen_phs, ?note_gen_status; auto.
      unfold ph. rewrite note_gen_phs. fold (ph s c). now rewrite Ep.
    + destruct rest; [|discriminate]. destruct pend; [|discriminate]. inversion H; subst. apply sok_running; exact R.
  - discriminate.
Qed.

Lemma first_silent_sok P s cs s' o : length (phs s) = length P -> status_of s = Running ->
  first_silent P s cs = Some (s', o) -> sok s'.
Proof.
  intros L R. induction cs as [|c r IH]; simpl; [discriminate|].
  destruct (silent P s c) as [[s1 o1]|] eqn:E; [|exact IH]. intro H. inversion H; subst. eapply silent_sok; eauto.
Qed.

Local Transparent settle.
Lemma settle_sok P : forall fuel s, length (phs s) = length P -> sok s -> sok (fst (settle fuel P s)).
Proof.
  induction fuel as [|f IH]; intros s L K; simpl; auto.
  destruct (is_running s) eqn:R; simpl; auto.
  assert (R' : status_of s = Running) by (unfold is_running in R; destruct (status_of s); auto; discriminate).
  destruct (Nat.eqb (rank (ph s 0)) 4) eqn:E4; simpl.
  - apply Nat.eqb_eq in E4. split; [auto|]. intros; discriminate.
  - destruct (first_silent P s (seq 0 (length P))) as [[s1 o1]|] eqn:E; simpl; auto.
    pose proof (first_silent_sok P s _ s1 o1 L R' E) as K1.
    destruct (first_silent_refines P s _ s1 o1 [] L E) as [_ L1].
    specialize (IH s1 L1 K1). destruct (settle f P s1). exact IH.
Qed.
Local Opaque settle.

Lemma fire_sok P s g : length (phs s) = length P -> sok s -> sok (fst (fire P s g)).
Proof.
  intros L K. unfold fire. destruct (is_running s) eqn:R; simpl; auto.
  assert (R' : status_of s = Running) by (unfold is_running in R; destruct (status_of s); auto; discriminate).
  destruct g as [c|].
  - destruct (nth_error P c) as [cc|] eqn:Ec; simpl; auto.
    assert (Lc : c < length (phs s)) by (rewrite L; apply nth_error_Some; congruence).
    destruct (ph s c) as [|rest pend bl| |rest pend bl|] eqn:Ep; simpl; auto.
    + destruct rest as [|sg rest]; simpl; auto. destruct pend; simpl; auto. destruct bl; simpl; auto.
      pose proof (exec_sok P cc c false rest sg s Lc R') as K1. rewrite Ep in K1. specialize (K1 eq_refl).
      destruct (exec_ranks P cc c false rest sg s Lc) as (_ & _ & C); [now rewrite Ep|].
      destruct (exec P cc c false rest sg s) as [s1 o1]. cbn [fst] in *.
      pose proof (settle_sok P (fuel_for P) s1) as K2.
      destruct (settle (fuel_for P) P s1) as [s2 o2]. cbn [fst] in *. apply K2; [congruence|auto].
    + destruct rest as [|sg rest]; simpl; auto. destruct pend; simpl; auto. destruct bl; simpl; auto.
      pose proof (exec_sok P cc c true rest sg s Lc R') as K1. rewrite Ep in K1. specialize (K1 eq_refl).
      destruct (exec_ranks P cc c true rest sg s Lc) as (_ & _ & C); [now rewrite Ep|].
      destruct (exec P cc c true rest sg s) as [s1 o1]. cbn [fst] in *.
      pose proof (settle_sok P (fuel_for P) s1) as K2.
      destruct (settle (fuel_for P) P s1) as [s2 o2]. cbn [fst] in *. apply K2; [congruence|auto].
  - destruct (armed s); simpl; auto. split; intros; simpl in *; discriminate.
Qed.

Theorem run_sok : forall P timeout gs, let '(s, tr) := start_run P timeout gs in sok s /\ length (phs s) = length P.
Proof.
  intros P timeout gs. unfold start_run, init.
  set (s00 := St (map (fun _ => NotStarted) P) [] [] Running timeout 0 []).
  assert (L0 : length (phs s00) = length P) by (simpl; apply map_length).
  pose proof (settle_sok P (fuel_for P) s00 L0 (sok_running s00 eq_refl)) as K0.
  destruct (settle_refines P (fuel_for P) s00 [] L0) as [_ L1].
  destruct (settle (fuel_for P) P s00) as [s0 o0]. cbn [fst] in *.
  revert s0 o0 K0 L1. induction gs as [|g r IH]; intros s tr K L; simpl; auto.
  pose proof (fire_sok P s g L K) as K1. destruct (fire_refines P s g [] L) as [_ L1].
  destruct (fire P s g) as [s1 o1]. cbn [fst] in *. apply IH; auto.
Qed.

(* C07: if startup was aborted by the failure of component f, no ancestor of f ever ran its
   start(), in that whole run -- for every tree, failing component, phase and schedule *)
Theorem failure_keeps_ancestors_unstarted : forall P timeout gs s tr f b ca a,
  prog_ok P -> start_run P timeout gs = (s, tr) -> status_of s = Aborted f b ca ->
  desc (shape_of P) a f -> ~ In (SB a) tr.
Proof.
  intros P timeout gs s tr f b ca a OK E St D.
  pose proof (run_inv P OK _ _ _ _ E) as I. pose proof (run_sok P timeout gs) as K. rewrite E in K.
  destruct K as [[_ K] _]. specialize (K f b ca St).
  destruct (ancestors_not_started (shape_of P) (ranks s) (skel tr) f (tree_ok_shape P OK) I) with (a := a) as [_ N]; auto.
  { rewrite rk_ranks, K. destruct b; auto. }
  intro H. apply N. unfold skel. apply in_flat_map. exists (SB a). split; simpl; auto.
Qed.

(* C05: if startup completed, every component went through all of its phases: each existing
   prepare()/start() began and ended (and, by NoDup, exactly once) *)
Definition connected (P : prog) : Prop := forall d, 0 < d < length P -> exists p, parent_of P d = Some p.

Theorem done_means_all_started : forall P timeout gs s tr,
  prog_ok P -> connected P -> start_run P timeout gs = (s, tr) -> status_of s = Done ->
  forall c cc, nth_error P c = Some cc ->
    (has_prepare cc = true -> In (PB c) tr /\ In (PE c) tr) /\
    (has_start cc = true -> In (SB c) tr /\ In (SE c) tr).
Proof.
  intros P timeout gs s tr OK CN E St.
  pose proof (run_inv P OK _ _ _ _ E) as I. pose proof (run_sok P timeout gs) as K. rewrite E in K.
  destruct K as [[K _] L]. specialize (K St).
  assert (All : forall c, c < length P -> rk (ranks s) c = 4).
  { induction c as [c IH] using lt_wf_ind. intro Lc. destruct c as [|c'].
    - now rewrite rk_ranks.
    - destruct (CN (S c')) as [p Hp]; [lia|]. pose proof (OK _ _ Hp) as Lt.
      apply (i_down _ _ _ I (S c') p Hp). rewrite IH; [lia|lia|lia]. }
  assert (Sk : forall x, In x (skel tr) -> exists y, In y tr /\ skel1 y = [x]).
  { intros x H. unfold skel in H. apply in_flat_map in H. destruct H as (y & Hy & Hx).
    exists y. split; auto. destruct y; simpl in Hx; try contradiction; destruct Hx as [<-|[]]; reflexivity. }
  intros c cc Nc. assert (Lc : c < length P) by (apply nth_error_Some; congruence).
  specialize (All c Lc).
  assert (HP : hasp (shape_of P) c = has_prepare cc) by (simpl; now rewrite Nc).
  assert (HS : hass (shape_of P) c = has_start cc) by (simpl; now rewrite Nc).
  split; intro Hh.
  - split.
    + destruct (Sk (sPB c)) as (y & Hy & Ey); [apply (i_pb' _ _ _ I c); [congruence|lia]|].
      destruct y; simpl in Ey; inversion Ey; subst; auto.
    + destruct (Sk (sPE c)) as (y & Hy & Ey); [apply (i_pe' _ _ _ I c); [congruence|lia]|].
      destruct y; simpl in Ey; inversion Ey; subst; auto.
  - split.
    + destruct (Sk (sSB c)) as (y & Hy & Ey); [apply (i_sb' _ _ _ I c); [congruence|lia]|].
      destruct y; simpl in Ey; inversion Ey; subst; auto.
    + destruct (Sk (sSE c)) as (y & Hy & Ey); [apply (i_se' _ _ _ I c); [congruence|auto]|].
      destruct y; simpl in Ey; inversion Ey; subst; auto.
Qed.

(* C05: siblings start concurrently -- in a quiescent running state, once a component is starting
   its children every one of them has begun (none is held back behind a sibling) *)
Theorem children_begin_together : forall P s p d,
  quiescent P s -> length (phs s) = length P -> parent_of P d = Some p -> rank (ph s p) = 2 ->
  rank (ph s d) <> 0.
Proof.
  intros P s p d Q L Hp Rp Rd.
  assert (Ld : d < length P).
  { unfold parent_of in Hp. destruct (nth_error P d) eqn:E; [|discriminate]. apply nth_error_Some. congruence. }
  pose proof (first_silent_none P s _ Q d) as S. rewrite in_seq in S. specialize (S ltac:(lia)).
  unfold silent in S. destruct (nth_error P d) as [dc|] eqn:Ed; [|apply nth_error_None in Ed; lia].
  destruct (ph s d) eqn:Ep; simpl in Rd; try discriminate.
  unfold Startup.parent_ready in S. rewrite Hp, Rp in S. simpl in S. destruct (has_prepare dc); discriminate.
Qed.
