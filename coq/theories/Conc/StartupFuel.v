(* The fuel of [settle] in the startup machine is sufficient: every state a run reaches is
   quiescent -- the run-to-quiescence loop stopped because nothing silent was left to do (or the
   startup had ended), never because it ran out of fuel.  A termination argument: a measure on
   the phases that every silent transition and every gate firing strictly decreases. *)
From Coq Require Import List Bool Arith Lia.
From Asphalt Require Import Conc.Startup Conc.StartupProofs.
Import ListNotations.

Local Arguments note_gen : simpl never.
Local Arguments abort : simpl never.

Definition bflag {A} (b : option A) : nat := match b with Some _ => 1 | None => 0 end.

Definition m (cc : comp) (p : phase) : nat :=
  match p with
  | NotStarted => 4 + script_size (prep cc) + script_size (start cc)
  | InPrepare rest pend b => 3 + script_size (start cc) + script_size rest + length pend + bflag b
  | InChildren => 2 + script_size (start cc)
  | InStart rest pend b => 1 + script_size rest + length pend + bflag b
  | Started => 0
  end.

Fixpoint msum (P : list comp) (l : list phase) : nat :=
  match P, l with
  | cc :: P', p :: l' => m cc p + msum P' l'
  | _, _ => 0
  end.

Definition M (P : prog) (s : st) : nat := msum P (phs s).
Definition M0 (P : prog) : nat := fold_right (fun cc acc => 4 + script_size (prep cc) + script_size (start cc) + acc) 0 P.

Lemma M0_fuel P : M0 P < fuel_for P.
Proof. unfold fuel_for. induction P as [|cc r IH]; simpl in *; lia. Qed.

Lemma msum_init P : msum P (map (fun _ => NotStarted) P) = M0 P.
Proof. induction P as [|cc r IH]; simpl; auto. rewrite IH. lia. Qed.

Lemma msum_upd : forall P l c cc p', nth_error P c = Some cc -> c < length l ->
  msum P (Startup.upd l c p') + m cc (nth c l NotStarted) = msum P l + m cc p'.
Proof.
  induction P as [|c0 P IH]; intros l c cc p' E L; [destruct c; discriminate|].
  destruct l as [|p l]; [simpl in L; lia|]. destruct c as [|c]; simpl in *.
  - inversion E; subst. lia.
  - specialize (IH l c cc p' E ltac:(lia)). lia.
Qed.

(* what one execution of a list of actions leaves pending is shorter than the list *)
Lemma run_acts_pend P cc c b : forall acts s s' o pend k f,
  run_acts P cc c b acts s = (s', o, Some (pend, k), f) -> length pend < length acts.
Proof.
  induction acts as [|a r IH]; intros s s' o pend k f H; [discriminate|].
  destruct a; cbn [run_acts] in H.
  - destruct (existsb _ types).
    + destruct (abort P s c b CConflict). discriminate.
    + apply IH in H. simpl. lia.
  - destruct (tfind (t, name) (table s)) as [v|].
    + destruct (run_acts P cc c b r (note_gen s (Some v))) as [[[s1 o1] b1] f1] eqn:E. inversion H; subst.
      apply IH in E. simpl. lia.
    + inversion H; subst. simpl. lia.
  - destruct (run_acts P cc c b r (note_gen s (tfind (t, name) (table s)))) as [[[s1 o1] b1] f1] eqn:E.
    inversion H; subst. apply IH in E. simpl. lia.
  - destruct (abort P s c b (CExc e)). discriminate.
  - apply IH in H. simpl. lia.
  - apply IH in H. simpl. lia.
Qed.

(* executing actions of component c: either the startup is no longer running and no phase
   changed, or only c's phase changed, to one whose pending part is bounded by the actions *)
Lemma exec_measure P cc c (b : bool) rest acts s :
  nth_error P c = Some cc -> c < length (phs s) -> length (phs s) = length P -> status_of s = Running ->
  let s' := fst (exec P cc c b rest acts s) in
  length (phs s') = length P /\
  ((is_running s' = false /\ phs s' = phs s) \/
   (exists pend bl, length pend + bflag bl <= length acts /\
                    phs s' = Startup.upd (phs s) c (if b then InStart rest pend bl else InPrepare rest pend bl))).
Proof.
  intros E L Len R. unfold exec.
  destruct (run_acts_phs P cc c b acts s) as [A _].
  pose proof (run_acts_status P cc c b acts s R) as St.
  destruct (run_acts P cc c b acts s) as [[[s1 o] bl] failed] eqn:RA. cbn [fst snd] in *.
  destruct failed; cbn [fst].
  - split; [congruence|]. left. split; [|exact A].
    destruct St as [[X _]|[_ (ca & St)]]; [discriminate X|].
    unfold is_running. rewrite St. reflexivity.
  - split; [simpl; rewrite upd_length; congruence|]. right.
    destruct bl as [[pend k]|].
    + exists pend, (Some k). split; [apply run_acts_pend in RA; simpl; lia|].
      simpl. rewrite A. destruct b; reflexivity.
    + exists [], None. split; [simpl; lia|]. simpl. rewrite A. destruct b; reflexivity.
Qed.

Lemma note_gen_running s v : status_of (note_gen s v) = status_of s.
Proof. apply note_gen_status. Qed.

Lemma M_upd P s c cc p' : nth_error P c = Some cc -> c < length (phs s) ->
  msum P (Startup.upd (phs s) c p') + m cc (ph s c) = M P s + m cc p'.
Proof. intros E L. unfold M, ph. now apply msum_upd. Qed.

(* one silent transition: the startup has just ended (phases untouched), or the measure drops *)
Lemma silent_measure P s c s' o :
  length (phs s) = length P -> status_of s = Running -> silent P s c = Some (s', o) ->
  length (phs s') = length P /\ ((is_running s' = false /\ phs s' = phs s) \/ M P s' < M P s).
Proof.
  intros Len R H. unfold silent in H. destruct (nth_error P c) as [cc|] eqn:E; [|discriminate].
  assert (L : c < length (phs s)) by (rewrite Len; apply nth_error_Some; congruence).
  assert (SetPh : forall p', m cc p' < m cc (ph s c) ->
            length (phs (set_ph s c p')) = length P /\
            ((is_running (set_ph s c p') = false /\ phs (set_ph s c p') = phs s) \/ M P (set_ph s c p') < M P s)).
  { intros p' Lt. split; [simpl; rewrite upd_length; exact Len|]. right.
    pose proof (M_upd P s c cc p' E L) as U. unfold M at 1. simpl. lia. }
  assert (Exec : forall (b : bool) rest pend k v,
            ph s c = (if b then InStart rest pend (Some k) else InPrepare rest pend (Some k)) ->
            let s1 := fst (exec P cc c b rest pend (note_gen s (Some v))) in
            length (phs s1) = length P /\ ((is_running s1 = false /\ phs s1 = phs s) \/ M P s1 < M P s)).
  { intros b rest pend k v Ph.
    destruct (exec_measure P cc c b rest pend (note_gen s (Some v)) E) as [L1 Hx];
      rewrite ?note_gen_phs, ?note_gen_status; auto.
    cbv zeta. split; [exact L1|]. destruct Hx as [[Nr Same]|(pend' & bl & Bd & Up)].
    - left. rewrite note_gen_phs in Same. auto.
    - right. rewrite note_gen_phs in Up. unfold M at 1. rewrite Up.
      pose proof (M_upd P s c cc (if b then InStart rest pend' bl else InPrepare rest pend' bl) E L) as U.
      rewrite Ph in U. destruct b; simpl in U; lia. }
  destruct (ph s c) as [|rest pend bl| |rest pend bl|] eqn:Ph.
  - (* NotStarted *)
    destruct (parent_ready P s c); [|discriminate].
    destruct (has_prepare cc); inversion H; subst; apply SetPh; simpl; lia.
  - destruct bl as [k|].
    + assert (H' : match tfind k (table s) with
                   | Some v => let '(s', o) := exec P cc c false rest pend (note_gen s (Some v)) in Some (s', Got c k (Some v) :: o)
                   | None => None
                   end = Some (s', o)) by (destruct rest; destruct pend; exact H).
      clear H. destruct (tfind k (table s)) as [v|]; [|discriminate].
      pose proof (Exec false rest pend k v eq_refl) as X.
      destruct (exec P cc c false rest pend (note_gen s (Some v))) as [s1 o1]. inversion H'; subst. exact X.
    + destruct rest; destruct pend; try discriminate. inversion H; subst. apply SetPh. simpl. lia.
  - destruct (all_children_started P s c); [|discriminate].
    destruct (has_start cc); inversion H; subst; apply SetPh; simpl; lia.
  - destruct bl as [k|].
    + assert (H' : match tfind k (table s) with
                   | Some v => let '(s', o) := exec P cc c true rest pend (note_gen s (Some v)) in Some (s', Got c k (Some v) :: o)
                   | None => None
                   end = Some (s', o)) by (destruct rest; destruct pend; exact H).
      clear H. destruct (tfind k (table s)) as [v|]; [|discriminate].
      pose proof (Exec true rest pend k v eq_refl) as X.
      destruct (exec P cc c true rest pend (note_gen s (Some v))) as [s1 o1]. inversion H'; subst. exact X.
    + destruct rest; destruct pend; try discriminate. inversion H; subst. apply SetPh. simpl. lia.
  - discriminate.
Qed.

Lemma first_silent_some P s : forall cs x, first_silent P s cs = Some x -> exists c, silent P s c = Some x.
Proof.
  induction cs as [|c r IH]; intros x H; [discriminate|]. simpl in H.
  destruct (silent P s c) eqn:E; [inversion H; subst; eauto|auto].
Qed.

(* quiescent: the startup has ended, or it is running, the root has not finished and no silent
   transition applies *)
Definition settled (P : prog) (s : st) : Prop :=
  is_running s = false \/ (Nat.eqb (rank (ph s 0)) 4 = false /\ first_silent P s (seq 0 (length P)) = None).

Lemma running_status s : is_running s = true -> status_of s = Running.
Proof. unfold is_running. destruct (status_of s); auto; discriminate. Qed.

Theorem settle_settles P : forall fuel s, length (phs s) = length P -> M P s < fuel ->
  settled P (fst (settle fuel P s)) /\ length (phs (fst (settle fuel P s))) = length P /\
  (is_running (fst (settle fuel P s)) = true -> M P (fst (settle fuel P s)) <= M P s).
Proof.
  induction fuel as [|f IH]; intros s Len Lt; [lia|].
  cbn [settle]. destruct (is_running s) eqn:Run; cbn [negb].
  - destruct (Nat.eqb (rank (ph s 0)) 4) eqn:Root.
    + simpl. split; [left; reflexivity|]. split; auto; try (intro X; discriminate X).
    + destruct (first_silent P s (seq 0 (length P))) as [[s1 o1]|] eqn:FS.
      * destruct (first_silent_some P s _ _ FS) as (c & Sc).
        destruct (silent_measure P s c s1 o1 Len (running_status s Run) Sc) as [L1 Hx].
        destruct Hx as [[Nr Same]|Dec].
        -- (* the startup has just ended: the loop stops at once *)
           assert (E : settle f P s1 = (s1, [])).
           { destruct f; [reflexivity|]. cbn [settle]. rewrite Nr. reflexivity. }
           rewrite E. simpl. split; [left; exact Nr|]. split; auto. intro X. congruence.
        -- assert (Lt1 : M P s1 < f) by lia.
           destruct (IH s1 L1 Lt1) as (A & B & C).
           destruct (settle f P s1) as [s2 o2]. simpl in *. split; auto. split; auto. intro X. specialize (C X). lia.
      * simpl. split; [right; auto|]. split; auto.
  - simpl. split; [left; exact Run|]. split; auto.
Qed.

(* firing a gate: settled afterwards, the measure does not grow *)
Lemma fire_settles P s g : length (phs s) = length P -> M P s <= M0 P -> settled P s ->
  settled P (fst (fire P s g)) /\ length (phs (fst (fire P s g))) = length P /\
  (is_running (fst (fire P s g)) = true -> M P (fst (fire P s g)) <= M0 P).
Proof.
  intros Len Bd Q. unfold fire. destruct (is_running s) eqn:Run; cbn [negb]; [|simpl; auto].
  destruct g as [c|].
  - destruct (nth_error P c) as [cc|] eqn:E; [|simpl; auto].
    assert (L : c < length (phs s)) by (rewrite Len; apply nth_error_Some; congruence).
    assert (Go : forall (b : bool) sg rest,
              ph s c = (if b then InStart (sg :: rest) [] None else InPrepare (sg :: rest) [] None) ->
              let s1 := fst (exec P cc c b rest sg s) in
              settled P (fst (settle (fuel_for P) P s1)) /\ length (phs (fst (settle (fuel_for P) P s1))) = length P /\
              (is_running (fst (settle (fuel_for P) P s1)) = true -> M P (fst (settle (fuel_for P) P s1)) <= M0 P)).
    { intros b sg rest Ph. cbv zeta.
      destruct (exec_measure P cc c b rest sg s E L Len (running_status s Run)) as [L1 Hx].
      assert (Bd1 : M P (fst (exec P cc c b rest sg s)) <= M P s).
      { destruct Hx as [[_ Same]|(pend' & bl & B2 & Up)]; [unfold M; rewrite Same; lia|].
        unfold M at 1. rewrite Up.
        pose proof (M_upd P s c cc (if b then InStart rest pend' bl else InPrepare rest pend' bl) E L) as U.
        rewrite Ph in U. destruct b; simpl in U; lia. }
      pose proof (M0_fuel P) as F.
      destruct (settle_settles P (fuel_for P) _ L1 ltac:(lia)) as (A & B & C).
      split; auto. split; auto. intro X. specialize (C X). lia. }
    destruct (ph s c) as [|rest pend bl| |rest pend bl|] eqn:Ph; try (simpl; auto; fail).
    + destruct rest as [|sg rest]; [simpl; auto|]. destruct pend; [|simpl; auto]. destruct bl; [simpl; auto|].
      pose proof (Go false sg rest eq_refl) as X. cbv zeta in X.
      destruct (exec P cc c false rest sg s) as [s1 o1]. cbn [fst] in X.
      destruct (settle (fuel_for P) P s1) as [s2 o2]. exact X.
    + destruct rest as [|sg rest]; [simpl; auto|]. destruct pend; [|simpl; auto]. destruct bl; [simpl; auto|].
      pose proof (Go true sg rest eq_refl) as X. cbv zeta in X.
      destruct (exec P cc c true rest sg s) as [s1 o1]. cbn [fst] in X.
      destruct (settle (fuel_for P) P s1) as [s2 o2]. exact X.
  - destruct (armed s); simpl; auto. split; [left; reflexivity|]. split; auto; try (intro X; discriminate X).
Qed.

(* every state a run reaches is settled: the fuel never ran out *)
Theorem fuel_suffices : forall P timeout gs, let '(s, tr) := start_run P timeout gs in settled P s.
Proof.
  intros P timeout gs. unfold start_run, init.
  set (s0 := St (map (fun _ => NotStarted) P) [] [] Running timeout 0 []).
  assert (L0 : length (phs s0) = length P) by (simpl; apply map_length).
  assert (B0 : M P s0 = M0 P) by (unfold M; simpl; apply msum_init).
  pose proof (M0_fuel P) as F.
  destruct (settle_settles P (fuel_for P) s0 L0 ltac:(lia)) as (A & B & C).
  destruct (settle (fuel_for P) P s0) as [s1 o1]. cbn [fst] in *.
  assert (Inv : settled P s1 /\ length (phs s1) = length P /\ (is_running s1 = true -> M P s1 <= M0 P)).
  { split; auto. split; auto. intro X. specialize (C X). lia. }
  clear A B C. revert s1 o1 Inv. induction gs as [|g r IH]; intros s1 o1 (A & B & C); cbn [run_gates]; auto.
  destruct (is_running s1) eqn:Run.
  - destruct (fire_settles P s1 g B (C eq_refl) A) as (A' & B' & C').
    destruct (fire P s1 g) as [s2 o2]. cbn [fst] in *. apply IH. auto.
  - assert (E : fire P s1 g = (s1, [])) by (unfold fire; rewrite Run; reflexivity).
    rewrite E. apply IH. split; auto. split; auto. intro X. congruence.
Qed.

(* ... so the "at every quiescent point" of the C05/C06 theorems is "at every point a run reaches
   while the startup is running" *)
Theorem reached_is_quiescent : forall P timeout gs,
  let '(s, tr) := start_run P timeout gs in is_running s = true -> quiescent P s.
Proof.
  intros P timeout gs. pose proof (fuel_suffices P timeout gs) as H.
  destruct (start_run P timeout gs) as [s tr]. intro Run. destruct H as [H|[_ H]]; [congruence|exact H].
Qed.
