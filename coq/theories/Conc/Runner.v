(* Model of the application runner (src/asphalt/core/_runner.py: run_application,
   _run_application_async, handle_signals) on top of the root context's teardown stack
   (_context.py).  The life of an application is a history of things its own code does -- register
   teardown callbacks on the root context, start service tasks, fail / hang / receive a termination
   signal during startup, finish starting, return from or raise in run(), crash in a service task
   -- and the model says whether the application has ended, what the teardown does and how
   run_application() ends.  The numbers of the exit-code ladder, of the startup handlers and of the
   final return are those the translator reads from the source (Gen_exitcode).  Used by C15.
   Definitions only. *)
From Coq Require Import List Bool Arith ZArith.
From Asphalt Require Import Gen.Gen_exitcode Gen.Gen_sighandler.
Import ListNotations.

(* what run() gave back *)
Inductive result :=
| RNone
| RInt (z : Z)
| RBool (b : bool)            (* a bool is an int *)
| ROther.                     (* anything else: str, float, object *)

Inductive exn :=
| XCrash (sid : nat)          (* raised in service task sid *)
| XRun (e : nat).             (* raised by run() *)

Inductive ev :=
| Reg (id : nat) (pass : bool) (kids : list (nat * bool))
                                    (* add_teardown_callback on the root context (pass_exception); when the
                                       callback runs it registers further callbacks (kids) on the root context *)
| Svc (sid : nat)                   (* start_service_task on the root context *)
| Fail                              (* a component raises while being created / prepared / started *)
| Hang                              (* a component does not finish starting: the startup times out *)
| Sig                               (* SIGINT / SIGTERM *)
| Crash (sid : nat)                 (* service task sid raises *)
| Started                           (* start_component has returned *)
| RunReturn (r : result)            (* CLI applications only *)
| RunRaise (e : nat).

Inductive item := ICb (id : nat) (pass : bool) (kids : list (nat * bool)) | ISvc (sid : nat).

(* what brought the startup down *)
Inductive scause :=
| ByError                      (* `except BaseException` of the runner *)
| ByCancel.                    (* `except (cancelled, TimeoutError)`: signal or timeout *)

Record st := St {
  stack : list item;           (* the root context's teardown stack, oldest first *)
  started : bool;
  cause : option scause;       (* the startup has been brought down; the first cause counts *)
  signalled : bool;            (* a termination signal has arrived after startup *)
  crashed : option nat;        (* the first service task that raised *)
  runres : option (result + nat) }.

Definition init : st := St [] false None false None None.

Definition first_cause (c : option scause) (n : scause) : option scause :=
  match c with Some x => Some x | None => Some n end.

Definition step (s : st) (e : ev) : st :=
  match e with
  | Reg id p kids => St (stack s ++ [ICb id p kids]) (started s) (cause s) (signalled s) (crashed s) (runres s)
  | Svc sid => St (stack s ++ [ISvc sid]) (started s) (cause s) (signalled s) (crashed s) (runres s)
  | Fail => if started s then s else St (stack s) false (first_cause (cause s) ByError) (signalled s) (crashed s) (runres s)
  | Hang => if started s then s else St (stack s) false (first_cause (cause s) ByCancel) (signalled s) (crashed s) (runres s)
  | Sig =>
      (* what handle_signals does on a signal, as read from the source on this run (Gen_sighandler): cancelling
         the startup scope ends a startup still under way (and is without effect afterwards); setting the event
         is what a started plain application waits for -- and an event set during a startup that was NOT
         cancelled is still set when the startup has finished *)
      if started s then
        (if sig_sets_event then St (stack s) true (cause s) true (crashed s) (runres s) else s)
      else if sig_cancels_startup then
        St (stack s) false (first_cause (cause s) ByCancel) (signalled s) (crashed s) (runres s)
      else St (stack s) false (cause s) (signalled s || sig_sets_event) (crashed s) (runres s)
  | Crash sid =>
      match crashed s with
      | Some _ => s
      | None => St (stack s) (started s) (cause s) (signalled s) (Some sid) (runres s)
      end
  | Started => match cause s with Some _ => s | None => St (stack s) true None (signalled s) (crashed s) (runres s) end
  | RunReturn r =>
      match runres s with
      | Some _ => s
      | None => St (stack s) (started s) (cause s) (signalled s) (crashed s) (Some (inl r))
      end
  | RunRaise e =>
      match runres s with
      | Some _ => s
      | None => St (stack s) (started s) (cause s) (signalled s) (crashed s) (Some (inr e))
      end
  end.

Definition run (h : list ev) : st := fold_left step h init.

(* ---------- the result ladder of _run_application_async ---------- *)
Open Scope Z_scope.
Definition in_range (z : Z) : bool := (exit_lo <=? z) && (z <=? exit_hi).
Definition code_of (r : result) : Z :=
  match r with
  | RNone => final_code
  | RInt z => if in_range z then z else exit_out_of_range
  | RBool b => let z := if b then 1 else 0 in if in_range z then z else exit_out_of_range
  | ROther => exit_non_int
  end.
Close Scope Z_scope.

(* ---------- what the teardown callbacks are handed ---------- *)
Inductive arg :=
| ANoArg                      (* registered without pass_exception *)
| ANone                       (* the block ended without an exception *)
| AExc (x : exn)
| ACancelled.                 (* the backend's cancellation exception *)

Inductive obs :=
| Td (id : nat) (a : arg)
| SvcCancelled (sid : nat).   (* the service task is cancelled and waited for *)

Inductive outcome :=
| OReturn                     (* run_application returns normally *)
| OExit (z : Z)               (* SystemExit(z) *)
| ORaised (x : exn)           (* the exception comes out of run_application *)
| ORaisedTd (ids : list nat) (crash : option nat).
                              (* teardown callbacks raised: one group holding exactly their exceptions (in the
                                 order in which they ran) comes out instead -- together with the crash of a
                                 service task if that is what ended the application *)

(* run_application: `if exit_code := anyio.run(...): sys.exit(exit_code)` *)
Definition exit_of (z : Z) : outcome :=
  if exits_when_truthy && negb (Z.eqb z 0) then OExit z else OReturn.

(* the LIFO teardown of the root context: callbacks are called (with the exception that ended the
   block when they asked for it), the finalizer of a service task cancels it and waits for it *)
Definition td_item (a : arg) (dead : option nat) (i : item) : list obs :=
  match i with
  | ICb id p kids =>
      (* what the callback registers while it runs lands on top of the stack and is popped next *)
      Td id (if p then a else ANoArg) :: map (fun k : nat * bool => Td (fst k) (if snd k then a else ANoArg)) (rev kids)
  | ISvc sid => match dead with
                | Some d => if Nat.eqb d sid then [] else [SvcCancelled sid]
                | None => [SvcCancelled sid]
                end
  end.
Definition teardown (a : arg) (dead : option nat) (stk : list item) : list obs :=
  flat_map (td_item a dead) (rev stk).

(* has the application ended, and if so how?  None: it is still running *)
Definition finish (cli : bool) (s : st) : option (list obs * outcome) :=
  match crashed s with
  | Some sid =>
      (* the crash cancels the host task; during startup the runner's handler then returns, and
         the block is left without an exception before the task group raises the crash *)
      Some (teardown (if started s then ACancelled else ANone) (Some sid) (stack s), ORaised (XCrash sid))
  | None =>
      if negb (started s) then
        match cause s with
        | Some ByError => Some (teardown ANone None (stack s), exit_of startup_error_code)
        | Some ByCancel => Some (teardown ANone None (stack s), exit_of startup_cancel_code)
        | None => None
        end
      else if cli then
        match runres s with
        | Some (inl r) => Some (teardown ANone None (stack s), exit_of (code_of r))
        | Some (inr e) => Some (teardown (AExc (XRun e)) None (stack s), ORaised (XRun e))
        | None => None
        end
      else if signalled s then Some (teardown ANone None (stack s), exit_of final_code)
      else None
  end.

Definition app (cli : bool) (h : list ev) : option (list obs * outcome) := finish cli (run h).

(* ---------- teardown callbacks that raise ---------- *)
(* `raisers`: the ids of the callbacks (registered before or during the teardown) that raise an Exception when
   they are called.  Nothing changes for the teardown itself -- every callback is still invoked, in the same
   order, with the same argument --; what changes is how run_application ends: the root context's exit raises
   one group of what the callbacks raised, and that, not the status, is what comes out. *)
Definition ran (o : list obs) : list nat := flat_map (fun x => match x with Td id _ => [id] | _ => [] end) o.
Definition raised_by (raisers : list nat) (o : list obs) : list nat :=
  filter (fun id => existsb (Nat.eqb id) raisers) (ran o).
Definition finish_r (cli : bool) (raisers : list nat) (s : st) : option (list obs * outcome) :=
  match finish cli s with
  | None => None
  | Some (o, out) =>
      Some (o, match raised_by raisers o with
               | [] => out
               | r => ORaisedTd r (match out with ORaised (XCrash sid) => Some sid | _ => None end)
               end)
  end.
Definition app_r (cli : bool) (raisers : list nat) (h : list ev) : option (list obs * outcome) :=
  finish_r cli raisers (run h).
