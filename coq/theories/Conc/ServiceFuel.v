(* The fuel of [settle] in the service-task machine is sufficient: every state a run reaches is
   settled (no silent transition is left).  A measure on the owner and the tasks that every silent
   transition strictly decreases and no gate firing increases. *)
From Coq Require Import List Bool Arith Lia.
From Asphalt Require Import Conc.Service Conc.ServiceProofs.
Import ListNotations.

Definition mt (t : tstate) : nat :=
  match t with TNone => 0 | TRun _ => 3 | TWait => 2 | TCleanup _ => 2 | TCtx _ => 1 | TDone => 0 end.
Definition MT (l : list tstate) : nat := list_sum (map mt l).

Definition starts (p : list bop) : nat := length (filter (fun b => match b with StartSvc _ => true | _ => false end) p).
Definition bflag {A} (w : option A) : nat := match w with Some _ => 1 | None => 0 end.
Definition mo (s : st) : nat :=
  match own s with
  | InBlock rest => 2 * (length (regs s) + length rest) + 3 * starts rest + 2
  | InTeardown stack w => 2 * length stack + bflag w + 1
  | OLeft => 0
  end.
Definition M (s : st) : nat := mo s + MT (tasks s).

Lemma MT_upd : forall (l : list tstate) i t', i < length l -> MT (Service.upd l i t') + mt (nth i l TNone) = MT l + mt t'.
Proof.
  unfold MT. induction l as [|y r IH]; intros [|i] t' L; simpl in *; try lia.
  specialize (IH i t' ltac:(lia)). lia.
Qed.
Lemma MT_upd_out : forall (l : list tstate) i t', length l <= i -> Service.upd l i t' = l.
Proof. induction l as [|y r IH]; intros [|i] t' L; simpl in *; auto; try lia. f_equal. apply IH. lia. Qed.

(* replacing a task's state by one that weighs no more does not increase the measure *)
Lemma MT_set_le (l : list tstate) i t' : mt t' <= mt (nth i l TNone) -> MT (Service.upd l i t') <= MT l.
Proof.
  intro H. destruct (Nat.lt_ge_cases i (length l)) as [L|G].
  - pose proof (MT_upd l i t' L). lia.
  - rewrite MT_upd_out by auto. lia.
Qed.
Lemma MT_set_lt (l : list tstate) i t' : mt t' < mt (nth i l TNone) -> MT (Service.upd l i t') < MT l.
Proof.
  intro H. destruct (Nat.lt_ge_cases i (length l)) as [L|G].
  - pose proof (MT_upd l i t' L). lia.
  - rewrite nth_overflow in H by auto. simpl in H. lia.
Qed.

Section Fuel.
Variable SV : list svc.

Lemma cancel_task_M s sid : mo (fst (cancel_task SV s sid)) = mo s /\ MT (tasks (fst (cancel_task SV s sid))) <= MT (tasks s).
Proof.
  unfold cancel_task, ts. destruct (nth sid (tasks s) TNone) eqn:E; simpl; auto; split; auto;
    apply MT_set_le; rewrite E; simpl; lia.
Qed.

Lemma finalize_act_M s sid : mo (fst (finalize_act SV s sid)) = mo s /\ MT (tasks (fst (finalize_act SV s sid))) <= MT (tasks s).
Proof.
  unfold finalize_act. destruct (s_action (svc_of SV sid)) as [| |[|]].
  - apply cancel_task_M.
  - simpl. auto.
  - pose proof (cancel_task_M s sid) as H. destruct (cancel_task SV s sid). simpl in *. exact H.
  - unfold ts. destruct (nth sid (tasks s) TNone) eqn:E; simpl; auto. split; auto.
    apply MT_set_le. rewrite E. simpl. lia.
Qed.

Lemma silent_task_M s sid s' o : silent_task SV s sid = Some (s', o) -> M s' < M s.
Proof.
  unfold silent_task, ts. intro H. destruct (nth sid (tasks s) TNone) as [|[|k]| |[|k]|[|k]|] eqn:E; try discriminate.
  - destruct (existsb (Nat.eqb sid) (stopreq s)); [|destruct (s_ends (svc_of SV sid))]; inversion H; subst;
      unfold M, mo; simpl; apply Nat.add_lt_mono_l; apply MT_set_lt; rewrite E; simpl; lia.
  - inversion H; subst. unfold M, mo; simpl. apply Nat.add_lt_mono_l. apply MT_set_lt. rewrite E. simpl. lia.
  - inversion H; subst. unfold M, mo; simpl. apply Nat.add_lt_mono_l. apply MT_set_lt. rewrite E. simpl. lia.
Qed.

Lemma first_task_M s : forall sids s' o, first_task SV s sids = Some (s', o) -> M s' < M s.
Proof.
  induction sids as [|sid r IH]; intros s' o H; [discriminate|]. simpl in H.
  destruct (silent_task SV s sid) as [[s1 o1]|] eqn:E; [inversion H; subst; eapply silent_task_M; eauto|eauto].
Qed.

Lemma rev_cons_length {A} (l : list A) x r : rev l = x :: r -> length l = S (length r).
Proof. intro H. rewrite <- (rev_length l), H. reflexivity. Qed.

Lemma silent_owner_M s s' o : silent_owner SV s = Some (s', o) -> M s' < M s.
Proof.
  unfold silent_owner. intro H. destruct (own s) as [rest|stack [sid|]|] eqn:Eo; try discriminate.
  - destruct (ts s sid); try discriminate. inversion H; subst. unfold M, mo. simpl. rewrite Eo. simpl. lia.
  - destruct (rev stack) as [|[id|sid] r] eqn:Er.
    + inversion H; subst. unfold M, mo. simpl. rewrite Eo. simpl. lia.
    + inversion H; subst. apply rev_cons_length in Er. unfold M, mo. simpl. rewrite Eo, rev_length. simpl. lia.
    + pose proof (finalize_act_M s sid) as [A B].
      assert (O1 : own (fst (finalize_act SV s sid)) = own s) by (destruct (finalize_act_frame SV s sid) as (X & _); exact X).
      destruct (finalize_act SV s sid) as [s1 o1]. simpl in *. inversion H; subst.
      apply rev_cons_length in Er. unfold M, mo in *. simpl. rewrite Eo in *. rewrite rev_length. simpl. lia.
Qed.

Definition settled (s : st) : Prop :=
  first_task SV s (seq 0 (length SV)) = None /\ silent_owner SV s = None.

Theorem settle_settles : forall fuel s, M s < fuel ->
  settled (fst (settle fuel SV s)) /\ M (fst (settle fuel SV s)) <= M s.
Proof.
  induction fuel as [|f IH]; intros s Lt; [lia|]. cbn [settle].
  destruct (first_task SV s (seq 0 (length SV))) as [[s1 o1]|] eqn:FT.
  - pose proof (first_task_M s _ _ _ FT) as D. destruct (IH s1 ltac:(lia)) as [A B].
    destruct (settle f SV s1) as [s2 o2]. simpl in *. split; auto. lia.
  - destruct (silent_owner SV s) as [[s1 o1]|] eqn:SO.
    + pose proof (silent_owner_M s _ _ SO) as D. destruct (IH s1 ltac:(lia)) as [A B].
      destruct (settle f SV s1) as [s2 o2]. simpl in *. split; auto. lia.
    + simpl. split; [split; auto|lia].
Qed.

Variable prog : list bop.

Definition M0 : nat := 2 * length prog + 3 * starts prog + 2.

Lemma starts_le (p : list bop) : starts p <= length p.
Proof. unfold starts. induction p as [|b r IH]; simpl; auto. destruct b; simpl; lia. Qed.

Lemma M0_fuel : M0 < fuel_for SV prog.
Proof. unfold M0, fuel_for. pose proof (starts_le prog). lia. Qed.

Lemma fire_settles s g : M s <= M0 ->
  (settled s -> settled (fst (fire SV prog s g))) /\ M (fst (fire SV prog s g)) <= M0.
Proof.
  intro Bd. pose proof M0_fuel as F. destruct g as [|sid]; cbn [fire].
  - destruct (own s) as [[|b rest]|stack w|] eqn:Eo; try (simpl; auto; fail).
    assert (Step : forall s1, M s1 <= M s ->
              (settled (fst (settle (fuel_for SV prog) SV s1))) /\ M (fst (settle (fuel_for SV prog) SV s1)) <= M0).
    { intros s1 Le. destruct (settle_settles (fuel_for SV prog) s1 ltac:(lia)) as [A B]. split; auto. lia. }
    destruct b as [id|sid|].
    + specialize (Step (St (InBlock rest) (regs s ++ [ICb id]) (tasks s) (stopreq s))).
      destruct (settle (fuel_for SV prog) SV _) as [s2 o2]. simpl in *.
      destruct Step as [A B]; [|split; auto].
      unfold M, mo. simpl. rewrite Eo. simpl. rewrite app_length. simpl. unfold starts. simpl. lia.
    + specialize (Step (St (InBlock rest) (regs s ++ [ISvc sid]) (Service.upd (tasks s) sid (TRun (s_run (svc_of SV sid)))) (stopreq s))).
      destruct (settle (fuel_for SV prog) SV _) as [s2 o2]. simpl in *.
      destruct Step as [A B]; [|split; auto].
      unfold M, mo. simpl. rewrite Eo. simpl. rewrite app_length. simpl. unfold starts. simpl.
      assert (MT (Service.upd (tasks s) sid (TRun (s_run (svc_of SV sid)))) <= MT (tasks s) + 3).
      { destruct (Nat.lt_ge_cases sid (length (tasks s))) as [L|G].
        - pose proof (MT_upd (tasks s) sid (TRun (s_run (svc_of SV sid))) L). simpl in *. lia.
        - rewrite MT_upd_out by auto. lia. }
      lia.
    + specialize (Step (St (InTeardown (regs s) None) (regs s) (tasks s) (stopreq s))).
      destruct (settle (fuel_for SV prog) SV _) as [s2 o2]. simpl in *.
      destruct Step as [A B]; [|split; auto].
      unfold M, mo. simpl. rewrite Eo. simpl. lia.
  - unfold ts. destruct (nth sid (tasks s) TNone) as [|[|k]| |[|k]|[|k]|] eqn:E; try (simpl; auto; fail).
    all: match goal with |- context [settle ?f SV ?s1] =>
           assert (Le : M s1 <= M s) by (unfold M, mo, set_task; simpl; apply Nat.add_le_mono_l; apply MT_set_le; rewrite E; simpl; lia);
           destruct (settle_settles f s1 ltac:(lia)) as [A B]; destruct (settle f SV s1) as [s2 o2]; simpl in *; split; auto; lia
         end.
Qed.

Lemma init_M : M (init SV prog) <= M0.
Proof.
  unfold M, mo, init, M0. simpl.
  assert (MT (map (fun _ : svc => TNone) SV) = 0) as -> by (unfold MT; induction SV; simpl; auto).
  lia.
Qed.

(* every state a run reaches after its first gate is settled, and so is the initial state *)
Lemma init_settled : settled (init SV prog).
Proof.
  unfold settled, init. split.
  - assert (Z : forall sids, first_task SV (St (InBlock prog) [] (map (fun _ => TNone) SV) []) sids = None).
    { induction sids as [|sid r IH]; simpl; auto. unfold silent_task, ts. simpl.
      assert (nth sid (map (fun _ : svc => TNone) SV) TNone = TNone) as ->; auto.
      clear. revert sid. induction SV as [|y l IHl]; intros [|sid]; simpl; auto. }
    apply Z.
  - reflexivity.
Qed.

Theorem fuel_suffices : forall gs, let '(s, tr) := run_gates SV prog (init SV prog) [] gs in settled s.
Proof.
  intro gs. generalize (init SV prog) (@nil obs) init_settled init_M.
  induction gs as [|g r IH]; intros s tr Q Bd; simpl; auto.
  destruct (fire_settles s g Bd) as [A B]. destruct (fire SV prog s g) as [s1 o1]. simpl in *. apply IH; auto.
Qed.

End Fuel.
