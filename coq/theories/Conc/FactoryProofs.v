(* Theorems about task factories (C09). *)
From Coq Require Import List Bool Arith Lia.
From Asphalt Require Import Conc.Factory Gen.Gen_service Gen.Gen_taskfactory.
Import ListNotations.

Lemma upd_length {A} (l : list A) i x : length (upd l i x) = length l.
Proof. revert i. induction l; intros [|n]; simpl; auto. Qed.
Lemma nth_error_upd_same {A} (l : list A) : forall i x, i < length l -> nth_error (upd l i x) i = Some x.
Proof. induction l as [|y r IH]; intros [|i] x L; simpl in *; try lia; auto. apply IH. lia. Qed.
Lemma nth_error_upd_other {A} (l : list A) : forall i j x, j <> i -> nth_error (upd l i x) j = nth_error l j.
Proof. induction l as [|y r IH]; intros [|i] [|j] x N; simpl; auto; congruence. Qed.

Lemma tstate_set_same s k t : k < length (tasks s) -> tstate_of (set_t s k t) k = t.
Proof.
  intro L. unfold set_t, tstate_of. destruct (nth_error (tasks s) k) as [[b t0]|] eqn:E.
  - simpl. now rewrite nth_error_upd_same.
  - apply nth_error_None in E. lia.
Qed.
Lemma tstate_set_other s k t j : j <> k -> tstate_of (set_t s k t) j = tstate_of s j.
Proof.
  intro N. unfold set_t, tstate_of. destruct (nth_error (tasks s) k) as [[b t0]|]; auto.
  simpl. now rewrite nth_error_upd_other.
Qed.
Lemma set_t_handles s k t : handles (set_t s k t) = handles s.
Proof. unfold set_t. destruct (nth_error (tasks s) k) as [[b t0]|]; reflexivity. Qed.
Lemma set_t_length s k t : length (tasks (set_t s k t)) = length (tasks s).
Proof. unfold set_t. destruct (nth_error (tasks s) k) as [[b t0]|]; simpl; auto. apply upd_length. Qed.
Lemma set_t_ph s k t : ph (set_t s k t) = ph s.
Proof. unfold set_t. destruct (nth_error (tasks s) k) as [[b t0]|]; reflexivity. Qed.

(* the invariant: all_task_handles() is exactly the set of spawned tasks that have not finished *)
Record hinv (s : st) : Prop := {
  h_nodup : NoDup (handles s);
  h_exact : forall k, In k (handles s) <-> running s k = true
}.

Lemma running_bound s k : running s k = true -> k < length (tasks s).
Proof.
  unfold running, tstate_of. destruct (nth_error (tasks s) k) as [[b t]|] eqn:E; [|discriminate].
  intros _. apply nth_error_Some. congruence.
Qed.

Lemma filter_NoDup {A} (f : A -> bool) l : NoDup l -> NoDup (filter f l).
Proof.
  induction 1; simpl; [constructor|]. destruct (f x); auto. constructor; auto.
  intro Hin. apply filter_In in Hin. tauto.
Qed.

Lemma end_task_inv s k : hinv s -> hinv (remove_handle (set_t s k TEnded) k).
Proof.
  intros [N E]. constructor; simpl; rewrite set_t_handles.
  - now apply filter_NoDup.
  - intro j. rewrite filter_In. unfold running. destruct (Nat.eq_dec j k) as [->|Ne].
    + rewrite Nat.eqb_refl. simpl. split; [intros [_ H]; discriminate|].
      change (tstate_of (remove_handle (set_t s k TEnded) k) k) with (tstate_of (set_t s k TEnded) k).
      destruct (Nat.lt_ge_cases k (length (tasks s))) as [L|G].
      * rewrite tstate_set_same by auto. discriminate.
      * unfold tstate_of, set_t. destruct (nth_error (tasks s) k) eqn:X; [apply nth_error_None in G; congruence|].
        rewrite X. discriminate.
    + assert (Nat.eqb j k = false) as -> by now apply Nat.eqb_neq. simpl.
      change (tstate_of (remove_handle (set_t s k TEnded) k) j) with (tstate_of (set_t s k TEnded) j).
      rewrite tstate_set_other by auto. specialize (E j). unfold running in E. tauto.
Qed.

Lemma crashed_inv (l : list (beh * tstate)) e : hinv (St (map (fun bt => (fst bt, TEnded)) l) [] (Crashed e)).
Proof.
  constructor; simpl; [constructor|]. intro k. split; [intros []|].
  unfold running, tstate_of. simpl. rewrite nth_error_map. destruct (nth_error l k); simpl; discriminate.
Qed.

Lemma finish_task_inv v s k b : hinv s -> hinv (fst (finish_task v s k b)).
Proof.
  intro I. unfold finish_task. destruct (b_end b) as [|e]; simpl; [now apply end_task_inv|].
  destruct (swallowed v); simpl; [now apply end_task_inv|apply crashed_inv].
Qed.

Lemma maybe_close_inv s : hinv s -> hinv (fst (maybe_close s)).
Proof.
  intros I. unfold maybe_close. destruct (ph s); simpl; auto.
  destruct (handles s) eqn:H; simpl; auto.
  destruct I as [N E]. constructor; simpl; [constructor|]. intro k. specialize (E k). rewrite H in E. exact E.
Qed.

Lemma set_run_inv s k n m : hinv s -> tstate_of s k = TRun m -> hinv (set_t s k (TRun n)).
Proof.
  intros [N E] R. constructor; rewrite set_t_handles; auto.
  intro j. rewrite (E j). unfold running. destruct (Nat.eq_dec j k) as [->|Ne].
  - assert (L : k < length (tasks s)).
    { unfold tstate_of in R. destruct (nth_error (tasks s) k) eqn:X; [apply nth_error_Some; congruence|discriminate]. }
    rewrite tstate_set_same by auto. rewrite R. tauto.
  - rewrite tstate_set_other by auto. tauto.
Qed.

Lemma spawn_inv s b : hinv s ->
  hinv (St (tasks s ++ [(b, TRun (b_segs b))]) (handles s ++ [length (tasks s)]) (ph s)).
Proof.
  intros [N E]. constructor; simpl.
  - assert (Fresh : ~ In (length (tasks s)) (handles s)).
    { intro H. apply E in H. apply running_bound in H. lia. }
    clear E. induction (handles s) as [|h r IH]; simpl.
    + constructor; [intros []|constructor].
    + inversion N; subst. constructor.
      * rewrite in_app_iff. intros [H|[H|[]]]; [contradiction|subst; apply Fresh; simpl; auto].
      * apply IH; auto. intro H. apply Fresh. simpl. auto.
  - intro k. rewrite in_app_iff. unfold running, tstate_of. simpl.
    destruct (Nat.lt_ge_cases k (length (tasks s))) as [L|G].
    + rewrite nth_error_app1 by auto. specialize (E k). unfold running, tstate_of in E. rewrite <- E.
      split; [intros [H|[H|[]]]; [auto|lia]|auto].
    + rewrite nth_error_app2 by auto. destruct (k - length (tasks s)) eqn:D; simpl.
      * assert (k = length (tasks s)) by lia. subst. split; auto.
      * assert (X : In k (handles s) \/ length (tasks s) = k \/ False -> False).
        { intros [H|[H|[]]]; [apply E in H; apply running_bound in H; lia|lia]. }
        destruct n; simpl; split; try discriminate; intro H; exfalso; auto.
Qed.

Theorem fire_inv v s g : hinv s -> hinv (fst (fire v s g)).
Proof.
  intro I. unfold fire. destruct (ph s) eqn:P; auto; destruct g as [b|k|k|].
  all: try (simpl; auto; fail).
  (* Open / Closing / Closed, per gate *)
  all: try (
    (* spawn *)
    pose proof (spawn_inv s b I) as I1;
    destruct (b_segs b) eqn:Sg; [|rewrite P in I1; exact I1];
    pose proof (finish_task_inv v _ (length (tasks s)) b I1) as I2; rewrite P in I2;
    destruct (finish_task v _ (length (tasks s)) b) as [s2 o];
    pose proof (maybe_close_inv s2 I2) as I3; destruct (maybe_close s2); exact I3).
  all: try (
    (* a task segment *)
    destruct (nth_error (tasks s) k) as [[b [[|n]|]]|] eqn:E; auto;
    destruct n as [|n'];
    [ pose proof (finish_task_inv v s k b I) as I2; destruct (finish_task v s k b) as [s2 o];
      pose proof (maybe_close_inv s2 I2) as I3; destruct (maybe_close s2); exact I3
    | apply (set_run_inv s k (S n') (S (S n'))); auto; unfold tstate_of; now rewrite E ]).
  all: try (
    (* cancel through the handle *)
    destruct (tstate_of s k) eqn:E; auto;
    destruct (oncancel_of s k) as [e|];
    [ pose proof (finish_task_inv v s k (Beh 0 (ERaise e) None) I) as I2;
      destruct (finish_task v s k (Beh 0 (ERaise e) None)) as [s2 o];
      pose proof (maybe_close_inv s2 I2) as I3; destruct (maybe_close s2); exact I3
    | pose proof (maybe_close_inv _ (end_task_inv s k I)) as I3;
      destruct (maybe_close (remove_handle (set_t s k TEnded) k)); exact I3 ]).
  (* teardown *)
  all: try (apply maybe_close_inv; destruct I as [N E]; constructor; auto).
Qed.

Theorem run_inv : forall v gs, let '(s, tr) := run_gates v init [] gs in hinv s.
Proof.
  intros v gs.
  assert (I0 : hinv init).
  { constructor; simpl; [constructor|]. intro k. split; [intros []|]. unfold running, tstate_of. simpl.
    destruct k; discriminate. }
  generalize init (@nil obs) I0. induction gs as [|g r IH]; intros s tr I; simpl; auto.
  pose proof (fire_inv v s g I) as I1. destruct (fire v s g) as [s1 o1]. apply IH. exact I1.
Qed.

(* C09: at every point of every run all_task_handles() is exactly the set of spawned tasks that
   have not finished *)
Theorem handles_exact : forall v gs s tr k,
  run_gates v init [] gs = (s, tr) -> (In k (handles s) <-> running s k = true).
Proof. intros v gs s tr k E. pose proof (run_inv v gs) as I. rewrite E in I. apply (h_exact s I). Qed.

(* cancel() ends only that task *)
Theorem cancel_only_that_task : forall v s k j, j <> k -> ph s = Open ->
  oncancel_of s k = None \/ swallowed v = true ->
  tstate_of (fst (fire v s (GCancel k))) j = tstate_of s j.
Proof.
  intros v s k j N P W. unfold fire. rewrite P. destruct (tstate_of s k) eqn:E; auto.
  destruct (oncancel_of s k) as [e|] eqn:Oc.
  - destruct W as [W|W]; [discriminate|]. unfold finish_task. simpl. rewrite W.
    unfold maybe_close. simpl. rewrite set_t_ph, P. simpl.
    change (tstate_of (remove_handle (set_t s k TEnded) k) j) with (tstate_of (set_t s k TEnded) j).
    now apply tstate_set_other.
  - unfold maybe_close. simpl. rewrite set_t_ph, P. simpl.
    change (tstate_of (remove_handle (set_t s k TEnded) k) j) with (tstate_of (set_t s k TEnded) j).
    now apply tstate_set_other.
Qed.

(* ... and an Exception escaping the cancelled task is handled like any other: handler consulted
   once, propagates unless swallowed *)
Theorem cancelled_task_raising : forall v s k e n, ph s = Open -> tstate_of s k = TRun n -> oncancel_of s k = Some e ->
  (swallowed v = false -> ph (fst (fire v s (GCancel k))) = Crashed e) /\
  (forall verdict, v = Some verdict -> In (Handler k e) (snd (fire v s (GCancel k)))).
Proof.
  intros v s k e n P R Oc. unfold fire. rewrite P, R, Oc. unfold finish_task. simpl. split.
  - intro W. rewrite W. reflexivity.
  - intros verdict ->. destruct verdict; simpl.
    + destruct (maybe_close _); simpl. auto.
    + auto.
Qed.

(* tearing the owner down never cancels a task: it changes no task state, and the owner's block
   is left only when no task is running *)
Theorem teardown_waits : forall v s, ph s = Open ->
  tasks (fst (fire v s GTeardown)) = tasks s /\
  (ph (fst (fire v s GTeardown)) = Closed <-> handles s = []) /\
  ~ In (CancelSeen 0) (snd (fire v s GTeardown)) /\ (forall k, ~ In (CancelSeen k) (snd (fire v s GTeardown))).
Proof.
  intros v s P. unfold fire. rewrite P. unfold maybe_close. simpl.
  destruct (handles s) eqn:H; simpl; repeat split; auto; try discriminate; try tauto;
    try (intros k [X|[]]; discriminate); try (intros [X|[]]; discriminate); intro X; discriminate.
Qed.

Theorem owner_left_only_when_idle : forall s, ph s = Closing ->
  (snd (maybe_close s) = [OwnerLeft] <-> handles s = []).
Proof.
  intros s P. unfold maybe_close. rewrite P. destruct (handles s); simpl; split; auto; discriminate.
Qed.

(* an escaping Exception is passed to the handler exactly once; swallowed iff the verdict is truthy *)
Theorem handler_verdict : forall verdict s k b e, b_end b = ERaise e ->
  (exists o, snd (finish_task (Some verdict) s k b) = Handler k e :: o /\ forall k' e', ~ In (Handler k' e') o) /\
  (verdict = true -> ph (fst (finish_task (Some verdict) s k b)) = ph s) /\
  (verdict = false -> ph (fst (finish_task (Some verdict) s k b)) = Crashed e).
Proof.
  intros verdict s k b e H. unfold finish_task. rewrite H. destruct verdict; simpl.
  - split; [|split; [intros _; apply set_t_ph|discriminate]].
    eexists. split; [reflexivity|]. intros k' e' [X|[]]. discriminate.
  - split; [|split; [discriminate|auto]].
    eexists. split; [reflexivity|]. intros k' e' Hin. simpl in Hin. destruct Hin as [X|Hin]; [discriminate|].
    apply in_app_or in Hin. destruct Hin as [Hin|[X|[]]]; [|discriminate].
    apply in_flat_map in Hin. destruct Hin as (h & _ & [X|[X|[]]]); discriminate.
Qed.

(* without a handler nothing is swallowed *)
Theorem no_handler_propagates : forall s k b e, b_end b = ERaise e -> ph (fst (finish_task None s k b)) = Crashed e.
Proof. intros s k b e H. unfold finish_task. rewrite H. reflexivity. Qed.

(* every task runs in a child of the factory's own context, whoever spawned it *)
Lemma finish_no_spawn v s k b j p : ~ In (Spawned j p) (snd (finish_task v s k b)).
Proof.
  unfold finish_task. destruct (b_end b) as [|e]; simpl; [intros [X|[]]; discriminate|].
  assert (Ho : ~ In (Spawned j p) (match v with Some _ => [Handler k e] | None => [] end))
    by (destruct v; simpl; [intros [X|[]]; discriminate|tauto]).
  destruct (swallowed v); simpl; intro H; apply in_app_or in H; destruct H as [H|H]; try contradiction.
  - destruct H as [X|[]]. discriminate.
  - destruct H as [X|H]; [discriminate|]. apply in_app_or in H. destruct H as [H|[X|[]]]; [|discriminate].
    apply in_flat_map in H. destruct H as (h & _ & [X|[X|[]]]); discriminate.
Qed.
Lemma close_no_spawn s j p : ~ In (Spawned j p) (snd (maybe_close s)).
Proof.
  unfold maybe_close. destruct (ph s); simpl; try tauto. destruct (handles s); simpl; [intros [X|[]]; discriminate|tauto].
Qed.

Theorem task_context : forall v s b k p, In (Spawned k p) (snd (fire v s (GSpawn b))) -> p = true.
Proof.
  intros v s b k p. unfold fire. destruct (ph s); simpl; try (intros [X|[]]; discriminate); try tauto.
  all: destruct (b_segs b); simpl; try (intros [X|[]]; inversion X; reflexivity).
  all: pose proof (finish_no_spawn v (St (tasks s ++ [(b, TRun 0)]) (handles s ++ [length (tasks s)]) Open) (length (tasks s)) b k p) as F1;
       pose proof (finish_no_spawn v (St (tasks s ++ [(b, TRun 0)]) (handles s ++ [length (tasks s)]) Closing) (length (tasks s)) b k p) as F2.
  all: match goal with |- context [finish_task ?w ?x ?y ?z] => destruct (finish_task w x y z) as [s2 o2] eqn:F end.
  all: pose proof (close_no_spawn s2 k p) as C; destruct (maybe_close s2) as [s3 o3]; simpl in *.
  all: intros [X|Hin]; [inversion X; reflexivity|exfalso; apply in_app_or in Hin; tauto].
Qed.

(* ---------- the shape of run_background_task (Gen/Gen_service.v) ---------- *)
Theorem background_task_source_shape :
  bg_scope_encloses_context = true /\ bg_context_parent_is_given = true /\
  bg_started_before_target_without_status = true /\ bg_handler_for_exceptions_only = true /\
  bg_handler_consulted_iff_given = true /\ bg_swallowed_iff_truthy = true /\
  bg_finished_in_finally_after_context = true.
Proof. repeat split. Qed.

Theorem task_factory_source_shape :
  tf_is_a_service_task_of_the_owner = true /\ tf_teardown_only_sets_an_event = true /\
  tf_context_is_the_service_tasks = true /\ tf_handle_added_before_spawn = true /\
  tf_start_task_discards_on_failure = true /\ tf_start_task_soon_discards_on_failure = true /\
  tf_handle_removed_in_finally = true /\ tf_all_task_handles_is_a_copy = true.
Proof. repeat split. Qed.

(* a spawn that fails leaves the state exactly as it was (computed from the two spawn methods as read) *)
Theorem failed_spawn_leaves_nothing : forall s b, failed_spawn s b = (s, [SpawnFailed]).
Proof. reflexivity. Qed.
