(* Model of task factories (src/asphalt/core/_concurrent.py: TaskFactory, run_background_task;
   _context.py: start_background_task_factory) as a scheduled machine: one factory started in an
   owning context; tasks are spawned at any time, run gated segments and end by returning, by
   raising, or by being cancelled through their handle; the owning context is torn down at a
   moment the director chooses.  The set of live handles is modelled as the code keeps it (added
   on spawn, removed when the task wrapper exits), not derived.  Used by C09.  Definitions only. *)
From Coq Require Import List Bool Arith.
From Asphalt Require Import Gen.Gen_taskfactory.
Import ListNotations.

Inductive ending :=
| EReturn
| ERaise (e : nat).               (* an Exception escapes the task function *)

Record beh := Beh {
  b_segs : nat;
  b_end : ending;
  b_oncancel : option nat }.      (* when cancelled through its handle the task raises this Exception
                                     (from a finally block, say) instead of letting the cancellation through *)

Inductive tstate :=
| TRun (left : nat)               (* at the gate of its next segment when left > 0 *)
| TEnded.

Inductive phase :=
| Open                            (* the factory's context is open *)
| Closing                         (* the owning context is being torn down: waiting for the tasks *)
| Closed                          (* torn down, all tasks finished *)
| Crashed (e : nat).              (* an unhandled task exception took the application down *)

Inductive obs :=
| Spawned (k : nat) (parent_is_factory_ctx : bool)   (* the task's context is a child of the factory's *)
| SpawnFailed                                         (* RuntimeError: the factory is gone *)
| Seg (k : nat)
| Handler (k : nat) (e : nat)                         (* the exception handler was consulted *)
| Ended (k : nat)                                     (* the task's finished event was set *)
| CancelSeen (k : nat)
| OwnerLeft
| OwnerRaised (e : nat).

Record st := St {
  tasks : list (beh * tstate);     (* every task spawned so far, by handle number *)
  handles : list nat;              (* TaskFactory._tasks *)
  ph : phase }.

Definition tstate_of (s : st) (k : nat) : tstate := match nth_error (tasks s) k with Some (_, t) => t | None => TEnded end.
Fixpoint upd {A} (l : list A) (i : nat) (x : A) : list A :=
  match l, i with [], _ => [] | _ :: r, O => x :: r | y :: r, S i' => y :: upd r i' x end.
Definition set_t (s : st) (k : nat) (t : tstate) : st :=
  match nth_error (tasks s) k with
  | Some (b, _) => St (upd (tasks s) k (b, t)) (handles s) (ph s)
  | None => s
  end.
Definition remove_handle (s : st) (k : nat) : st :=
  St (tasks s) (filter (fun h => negb (Nat.eqb h k)) (handles s)) (ph s).

Definition oncancel_of (s : st) (k : nat) : option nat :=
  match nth_error (tasks s) k with Some (b, _) => b_oncancel b | None => None end.
Definition running (s : st) (k : nat) : bool := match tstate_of s k with TRun _ => true | TEnded => false end.

(* the handler's verdict: None = no handler; Some true = swallow *)
Definition swallowed (verdict : option bool) : bool := match verdict with Some true => true | _ => false end.

(* a task function has returned / raised: the wrapper sets the finished event and removes the handle *)
Definition finish_task (verdict : option bool) (s : st) (k : nat) (b : beh) : st * list obs :=
  let s1 := remove_handle (set_t s k TEnded) k in
  match b_end b with
  | EReturn => (s1, [Ended k])
  | ERaise e =>
      let o := match verdict with Some _ => [Handler k e] | None => [] end in
      if swallowed verdict then (s1, o ++ [Ended k])
      else
        (* the exception propagates: the factory's task group cancels every other task, the
           application goes down *)
        let others := filter (fun h => negb (Nat.eqb h k)) (handles s) in
        (St (map (fun bt => (fst bt, TEnded)) (tasks s)) [] (Crashed e),
         o ++ [Ended k] ++ flat_map (fun h => [CancelSeen h; Ended h]) others ++ [OwnerRaised e])
  end.

(* tearing the owner down waits for the tasks; when none is left the owner's block is left *)
Definition maybe_close (s : st) : st * list obs :=
  match ph s with
  | Closing => match handles s with [] => (St (tasks s) [] Closed, [OwnerLeft]) | _ => (s, []) end
  | _ => (s, [])
  end.

Inductive gate :=
| GSpawn (b : beh)
| GTask (k : nat)
| GCancel (k : nat)
| GTeardown.

(* a spawn that fails (the factory's task group is gone): the handle was added BEFORE the spawn; whether it is
   taken out again is read from start_task / start_task_soon on this run (Gen/Gen_taskfactory.v) *)
Definition failed_spawn (s : st) (b : beh) : st * list obs :=
  if tf_start_task_discards_on_failure && tf_start_task_soon_discards_on_failure then (s, [SpawnFailed])
  else (St (tasks s ++ [(b, TEnded)]) (handles s ++ [length (tasks s)]) (ph s), [SpawnFailed]).

Definition fire (verdict : option bool) (s : st) (g : gate) : st * list obs :=
  match ph s with
  | Crashed _ => match g with GSpawn b => failed_spawn s b | _ => (s, []) end
  | _ =>
  match g with
  | GSpawn b =>
      match ph s with
      | Open | Closing =>
          (* the factory's task group is still there (it waits for its children): spawning works *)
          let k := length (tasks s) in
          let s1 := St (tasks s ++ [(b, TRun (b_segs b))]) (handles s ++ [k]) (ph s) in
          match b_segs b with
          | O => let '(s2, o) := finish_task verdict s1 k b in
                 let '(s3, o') := maybe_close s2 in (s3, Spawned k true :: o ++ o')
          | _ => (s1, [Spawned k true])
          end
      | _ => failed_spawn s b
      end
  | GTask k =>
      match nth_error (tasks s) k with
      | Some (b, TRun (S n)) =>
          match n with
          | O => let '(s2, o) := finish_task verdict s k b in
                 let '(s3, o') := maybe_close s2 in (s3, Seg k :: o ++ o')
          | _ => (set_t s k (TRun n), [Seg k])
          end
      | _ => (s, [])
      end
  | GCancel k =>
      match tstate_of s k with
      | TRun _ =>
          match oncancel_of s k with
          | None =>
              let '(s2, o) := maybe_close (remove_handle (set_t s k TEnded) k) in (s2, CancelSeen k :: Ended k :: o)
          | Some e =>
              (* an Exception escapes the cancelled task: it is treated like any other *)
              let '(s2, o) := finish_task verdict s k (Beh 0 (ERaise e) None) in
              let '(s3, o') := maybe_close s2 in (s3, CancelSeen k :: o ++ o')
          end
      | TEnded => (s, [])
      end
  | GTeardown =>
      match ph s with
      | Open => maybe_close (St (tasks s) (handles s) Closing)
      | _ => (s, [])
      end
  end
  end.

Definition init : st := St [] [] Open.

Definition enabled (s : st) : list gate :=
  match ph s with
  | Crashed _ => []
  | _ => map GTask (filter (fun k => running s k) (seq 0 (length (tasks s))))
  end.

Fixpoint run_gates (verdict : option bool) (s : st) (tr : list obs) (gs : list gate) : st * list obs :=
  match gs with
  | [] => (s, tr)
  | g :: r => let '(s', o) := fire verdict s g in run_gates verdict s' (tr ++ o) r
  end.
