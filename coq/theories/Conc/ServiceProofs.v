(* Theorems about service tasks at teardown (C08). *)
From Coq Require Import List Bool Arith Lia.
From Asphalt Require Import Conc.Service Gen.Gen_service.
Import ListNotations.

(* the two observations the ordering property is about *)
Inductive ev := ECb (id : nat) | EFin (sid : nat).
Definition ev_eq_dec : forall a b : ev, {a = b} + {a <> b}.
Proof. decide equality; apply Nat.eq_dec. Defined.

Definition proj1 (o : obs) : list ev :=
  match o with TdBegin id => [ECb id] | Finished sid => [EFin sid] | _ => [] end.
Definition proj (o : list obs) : list ev := flat_map proj1 o.
Lemma proj_app a b : proj (a ++ b) = proj a ++ proj b.
Proof. apply flat_map_app. Qed.

Definition before (a b : ev) (tr : list ev) : Prop := forall t1 t2, tr = t1 ++ b :: t2 -> In a t1.
Lemma before_snoc a b tr o : before a b tr -> (o <> b \/ In a tr) -> before a b (tr ++ [o]).
Proof.
  intros Hb Ho t1 t2 E.
  destruct (list_eq_dec ev_eq_dec t2 []) as [->|Hne].
  - apply app_inj_tail in E. destruct E as [-> ->]. destruct Ho as [Ho|Ho]; [congruence|auto].
  - destruct (exists_last Hne) as (t2' & x & ->).
    replace (t1 ++ b :: t2' ++ [x]) with ((t1 ++ b :: t2') ++ [x]) in E by (rewrite <- app_assoc; reflexivity).
    apply app_inj_tail in E. destruct E as [E _]. eapply Hb; eauto.
Qed.
Lemma before_absent a b tr : ~ In b tr -> before a b tr.
Proof. intros H t1 t2 E. exfalso. apply H. rewrite E. apply in_or_app. right. simpl. auto. Qed.

(* uniqueness of the position of an element in a duplicate-free list *)
Lemma nodup_split {A} (x : A) : forall a b a' b', NoDup (a ++ x :: b) -> a ++ x :: b = a' ++ x :: b' -> a = a' /\ b = b'.
Proof.
  induction a as [|y a IH]; intros b a' b' N E.
  - destruct a' as [|z a']; simpl in E.
    + inversion E; auto.
    + inversion E; subst. exfalso. inversion N; subst. apply H1. apply in_or_app. right. simpl. auto.
  - destruct a' as [|z a']; simpl in E.
    + inversion E; subst. exfalso. inversion N; subst. apply H1. apply in_or_app. right. simpl. auto.
    + inversion E; subst. inversion N; subst. destruct (IH b a' b' H3 H1) as [-> ->]. auto.
Qed.

Lemma NoDup_app_l {A} (a b : list A) : NoDup (a ++ b) -> NoDup a.
Proof.
  induction a as [|x a IH]; simpl; intro N; [constructor|].
  inversion N; subst. constructor; [intro H; apply H1; apply in_or_app; auto | auto].
Qed.

Lemma nth_upd_same {A} (l : list A) : forall i x d, i < length l -> nth i (upd l i x) d = x.
Proof. induction l as [|y r IH]; intros [|i] x d L; simpl in *; try lia; auto. apply IH. lia. Qed.
Lemma nth_upd_other {A} (l : list A) : forall i j x d, j <> i -> nth j (upd l i x) d = nth j l d.
Proof. induction l as [|y r IH]; intros [|i] [|j] x d N; simpl; auto; congruence. Qed.

Lemma upd_length {A} (l : list A) i x : length (upd l i x) = length l.
Proof. revert i. induction l; intros [|n]; simpl; auto. Qed.

Section Inv.
Variable SV : list svc.

Definition is_cb (i : item) : bool := match i with ICb _ => true | _ => false end.

Record inv (s : st) (tr : list ev) : Prop := {
  v_nodup : NoDup (regs s);
  (* a finished task has announced it; finished is for ever *)
  v_fin : forall sid, ts s sid = TDone -> In (EFin sid) tr;
  (* nothing is torn down while the block is running *)
  v_block : forall rest, own s = InBlock rest -> forall c, ~ In (ECb c) tr;
  (* during teardown: what has been popped; popped service tasks have finished, except the one
     the teardown is waiting for right now *)
  v_td : forall stack w, own s = InTeardown stack w ->
      exists done, regs s = stack ++ done /\
        (forall sid, In (ISvc sid) done -> w = Some sid \/ ts s sid = TDone) /\
        (forall c, In (ECb c) tr -> In (ICb c) done);
  v_left : own s = OLeft -> forall sid, In (ISvc sid) (regs s) -> ts s sid = TDone;
  (* the property: a callback registered before a service task runs only after that task finished *)
  v_order : forall l1 c l2 sid l3, regs s = l1 ++ ICb c :: l2 ++ ISvc sid :: l3 -> before (EFin sid) (ECb c) tr
}.

Lemma ts_set_same s sid t : sid < length (tasks s) -> ts (set_task s sid t) sid = t.
Proof.
  unfold ts, set_task. simpl. generalize (tasks s). intro l. revert sid.
  induction l as [|y r IH]; intros [|sid] L; simpl in *; try lia; auto. apply IH. lia.
Qed.
Lemma ts_set_other s sid t sid' : sid' <> sid -> ts (set_task s sid t) sid' = ts s sid'.
Proof.
  unfold ts, set_task. simpl. generalize (tasks s). intro l. revert sid sid'.
  induction l as [|y r IH]; intros [|sid] [|sid'] N; simpl; auto; congruence.
Qed.
Lemma ts_set_notdone s sid t sid' : ts s sid <> TDone -> ts s sid' = TDone -> ts (set_task s sid t) sid' = TDone.
Proof. intros N D. destruct (Nat.eq_dec sid' sid) as [->|Ne]; [congruence|]. now rewrite ts_set_other. Qed.

(* a transition that only changes one task that was not finished, and appends observations
   among which no callback begins *)
Lemma inv_task_change s tr sid t (o : list obs) :
  inv s tr -> ts s sid <> TDone -> (forall c, ~ In (ECb c) (proj o)) ->
  (t = TDone -> In (EFin sid) (proj o)) ->
  inv (set_task s sid t) (tr ++ proj o).
Proof.
  intros [N F B T L O] ND NoCb Fin.
  assert (Keep : forall sid', ts s sid' = TDone -> ts (set_task s sid t) sid' = TDone) by (intros; now apply ts_set_notdone).
  constructor; simpl; auto.
  - intros sid' D. destruct (Nat.eq_dec sid' sid) as [->|Ne].
    + destruct (Nat.lt_ge_cases sid (length (tasks s))) as [Lt|Ge].
      * rewrite ts_set_same in D by auto. apply in_or_app. right. auto.
      * exfalso. unfold ts, set_task in D. simpl in D. rewrite nth_overflow in D; [discriminate|].
        pose proof (upd_length (tasks s) sid t). lia.
    + rewrite ts_set_other in D by auto. apply in_or_app. left. auto.
  - intros rest E c H. apply in_app_or in H. destruct H as [H|H]; [eapply B; eauto|eapply NoCb; eauto].
  - intros stack w E. destruct (T stack w E) as (done & R & D & C). exists done. split; auto. split.
    + intros sid' H. destruct (D sid' H) as [W|W]; auto.
    + intros c H. apply in_app_or in H. destruct H as [H|H]; [auto|exfalso; eapply NoCb; eauto].
  - intros l1 c l2 sid' l3 E. specialize (O l1 c l2 sid' l3 E).
    clear -O NoCb. induction (proj o) as [|x r IH] using rev_ind; [now rewrite app_nil_r|].
    rewrite app_assoc. apply before_snoc.
    + apply IH. intros c' H. apply (NoCb c'). apply in_or_app. auto.
    + left. intro E. subst x. apply (NoCb c). apply in_or_app. right. simpl. auto.
Qed.

Lemma cancel_task_inv s tr sid : inv s tr -> inv (fst (cancel_task SV s sid)) (tr ++ proj (snd (cancel_task SV s sid))).
Proof.
  intro I. unfold cancel_task. destruct (ts s sid) eqn:E; simpl; rewrite ?app_nil_r; auto.
  - replace tr with (tr ++ proj [CancelSeen sid]) by (simpl; now rewrite app_nil_r).
    apply inv_task_change; [exact I | rewrite E; discriminate | intros c H; exact H | intro X; discriminate X].
  - replace tr with (tr ++ proj [CancelSeen sid]) by (simpl; now rewrite app_nil_r).
    apply inv_task_change; [exact I | rewrite E; discriminate | intros c H; exact H | intro X; discriminate X].
Qed.

Lemma cancel_task_frame s sid : own (fst (cancel_task SV s sid)) = own s /\ regs (fst (cancel_task SV s sid)) = regs s /\
  (forall sid', ts s sid' = TDone -> ts (fst (cancel_task SV s sid)) sid' = TDone) /\ proj (snd (cancel_task SV s sid)) = [].
Proof.
  unfold cancel_task. destruct (ts s sid) eqn:E; simpl; auto; repeat split; auto;
    intros sid' D; apply ts_set_notdone; auto; congruence.
Qed.

Lemma finalize_act_frame s sid : own (fst (finalize_act SV s sid)) = own s /\ regs (fst (finalize_act SV s sid)) = regs s /\
  (forall sid', ts s sid' = TDone -> ts (fst (finalize_act SV s sid)) sid' = TDone) /\ proj (snd (finalize_act SV s sid)) = [].
Proof.
  unfold finalize_act. destruct (s_action (svc_of SV sid)) as [| |[|]].
  - apply cancel_task_frame.
  - simpl. auto.
  - destruct (cancel_task_frame s sid) as (A & B & C & D). destruct (cancel_task SV s sid). simpl in *. auto.
  - destruct (ts s sid) eqn:E; simpl; repeat split; auto.
    intros sid' Dn. apply ts_set_notdone; [change (ts s sid <> TDone); rewrite E; discriminate | exact Dn].
Qed.

Lemma finalize_act_inv s tr sid : inv s tr -> inv (fst (finalize_act SV s sid)) (tr ++ proj (snd (finalize_act SV s sid))).
Proof.
  intro I. unfold finalize_act. destruct (s_action (svc_of SV sid)) as [| |[|]].
  - now apply cancel_task_inv.
  - simpl. now rewrite app_nil_r.
  - pose proof (cancel_task_inv s tr sid I) as H. destruct (cancel_task SV s sid) as [s' o]. simpl in *. exact H.
  - assert (I1 : inv (St (own s) (regs s) (tasks s) (sid :: stopreq s)) tr).
    { destruct I as [N F B T L O]. constructor; auto. }
    destruct (ts s sid) eqn:E; simpl; rewrite ?app_nil_r; auto.
    replace tr with (tr ++ proj [ActionInvoked sid; StopSeen sid]) by (simpl; now rewrite app_nil_r).
    apply inv_task_change; [exact I1 | unfold ts in *; simpl; rewrite E; discriminate | intros c H; exact H | intro X; discriminate X].
Qed.

Lemma silent_task_inv s tr sid s' o : inv s tr -> silent_task SV s sid = Some (s', o) -> inv s' (tr ++ proj o).
Proof.
  intros I H. unfold silent_task in H. destruct (ts s sid) as [|[|k]| |[|k]|[|k]|] eqn:E; try discriminate.
  - destruct (existsb (Nat.eqb sid) (stopreq s)); [|destruct (s_ends (svc_of SV sid))]; inversion H; subst;
      apply inv_task_change; auto; try congruence; try (intros c [Hc|[]]; discriminate); try (intros c []);
      try discriminate; intros; simpl; auto.
  - inversion H; subst. apply inv_task_change; auto; try congruence; try (intros c []); try (intro X; discriminate X).
  - inversion H; subst. apply inv_task_change; auto; try congruence; [intros c [Hc|[]]; discriminate|intros; simpl; auto].
Qed.

Lemma rev_eq_cons {A} (l : list A) x r : rev l = x :: r -> l = rev r ++ [x].
Proof. intro H. rewrite <- (rev_involutive l), H. reflexivity. Qed.

Lemma inv_set_own_same s tr o : inv s tr -> (forall rest, o <> InBlock rest) ->
  (forall stack w, o = InTeardown stack w -> exists done, regs s = stack ++ done /\
        (forall sid, In (ISvc sid) done -> w = Some sid \/ ts s sid = TDone) /\
        (forall c, In (ECb c) tr -> In (ICb c) done)) ->
  (o = OLeft -> forall sid, In (ISvc sid) (regs s) -> ts s sid = TDone) ->
  inv (set_own s o) tr.
Proof.
  intros [N F B T L O] NB HT HL. constructor; simpl; auto.
  intros rest E. exfalso. eapply NB; eauto.
Qed.

Lemma silent_owner_inv s tr s' o : inv s tr -> silent_owner SV s = Some (s', o) -> inv s' (tr ++ proj o).
Proof.
  intros I H. unfold silent_owner in H. destruct (own s) as [rest|stack [sid|]|] eqn:Eo; try discriminate.
  - (* waiting for a task *)
    destruct (ts s sid) eqn:Et; try discriminate. inversion H; subst. simpl. rewrite app_nil_r.
    destruct (v_td s tr I stack (Some sid) Eo) as (done & R & D & C).
    apply inv_set_own_same; auto; [discriminate| |discriminate].
    intros stack' w E. inversion E; subst. exists done. split; auto. split; auto.
    intros sid' Hin. right. destruct (D sid' Hin) as [W|W]; [inversion W; subst; auto|auto].
  - destruct (rev stack) as [|[id|sid] r] eqn:Er.
    + (* nothing left: the block is left *)
      inversion H; subst. simpl. rewrite app_nil_r.
      assert (stack = []) as -> by (destruct stack; auto; apply (f_equal (@length _)) in Er; rewrite rev_length in Er; discriminate).
      destruct (v_td s tr I [] None Eo) as (done & R & D & C). simpl in R.
      apply inv_set_own_same; auto; [discriminate|discriminate|].
      intros _ sid Hin. rewrite R in Hin. destruct (D sid Hin) as [W|W]; [discriminate|auto].
    + (* an ordinary callback runs *)
      inversion H; subst. simpl. apply rev_eq_cons in Er. subst stack.
      destruct (v_td s tr I _ None Eo) as (done & R & D & C).
      assert (AllDone : forall sid, In (ISvc sid) done -> In (EFin sid) tr).
      { intros sid Hin. apply (v_fin s tr I). destruct (D sid Hin) as [W|W]; [discriminate|auto]. }
      destruct I as [N F B T L O]. constructor; simpl; auto.
      * intros sid Dn. apply in_or_app. left. auto.
      * intros rest E. discriminate.
      * intros stack' w E. inversion E; subst. exists (ICb id :: done). split; [rewrite R, <- app_assoc; reflexivity|]. split.
        -- intros sid [Hin|Hin]; [discriminate|]. right. destruct (D sid Hin) as [W|W]; [discriminate|auto].
        -- intros c Hc. apply in_app_or in Hc. destruct Hc as [Hc|[Hc|[]]]; [right; auto|inversion Hc; left; auto].
      * intro E. discriminate.
      * intros l1 c l2 sid l3 E. apply before_snoc; [eapply O; eauto|].
        destruct (ev_eq_dec (ECb id) (ECb c)) as [Eq|Ne]; [|left; auto]. inversion Eq; subst c. right.
        apply AllDone. rewrite R, <- app_assoc in E. simpl in E.
        destruct (nodup_split (ICb id) (rev r) done l1 (l2 ++ ISvc sid :: l3)) as [_ E2]; auto.
        { rewrite R, <- app_assoc in N. exact N. }
        rewrite E2. apply in_or_app. right. simpl. auto.
    + (* the finalizer of a service task: act, then wait *)
      pose proof (finalize_act_inv s tr sid I) as I1. destruct (finalize_act_frame s sid) as (Fo & Fr & Fd & Fp).
      destruct (finalize_act SV s sid) as [s1 o1]. simpl in *. inversion H; subst. rewrite Fp, app_nil_r in *.
      apply rev_eq_cons in Er. subst stack.
      destruct (v_td s tr I _ None Eo) as (done & R & D & C).
      apply inv_set_own_same; auto; [discriminate| |discriminate].
      intros stack' w E. inversion E; subst. exists (ISvc sid :: done). split; [rewrite Fr, R, <- app_assoc; reflexivity|]. split.
      * intros sid' [Hin|Hin]; [inversion Hin; auto|]. right. apply Fd. destruct (D sid' Hin) as [W|W]; [discriminate|auto].
      * intros c Hc. right. auto.
Qed.

Lemma first_task_inv s tr sids s' o : inv s tr -> first_task SV s sids = Some (s', o) -> inv s' (tr ++ proj o).
Proof.
  intro I. induction sids as [|sid r IH]; simpl; [discriminate|].
  destruct (silent_task SV s sid) as [[s1 o1]|] eqn:E; [|exact IH]. intro H. inversion H; subst. eapply silent_task_inv; eauto.
Qed.

Lemma settle_inv : forall fuel s tr, inv s tr ->
  inv (fst (settle fuel SV s)) (tr ++ proj (snd (settle fuel SV s))).
Proof.
  induction fuel as [|f IH]; intros s tr I; simpl; [now rewrite app_nil_r|].
  destruct (first_task SV s (seq 0 (length SV))) as [[s1 o1]|] eqn:E.
  - pose proof (first_task_inv s tr _ s1 o1 I E) as I1. specialize (IH s1 _ I1).
    destruct (settle f SV s1) as [s2 o2]. simpl in *. now rewrite proj_app, app_assoc.
  - destruct (silent_owner SV s) as [[s1 o1]|] eqn:E2; simpl; [|now rewrite app_nil_r].
    pose proof (silent_owner_inv s tr s1 o1 I E2) as I1. specialize (IH s1 _ I1).
    destruct (settle f SV s1) as [s2 o2]. simpl in *. now rewrite proj_app, app_assoc.
Qed.

End Inv.

(* ====================== whole runs ====================== *)
Definition item_of (b : bop) : list item :=
  match b with RegCb id => [ICb id] | StartSvc sid => [ISvc sid] | EndBlock => [] end.
Definition items (p : list bop) : list item := flat_map item_of p.

Section Runs.
Variable SV : list svc.
Variable prog : list bop.
Hypothesis UNIQ : NoDup (items prog).    (* every callback and every service task is registered once *)

Definition binv (s : st) : Prop := forall rest, own s = InBlock rest -> regs s ++ items rest = items prog.

Lemma settle_own_block : forall fuel s rest, own s = InBlock rest ->
  own (fst (settle fuel SV s)) = InBlock rest /\ regs (fst (settle fuel SV s)) = regs s.
Proof.
  induction fuel as [|f IH]; intros s rest E; simpl; auto.
  destruct (first_task SV s (seq 0 (length SV))) as [[s1 o1]|] eqn:F.
  - assert (E1 : own s1 = own s /\ regs s1 = regs s).
    { clear -F. revert F. generalize (seq 0 (length SV)). induction l as [|sid r IHl]; simpl; [discriminate|].
      destruct (silent_task SV s sid) as [[s2 o2]|] eqn:S; [|exact IHl]. intro H. inversion H; subst.
      unfold silent_task in S. destruct (ts s sid) as [|[|k]| |[|k]|[|k]|]; try discriminate.
      - destruct (existsb (Nat.eqb sid) (stopreq s)); [|destruct (s_ends (svc_of SV sid))]; inversion S; auto.
      - inversion S; auto.
      - inversion S; auto. }
    destruct E1 as [Eo Er]. destruct (IH s1 rest) as [A B]; [congruence|].
    destruct (settle f SV s1). simpl in *. split; congruence.
  - unfold silent_owner. rewrite E. simpl. auto.
Qed.

Lemma binv_teardown s : (forall rest, own s <> InBlock rest) -> binv s.
Proof. intros H rest E. exfalso. eapply H; eauto. Qed.

Lemma settle_not_block : forall fuel s, (forall rest, own s <> InBlock rest) ->
  forall rest, own (fst (settle fuel SV s)) <> InBlock rest.
Proof.
  induction fuel as [|f IH]; intros s N rest; simpl; auto.
  destruct (first_task SV s (seq 0 (length SV))) as [[s1 o1]|] eqn:F.
  - assert (E1 : own s1 = own s).
    { clear -F. revert F. generalize (seq 0 (length SV)). induction l as [|sid r IHl]; simpl; [discriminate|].
      destruct (silent_task SV s sid) as [[s2 o2]|] eqn:S; [|exact IHl]. intro H. inversion H; subst.
      unfold silent_task in S. destruct (ts s sid) as [|[|k]| |[|k]|[|k]|]; try discriminate.
      - destruct (existsb (Nat.eqb sid) (stopreq s)); [|destruct (s_ends (svc_of SV sid))]; inversion S; auto.
      - inversion S; auto.
      - inversion S; auto. }
    specialize (IH s1). destruct (settle f SV s1). simpl in *. apply IH. intros r' E. apply (N r'). congruence.
  - destruct (silent_owner SV s) as [[s1 o1]|] eqn:E2; simpl; auto.
    assert (N1 : forall r', own s1 <> InBlock r').
    { unfold silent_owner in E2. destruct (own s) as [r0|stack [sid|]|] eqn:Eo; try discriminate.
      - destruct (ts s sid); try discriminate. inversion E2; subst. simpl. discriminate.
      - destruct (rev stack) as [|[id|sid] r0].
        + inversion E2; subst. simpl. discriminate.
        + inversion E2; subst. simpl. discriminate.
        + destruct (finalize_act SV s sid). inversion E2; subst. simpl. discriminate. }
    specialize (IH s1 N1). destruct (settle f SV s1). simpl in *. apply IH.
Qed.

Lemma fire_inv s tr g : inv s tr -> binv s ->
  inv (fst (fire SV prog s g)) (tr ++ proj (snd (fire SV prog s g))) /\ binv (fst (fire SV prog s g)).
Proof.
  intros I B. destruct g as [|sid]; simpl.
  - destruct (own s) as [[|b rest]|stack w|] eqn:Eo; try (simpl; rewrite app_nil_r; auto; fail).
    pose proof (B _ Eo) as Bi.
    assert (NoCbs : forall c, ~ In (ECb c) tr) by (apply (v_block s tr I _ Eo)).
    destruct b as [id|sid|].
    + (* register a callback *)
      set (s1 := St (InBlock rest) (regs s ++ [ICb id]) (tasks s) (stopreq s)).
      assert (I1 : inv s1 tr).
      { destruct I as [N F Bk T L O]. simpl in Bi. constructor; simpl; auto.
        - assert (U : NoDup ((regs s ++ [ICb id]) ++ items rest)) by (rewrite <- app_assoc; simpl; rewrite Bi; exact UNIQ).
          apply NoDup_app_l in U. exact U.
        - discriminate.
        - discriminate.
        - intros. apply before_absent. apply NoCbs. }
      pose proof (settle_inv SV (fuel_for SV prog) s1 tr I1) as I2.
      destruct (settle_own_block (fuel_for SV prog) s1 rest eq_refl) as [So Sr].
      destruct (settle (fuel_for SV prog) SV s1) as [s2 o2]. simpl in *. split; auto.
      intros r' E. rewrite So in E. inversion E; subst. rewrite Sr. simpl. rewrite <- app_assoc. exact Bi.
    + (* start a service task *)
      set (s1 := St (InBlock rest) (regs s ++ [ISvc sid]) (upd (tasks s) sid (TRun (s_run (svc_of SV sid)))) (stopreq s)).
      assert (I1 : inv s1 tr).
      { destruct I as [N F Bk T L O]. simpl in Bi. constructor; simpl; auto.
        - assert (U : NoDup ((regs s ++ [ISvc sid]) ++ items rest)) by (rewrite <- app_assoc; simpl; rewrite Bi; exact UNIQ).
          apply NoDup_app_l in U. exact U.
        - intros sid' Dn. apply F. unfold ts in *. simpl in Dn.
          destruct (Nat.eq_dec sid' sid) as [->|Ne].
          + destruct (Nat.lt_ge_cases sid (length (tasks s))) as [Lt|Ge].
            * rewrite nth_upd_same in Dn by auto. discriminate.
            * rewrite nth_overflow in Dn; [discriminate|]. rewrite upd_length. lia.
          + now rewrite nth_upd_other in Dn by auto.
        - discriminate.
        - discriminate.
        - intros. apply before_absent. apply NoCbs. }
      pose proof (settle_inv SV (fuel_for SV prog) s1 (tr ++ proj [Started sid])) as I2.
      simpl in I2. rewrite app_nil_r in I2. specialize (I2 I1).
      destruct (settle_own_block (fuel_for SV prog) s1 rest eq_refl) as [So Sr].
      destruct (settle (fuel_for SV prog) SV s1) as [s2 o2]. simpl in *. split; auto.
      intros r' E. rewrite So in E. inversion E; subst. rewrite Sr. simpl. rewrite <- app_assoc. exact Bi.
    + (* the block ends: teardown begins *)
      set (s1 := St (InTeardown (regs s) None) (regs s) (tasks s) (stopreq s)).
      assert (I1 : inv s1 tr).
      { destruct I as [N F Bk T L O]. constructor; simpl; auto; try discriminate.
        intros stack w E. inversion E; subst. exists []. rewrite app_nil_r. split; auto. split.
        - intros sid [].
        - intros c Hc. exfalso. eapply NoCbs; eauto. }
      pose proof (settle_inv SV (fuel_for SV prog) s1 tr I1) as I2.
      pose proof (settle_not_block (fuel_for SV prog) s1) as NB.
      destruct (settle (fuel_for SV prog) SV s1) as [s2 o2]. simpl in *. split; auto.
      apply binv_teardown. apply NB. simpl. discriminate.
  - destruct (ts s sid) as [|[|k]| |[|k]|[|k]|] eqn:Et; simpl; try (rewrite app_nil_r; auto; fail).
    + assert (I1 : inv (set_task s sid (TRun k)) (tr ++ proj [Seg sid])).
      { apply inv_task_change; [exact I|rewrite Et; discriminate|intros c H; exact H|intro X; discriminate X]. }
      simpl in I1. rewrite app_nil_r in I1.
      pose proof (settle_inv SV (fuel_for SV prog) _ tr I1) as I2.
      assert (Bs : binv (fst (settle (fuel_for SV prog) SV (set_task s sid (TRun k))))).
      { intros r' E. destruct (own s) as [r0| |] eqn:Eo.
        - destruct (settle_own_block (fuel_for SV prog) (set_task s sid (TRun k)) r0 Eo) as [So Sr].
          rewrite So in E. inversion E; subst. rewrite Sr. simpl. apply B. exact Eo.
        - exfalso. eapply (settle_not_block (fuel_for SV prog) (set_task s sid (TRun k))); eauto. simpl. rewrite Eo. discriminate.
        - exfalso. eapply (settle_not_block (fuel_for SV prog) (set_task s sid (TRun k))); eauto. simpl. rewrite Eo. discriminate. }
      destruct (settle (fuel_for SV prog) SV (set_task s sid (TRun k))) as [s2 o2]. simpl in *. auto.
    + assert (I1 : inv (set_task s sid (TCleanup k)) (tr ++ proj [Clean sid])).
      { apply inv_task_change; [exact I|rewrite Et; discriminate|intros c H; exact H|intro X; discriminate X]. }
      simpl in I1. rewrite app_nil_r in I1.
      pose proof (settle_inv SV (fuel_for SV prog) _ tr I1) as I2.
      assert (Bs : binv (fst (settle (fuel_for SV prog) SV (set_task s sid (TCleanup k))))).
      { intros r' E. destruct (own s) as [r0| |] eqn:Eo.
        - destruct (settle_own_block (fuel_for SV prog) (set_task s sid (TCleanup k)) r0 Eo) as [So Sr].
          rewrite So in E. inversion E; subst. rewrite Sr. simpl. apply B. exact Eo.
        - exfalso. eapply (settle_not_block (fuel_for SV prog) (set_task s sid (TCleanup k))); eauto. simpl. rewrite Eo. discriminate.
        - exfalso. eapply (settle_not_block (fuel_for SV prog) (set_task s sid (TCleanup k))); eauto. simpl. rewrite Eo. discriminate. }
      destruct (settle (fuel_for SV prog) SV (set_task s sid (TCleanup k))) as [s2 o2]. simpl in *. auto.
    + assert (I1 : inv (set_task s sid (TCtx k)) (tr ++ proj [CtxSeg sid])).
      { apply inv_task_change; [exact I|rewrite Et; discriminate|intros c H; exact H|intro X; discriminate X]. }
      simpl in I1. rewrite app_nil_r in I1.
      pose proof (settle_inv SV (fuel_for SV prog) _ tr I1) as I2.
      assert (Bs : binv (fst (settle (fuel_for SV prog) SV (set_task s sid (TCtx k))))).
      { intros r' E. destruct (own s) as [r0| |] eqn:Eo.
        - destruct (settle_own_block (fuel_for SV prog) (set_task s sid (TCtx k)) r0 Eo) as [So Sr].
          rewrite So in E. inversion E; subst. rewrite Sr. simpl. apply B. exact Eo.
        - exfalso. eapply (settle_not_block (fuel_for SV prog) (set_task s sid (TCtx k))); eauto. simpl. rewrite Eo. discriminate.
        - exfalso. eapply (settle_not_block (fuel_for SV prog) (set_task s sid (TCtx k))); eauto. simpl. rewrite Eo. discriminate. }
      destruct (settle (fuel_for SV prog) SV (set_task s sid (TCtx k))) as [s2 o2]. simpl in *. auto.
Qed.

Fixpoint run_gates (s : st) (tr : list obs) (gs : list gate) : st * list obs :=
  match gs with
  | [] => (s, tr)
  | g :: r => let '(s', o) := fire SV prog s g in run_gates s' (tr ++ o) r
  end.

Theorem run_inv : forall gs, let '(s, tr) := run_gates (init SV prog) [] gs in inv s (proj tr).
Proof.
  assert (I0 : inv (init SV prog) (proj [])).
  { constructor; simpl; auto.
    - constructor.
    - intros sid H. unfold ts, init in H. simpl in H. exfalso.
      assert (Z : forall (l : list svc) i, nth i (map (fun _ : svc => TNone) l) TNone = TNone)
        by (induction l as [|y r IHl]; intros [|i]; simpl; auto).
      rewrite Z in H. discriminate.
    - discriminate.
    - discriminate.
    - intros l1 c l2 sid l3 E. destruct l1; discriminate. }
  assert (B0 : binv (init SV prog)) by (intros rest E; simpl in *; inversion E; reflexivity).
  intro gs. generalize (init SV prog) (@nil obs) I0 B0. induction gs as [|g r IH]; intros s tr I B; simpl; auto.
  destruct (fire_inv s (proj tr) g I B) as [I1 B1]. destruct (fire SV prog s g) as [s1 o1]. simpl in *.
  apply IH; auto. now rewrite proj_app.
Qed.

(* C08: in every run (every schedule), a callback registered before a service task was started
   runs only after that task -- and its own context -- have completely finished *)
Theorem finished_before_earlier_callbacks : forall gs s tr l1 c l2 sid l3,
  run_gates (init SV prog) [] gs = (s, tr) ->
  regs s = l1 ++ ICb c :: l2 ++ ISvc sid :: l3 -> before (EFin sid) (ECb c) (proj tr).
Proof.
  intros gs s tr l1 c l2 sid l3 E R. pose proof (run_inv gs) as I. rewrite E in I. eapply v_order; eauto.
Qed.

(* C08: once the owning block has been left, every service task started in it has finished *)
Theorem none_left_running : forall gs s tr sid,
  run_gates (init SV prog) [] gs = (s, tr) -> own s = OLeft -> In (ISvc sid) (regs s) ->
  ts s sid = TDone /\ In (EFin sid) (proj tr).
Proof.
  intros gs s tr sid E L H. pose proof (run_inv gs) as I. rewrite E in I.
  pose proof (v_left s _ I L sid H) as D. split; auto. eapply v_fin; eauto.
Qed.

End Runs.

(* ====================== the teardown action ====================== *)
(* 'cancel': a task that is still running observes cancellation; None: nothing is done to it;
   a callable: invoked exactly once, and the task is cancelled iff the callable raised *)
Theorem action_cancel : forall SV s sid, s_action (svc_of SV sid) = ACancel ->
  finalize_act SV s sid = cancel_task SV s sid.
Proof. intros SV s sid H. unfold finalize_act. now rewrite H. Qed.

Theorem action_none : forall SV s sid, s_action (svc_of SV sid) = ANone -> finalize_act SV s sid = (s, []).
Proof. intros SV s sid H. unfold finalize_act. now rewrite H. Qed.

Theorem action_call_once : forall SV s sid raises, s_action (svc_of SV sid) = ACall raises ->
  exists o, snd (finalize_act SV s sid) = ActionInvoked sid :: o /\ ~ In (ActionInvoked sid) o /\
            (raises = false -> ~ In (CancelSeen sid) o) /\
            (raises = true -> snd (cancel_task SV s sid) = o).
Proof.
  intros SV s sid raises H. unfold finalize_act. rewrite H. destruct raises.
  - destruct (cancel_task SV s sid) as [s' o] eqn:E. simpl. exists o. split; auto.
    assert (N : ~ In (ActionInvoked sid) o).
    { unfold cancel_task in E. destruct (ts s sid); inversion E; subst; simpl; intuition discriminate. }
    repeat split; auto. discriminate.
  - destruct (ts s sid); simpl; eexists; (split; [reflexivity|]); repeat split; simpl; try intuition discriminate.
Qed.

Theorem cancel_reaches_running_task : forall SV s sid,
  (exists k, ts s sid = TRun k) \/ ts s sid = TWait -> snd (cancel_task SV s sid) = [CancelSeen sid].
Proof. intros SV s sid [[k H]|H]; unfold cancel_task; rewrite H; reflexivity. Qed.

(* ---------- the shape of the source the model's branches were read from (Gen/Gen_service.v) ---------- *)
Theorem service_source_shape :
  svc_owner_is_self = true /\ svc_finalizer_on_self = true /\ svc_finalizer_registered_after_start = true /\
  svc_started_through_start = true /\ svc_cancel_action_cancels = true /\ svc_callable_called_once = true /\
  svc_awaits_awaitable = true /\ svc_fallback_cancel_when_action_raises = true /\
  svc_action_catches_base_exception = true /\ svc_waits_for_task = true /\
  bg_scope_encloses_context = true /\ bg_finished_in_finally_after_context = true.
Proof. repeat split. Qed.
