(* Theorems about the application runner (C15). *)
From Coq Require Import List Bool Arith ZArith Lia.
From Asphalt Require Import Gen.Gen_exitcode Gen.Gen_sighandler Conc.Runner.
Import ListNotations.

(* ---------- what a history registers ---------- *)
Definition item_of (e : ev) : list item :=
  match e with Reg id p kids => [ICb id p kids] | Svc sid => [ISvc sid] | _ => [] end.
Definition items (h : list ev) : list item := flat_map item_of h.
(* the callbacks registered before the teardown, in order of registration *)
Definition cb_ids (l : list item) : list nat := flat_map (fun i => match i with ICb id _ _ => [id] | _ => [] end) l.
(* all callbacks, including those registered by callbacks during the teardown *)
Definition all_ids (l : list item) : list nat :=
  flat_map (fun i => match i with ICb id _ kids => id :: map fst kids | _ => [] end) l.
(* LIFO with registration during the teardown: what a callback registers runs right after it, last first *)
Definition run_order (l : list item) : list nat :=
  flat_map (fun i => match i with ICb id _ kids => id :: rev (map fst kids) | _ => [] end) (rev l).
Definition no_kids (l : list item) : Prop := forall id p kids, In (ICb id p kids) l -> kids = [].
Definition svc_ids (l : list item) : list nat := flat_map (fun i => match i with ISvc sid => [sid] | _ => [] end) l.
Definition td_ids (o : list obs) : list nat := flat_map (fun x => match x with Td id _ => [id] | _ => [] end) o.
Definition cancelled_ids (o : list obs) : list nat :=
  flat_map (fun x => match x with SvcCancelled sid => [sid] | _ => [] end) o.

Definition runs (s : st) (h : list ev) : st := fold_left step h s.

Ltac step_cases e s :=
  destruct e; simpl;
  repeat match goal with
  | |- context [if started s then _ else _] => destruct (started s) eqn:?; simpl
  | |- context [match cause s with _ => _ end] => destruct (cause s) eqn:?; simpl
  | |- context [match crashed s with _ => _ end] => destruct (crashed s) eqn:?; simpl
  | |- context [match runres s with _ => _ end] => destruct (runres s) eqn:?; simpl
  end.

Lemma step_stack s e : stack (step s e) = stack s ++ item_of e.
Proof. step_cases e s; rewrite ?app_nil_r; auto. Qed.

Lemma runs_stack : forall h s, stack (runs s h) = stack s ++ items h.
Proof.
  induction h as [|e r IH]; intro s; simpl; [now rewrite app_nil_r|].
  unfold runs in *. simpl. rewrite IH, step_stack, <- app_assoc. reflexivity.
Qed.

Lemma run_stack h : stack (run h) = items h.
Proof. unfold run. apply (runs_stack h init). Qed.

Lemma runs_app s h1 h2 : runs s (h1 ++ h2) = runs (runs s h1) h2.
Proof. apply fold_left_app. Qed.

(* ---------- the teardown: every registered callback exactly once, in reverse order ---------- *)
Lemma td_ids_app a b : td_ids (a ++ b) = td_ids a ++ td_ids b.
Proof. apply flat_map_app. Qed.
Lemma cb_ids_app a b : cb_ids (a ++ b) = cb_ids a ++ cb_ids b.
Proof. apply flat_map_app. Qed.

Lemma td_ids_kids a (kids : list (nat * bool)) :
  td_ids (map (fun k : nat * bool => Td (fst k) (if snd k then a else ANoArg)) kids) = map fst kids.
Proof. induction kids as [|k r IH]; simpl; auto. now rewrite IH. Qed.

Lemma teardown_ids a dead : forall stk, td_ids (teardown a dead stk) = run_order stk.
Proof.
  unfold teardown, run_order. intro stk. induction (rev stk) as [|i r IH]; auto.
  simpl. rewrite td_ids_app, IH. f_equal.
  destruct i as [id p kids|sid]; simpl.
  - rewrite td_ids_kids, map_rev. reflexivity.
  - destruct dead as [d|]; [destruct (Nat.eqb d sid)|]; reflexivity.
Qed.

Lemma run_order_no_kids : forall stk, no_kids stk -> run_order stk = rev (cb_ids stk).
Proof.
  unfold run_order. induction stk as [|i r IH]; intro NK; auto.
  change (rev (i :: r)) with (rev r ++ [i]). rewrite flat_map_app, IH by (intros id p kids H; apply (NK id p kids); simpl; auto).
  destruct i as [id p kids|sid]; simpl.
  - rewrite (NK id p kids) by (simpl; auto). reflexivity.
  - now rewrite app_nil_r.
Qed.

Lemma in_run_order x : forall stk, In x (run_order stk) <-> In x (all_ids stk).
Proof.
  unfold run_order, all_ids. intro stk. rewrite !in_flat_map. split; intros (i & Hi & H); exists i.
  - split; [now apply in_rev|]. destruct i as [id p kids|sid]; auto. simpl in *. destruct H as [H|H]; auto.
    right. now apply in_rev.
  - split; [now apply in_rev in Hi|]. destruct i as [id p kids|sid]; auto. simpl in *. destruct H as [H|H]; auto.
    right. now apply in_rev in H.
Qed.

(* the teardown of the application is the LIFO walk over everything its code registered *)
Theorem ends_with_full_teardown : forall cli h o out, app cli h = Some (o, out) ->
  exists a dead, o = teardown a dead (items h).
Proof.
  intros cli h o out. unfold app, finish. rewrite run_stack.
  destruct (crashed (run h)) as [sid|]; [intro E; inversion E; eauto|].
  destruct (started (run h)); simpl.
  - destruct cli.
    + destruct (runres (run h)) as [[r|e]|]; intro E; inversion E; eauto.
    + destruct (signalled (run h)); intro E; inversion E; eauto.
  - destruct (cause (run h)) as [[|]|]; intro E; inversion E; eauto.
Qed.

(* C15: however the application ends, every teardown callback registered on the root context --
   before or during the teardown -- runs exactly once, in LIFO order *)
Theorem callbacks_lifo : forall cli h o out, app cli h = Some (o, out) ->
  td_ids o = run_order (items h).
Proof.
  intros cli h o out E. destruct (ends_with_full_teardown cli h o out E) as (a & dead & ->). apply teardown_ids.
Qed.

Theorem callbacks_reverse_order : forall cli h o out, app cli h = Some (o, out) -> no_kids (items h) ->
  td_ids o = rev (cb_ids (items h)).
Proof. intros cli h o out E NK. rewrite (callbacks_lifo cli h o out E). now apply run_order_no_kids. Qed.

Lemma NoDup_snoc {A} (l : list A) x : NoDup l -> ~ In x l -> NoDup (l ++ [x]).
Proof.
  induction 1 as [|y l Hy N IH]; simpl; intro H.
  - constructor; [intros []|constructor].
  - constructor.
    + rewrite in_app_iff. intros [X|[X|[]]]; [contradiction|subst; apply H; simpl; auto].
    + apply IH. intro X. apply H. simpl. auto.
Qed.
Lemma NoDup_rev' {A} (l : list A) : NoDup l -> NoDup (rev l).
Proof.
  induction 1 as [|x l Hx N IH]; simpl; [constructor|]. apply NoDup_snoc; auto. now rewrite <- in_rev.
Qed.
Lemma NoDup_app_swap {A} (a b : list A) : NoDup (a ++ b) -> NoDup (b ++ a).
Proof.
  revert b. induction a as [|x a IH]; intros b N; simpl in *; [now rewrite app_nil_r|].
  inversion N; subst. apply NoDup_Add with (a := x) (l := b ++ a).
  - clear. induction b; simpl; constructor. auto.
  - split; [apply IH; auto|]. rewrite in_app_iff in *. tauto.
Qed.
Lemma NoDup_app_parts {A} (a b : list A) : NoDup (a ++ b) -> NoDup a /\ NoDup b /\ (forall x, In x a -> ~ In x b).
Proof.
  induction a as [|x a IH]; simpl; intro N; [repeat split; auto; constructor|].
  inversion N; subst. destruct (IH H2) as (A1 & B1 & D). repeat split; auto.
  - constructor; auto. intro X. apply H1. apply in_or_app. auto.
  - intros y [->|Hy]; [intro X; apply H1; apply in_or_app; auto|auto].
Qed.
Lemma NoDup_app_build {A} (a b : list A) : NoDup a -> NoDup b -> (forall x, In x a -> ~ In x b) -> NoDup (a ++ b).
Proof.
  induction 1 as [|x a Hx N IH]; simpl; intros Nb D; auto. constructor.
  - rewrite in_app_iff. intros [X|X]; [contradiction|apply (D x); auto].
  - apply IH; auto.
Qed.

Lemma run_order_nodup : forall stk, NoDup (all_ids stk) -> NoDup (run_order stk).
Proof.
  unfold run_order. induction stk as [|i r IH]; intro N; [constructor|].
  change (rev (i :: r)) with (rev r ++ [i]). rewrite flat_map_app. simpl. rewrite app_nil_r.
  change (all_ids (i :: r)) with ((match i with ICb id _ kids => id :: map fst kids | _ => [] end) ++ all_ids r) in N.
  apply NoDup_app_parts in N. destruct N as (Ni & Nr & D).
  apply NoDup_app_build; [apply IH; exact Nr| |].
  - destruct i as [id p kids|sid]; [|constructor]. inversion Ni; subst. constructor.
    + now rewrite <- in_rev.
    + now apply NoDup_rev'.
  - intros x Hx Hi. apply (in_run_order x r) in Hx. apply (D x); auto.
    destruct i as [id p kids|sid]; auto. simpl in *. destruct Hi as [Hi|Hi]; auto. right. now apply in_rev in Hi.
Qed.

Theorem callbacks_exactly_once : forall cli h o out, app cli h = Some (o, out) ->
  NoDup (all_ids (items h)) ->
  NoDup (td_ids o) /\ (forall id, In id (td_ids o) <-> In id (all_ids (items h))).
Proof.
  intros cli h o out E N. rewrite (callbacks_lifo cli h o out E). split.
  - now apply run_order_nodup.
  - intro id. apply in_run_order.
Qed.

(* every service task that did not crash is cancelled and waited for at its place in the stack *)
Lemma teardown_cancelled a : forall stk, cancelled_ids (teardown a None stk) = rev (svc_ids stk).
Proof.
  unfold teardown. intro stk. induction stk as [|i r IH]; auto.
  change (rev (i :: r)) with (rev r ++ [i]). unfold cancelled_ids in *. rewrite flat_map_app, flat_map_app, IH.
  destruct i as [id p kids|sid]; simpl; [|reflexivity].
  rewrite app_nil_r. induction (rev kids) as [|k ks IHk]; simpl; [now rewrite app_nil_r|exact IHk].
Qed.

(* ---------- what a pass_exception callback is handed ---------- *)
Lemma teardown_args a dead stk id x : In (Td id x) (teardown a dead stk) -> x = a \/ x = ANoArg.
Proof.
  unfold teardown. rewrite in_flat_map. intros (i & _ & H). destruct i as [id' p kids|sid]; simpl in H.
  - destruct H as [H|H]; [inversion H; destruct p; auto|].
    apply in_map_iff in H. destruct H as (k & H & _). inversion H. destruct (snd k); auto.
  - destruct dead as [d|]; [destruct (Nat.eqb d sid)|]; simpl in H; try tauto; destruct H as [H|[]]; discriminate.
Qed.

(* ---------- fields of the state along a history ---------- *)
Definition no_crash (h : list ev) : Prop := forall sid, ~ In (Crash sid) h.
Definition no_cause (h : list ev) : Prop := ~ In Fail h /\ ~ In Hang h /\ ~ In Sig h.
Definition no_run_end (h : list ev) : Prop := (forall r, ~ In (RunReturn r) h) /\ (forall e, ~ In (RunRaise e) h).

Lemma runs_cons s e h : runs s (e :: h) = runs (step s e) h.
Proof. reflexivity. Qed.

Lemma crashed_keep : forall h s, no_crash h -> crashed (runs s h) = crashed s.
Proof.
  induction h as [|e r IH]; intros s N; auto. rewrite runs_cons, IH.
  - step_cases e s; auto. exfalso. apply (N sid). simpl. auto.
  - intros sid H. apply (N sid). simpl. auto.
Qed.

Lemma crashed_first : forall h s sid, crashed s = Some sid -> crashed (runs s h) = Some sid.
Proof.
  induction h as [|e r IH]; intros s sid C; auto. rewrite runs_cons. apply IH.
  step_cases e s; auto; congruence.
Qed.

Lemma started_stays_false : forall h s, ~ In Started h -> started s = false -> started (runs s h) = false.
Proof.
  induction h as [|e r IH]; intros s N F; auto. rewrite runs_cons. apply IH; [intro H; apply N; simpl; auto|].
  destruct e; simpl; rewrite ?F; simpl; auto.
  - destruct (crashed s); simpl; auto.
  - exfalso. apply N. simpl. auto.
  - destruct (runres s); simpl; auto.
  - destruct (runres s); simpl; auto.
Qed.

Lemma cause_stays : forall h s c, cause s = Some c -> cause (runs s h) = Some c /\ started (runs s h) = started s.
Proof.
  induction h as [|e r IH]; intros s c C; auto. rewrite runs_cons.
  assert (X : cause (step s e) = Some c /\ started (step s e) = started s).
  { destruct e; simpl; rewrite ?C; simpl; auto.
    - destruct (started s) eqn:S; simpl; auto.
    - destruct (started s) eqn:S; simpl; auto.
    - destruct (started s) eqn:S; simpl; auto.
    - destruct (crashed s); simpl; auto.
    - destruct (runres s); simpl; auto.
    - destruct (runres s); simpl; auto. }
  destruct X as [X1 X2]. destruct (IH (step s e) c X1) as [A B]. split; congruence.
Qed.

Lemma step_started_false s e : started s = false -> e <> Started -> started (step s e) = false.
Proof.
  intros F N. destruct e; simpl; rewrite ?F; simpl; auto.
  - destruct (crashed s); auto.
  - congruence.
  - destruct (runres s); auto.
  - destruct (runres s); auto.
Qed.

Lemma cause_appears : forall h s, started s = false -> ~ In Started h ->
  In Fail h \/ In Hang h \/ In Sig h -> exists c, cause (runs s h) = Some c.
Proof.
  induction h as [|e r IH]; intros s F N H; [simpl in H; tauto|].
  destruct (cause s) as [c|] eqn:C; [exists c; apply (cause_stays (e :: r) s c C)|].
  rewrite runs_cons.
  assert (NS : ~ In Started r) by (intro X; apply N; simpl; auto).
  assert (NE : e <> Started) by (intro X; apply N; simpl; auto).
  assert (Hit : forall x, cause (step s e) = Some x -> exists c, cause (runs (step s e) r) = Some c)
    by (intros x X; exists x; apply (cause_stays r _ x X)).
  destruct e; try (apply (Hit ByError); simpl; rewrite F, C; reflexivity);
             try (apply (Hit ByCancel); simpl; rewrite F, C; reflexivity);
             try congruence;
    (apply IH; [apply step_started_false; auto | exact NS |
                destruct H as [[H|H]|[[H|H]|[H|H]]]; try discriminate; auto]).
Qed.

Lemma startup_clean : forall h s, no_cause h -> ~ In Started h -> started s = false -> cause s = None ->
  started (runs s h) = false /\ cause (runs s h) = None.
Proof.
  induction h as [|e r IH]; intros s (N1 & N2 & N3) NS F C; auto. rewrite runs_cons.
  apply IH.
  - repeat split; intro X; [apply N1|apply N2|apply N3]; simpl; auto.
  - intro X. apply NS. simpl. auto.
  - destruct e; simpl; rewrite ?F; simpl; auto.
    + destruct (crashed s); auto.
    + exfalso. apply NS. simpl. auto.
    + destruct (runres s); auto.
    + destruct (runres s); auto.
  - destruct e; simpl; rewrite ?F, ?C; simpl; auto.
    + exfalso. apply N1. simpl. auto.
    + exfalso. apply N2. simpl. auto.
    + exfalso. apply N3. simpl. auto.
    + destruct (crashed s); auto.
    + destruct (runres s); auto.
    + destruct (runres s); auto.
Qed.

Ltac crush :=
  simpl; repeat match goal with |- context [match ?x with _ => _ end] => destruct x eqn:?; simpl end;
  auto; try congruence.

Lemma started_stays : forall h s, started s = true -> started (runs s h) = true /\ cause (runs s h) = cause s.
Proof.
  induction h as [|e r IH]; intros s T; auto. rewrite runs_cons.
  assert (X : started (step s e) = true /\ cause (step s e) = cause s).
  { destruct e; simpl; rewrite ?T; crush. }
  destruct X as [X1 X2]. destruct (IH _ X1) as [A B]. split; congruence.
Qed.

Lemma runres_keep : forall h s, no_run_end h -> runres (runs s h) = runres s.
Proof.
  induction h as [|e r IH]; intros s [N1 N2]; auto. rewrite runs_cons, IH.
  - step_cases e s; auto; exfalso; [apply (N1 r0)|apply (N2 e)]; simpl; auto.
  - split; [intros x H; apply (N1 x)|intros x H; apply (N2 x)]; simpl; auto.
Qed.

Lemma runres_first : forall h s x, runres s = Some x -> runres (runs s h) = Some x.
Proof.
  induction h as [|e r IH]; intros s x C; auto. rewrite runs_cons. apply IH.
  step_cases e s; auto; congruence.
Qed.

Lemma signalled_stays : forall h s, signalled s = true -> signalled (runs s h) = true.
Proof.
  induction h as [|e r IH]; intros s T; auto. rewrite runs_cons. apply IH. step_cases e s; auto.
Qed.

(* ---------- the documented endings, by shape of the history ---------- *)
Open Scope Z_scope.

(* a failure, a timeout or a signal during startup: SystemExit(1), after the full teardown with
   no exception *)
Theorem startup_brought_down : forall cli h, no_crash h -> ~ In Started h ->
  In Fail h \/ In Hang h \/ In Sig h ->
  app cli h = Some (teardown ANone None (items h), OExit 1).
Proof.
  intros cli h NC NS H. unfold app, finish, run. fold (runs init h).
  rewrite (crashed_keep h init NC). simpl.
  rewrite (started_stays_false h init NS eq_refl). simpl.
  destruct (cause_appears h init eq_refl NS H) as (c & C). rewrite C.
  change (fold_left step h init) with (run h). rewrite run_stack. destruct c; reflexivity.
Qed.

(* the startup completes: pre ++ [Started] with nothing having brought it down *)
Lemma after_startup pre : no_cause pre -> ~ In Started pre ->
  started (runs init (pre ++ [Started])) = true /\ cause (runs init (pre ++ [Started])) = None.
Proof.
  intros NC NS. rewrite runs_app. destruct (startup_clean pre init NC NS eq_refl eq_refl) as [F C].
  simpl. rewrite C. simpl. auto.
Qed.

Definition started_history (pre mid : list ev) : list ev := pre ++ [Started] ++ mid.

Lemma started_state pre mid : no_cause pre -> ~ In Started pre ->
  started (run (started_history pre mid)) = true.
Proof.
  intros NC NS. unfold run, started_history. fold (runs init (pre ++ [Started] ++ mid)).
  rewrite app_assoc, runs_app. destruct (after_startup pre NC NS) as [S _].
  apply (started_stays mid _ S).
Qed.

(* a CLI application whose run() returns: the ladder decides *)
Theorem cli_returns : forall pre mid r post, no_cause pre -> ~ In Started pre ->
  no_crash (started_history pre (mid ++ RunReturn r :: post)) -> no_run_end pre -> no_run_end mid ->
  let h := started_history pre (mid ++ RunReturn r :: post) in
  app true h = Some (teardown ANone None (items h), exit_of (code_of r)).
Proof.
  intros pre mid r post NC NS NCr NR1 NR2 h. unfold app, finish.
  pose proof (started_state pre (mid ++ RunReturn r :: post) NC NS) as S. fold h in S.
  assert (C : crashed (run h) = None) by (apply (crashed_keep h init NCr)).
  rewrite C, S. simpl.
  assert (R : runres (run h) = Some (inl r)).
  { unfold run, h, started_history. fold (runs init (pre ++ [Started] ++ mid ++ RunReturn r :: post)).
    rewrite !runs_app. rewrite runs_cons. apply runres_first.
    simpl. rewrite (runres_keep mid _ NR2). simpl.
    assert (X : runres (runs init pre) = None) by (apply (runres_keep pre init NR1)).
    destruct (cause (runs init pre)); simpl; rewrite X; reflexivity. }
  rewrite R, run_stack. reflexivity.
Qed.

Theorem exit_codes :
  exit_of (code_of RNone) = OReturn /\
  exit_of (code_of (RInt 0)) = OReturn /\
  (forall n, 1 <= n <= 127 -> exit_of (code_of (RInt n)) = OExit n) /\
  (forall n, n < 0 \/ 127 < n -> exit_of (code_of (RInt n)) = OExit 1) /\
  exit_of (code_of ROther) = OExit 1 /\
  exit_of (code_of (RBool true)) = OExit 1 /\ exit_of (code_of (RBool false)) = OReturn.
Proof.
  unfold exit_of, code_of, in_range, exit_lo, exit_hi, exit_out_of_range, exit_non_int, final_code, exits_when_truthy.
  repeat split; simpl; auto.
  - intros n [A B]. assert ((0 <=? n) = true) as -> by (apply Z.leb_le; lia).
    assert ((n <=? 127) = true) as -> by (apply Z.leb_le; lia). simpl.
    assert ((n =? 0) = false) as -> by (apply Z.eqb_neq; lia). reflexivity.
  - intros n [A|A].
    + assert ((0 <=? n) = false) as -> by (apply Z.leb_gt; lia). reflexivity.
    + assert ((n <=? 127) = false) as -> by (apply Z.leb_gt; lia). rewrite andb_false_r. reflexivity.
Qed.

(* run() raises: the original exception comes out, and the callbacks that asked for it get it *)
Theorem cli_raises : forall pre mid e post, no_cause pre -> ~ In Started pre ->
  no_crash (started_history pre (mid ++ RunRaise e :: post)) -> no_run_end pre -> no_run_end mid ->
  let h := started_history pre (mid ++ RunRaise e :: post) in
  app true h = Some (teardown (AExc (XRun e)) None (items h), ORaised (XRun e)).
Proof.
  intros pre mid e post NC NS NCr NR1 NR2 h. unfold app, finish.
  pose proof (started_state pre (mid ++ RunRaise e :: post) NC NS) as S. fold h in S.
  assert (C : crashed (run h) = None) by (apply (crashed_keep h init NCr)).
  rewrite C, S. simpl.
  assert (R : runres (run h) = Some (inr e)).
  { unfold run, h, started_history. fold (runs init (pre ++ [Started] ++ mid ++ RunRaise e :: post)).
    rewrite !runs_app. rewrite runs_cons. apply runres_first.
    simpl. rewrite (runres_keep mid _ NR2). simpl.
    assert (X : runres (runs init pre) = None) by (apply (runres_keep pre init NR1)).
    destruct (cause (runs init pre)); simpl; rewrite X; reflexivity. }
  rewrite R, run_stack. reflexivity.
Qed.

(* a plain application that receives a termination signal after startup: clean exit, status 0 *)
Theorem plain_signal_after_startup : forall pre mid post, no_cause pre -> ~ In Started pre ->
  no_crash (started_history pre (mid ++ Sig :: post)) ->
  let h := started_history pre (mid ++ Sig :: post) in
  app false h = Some (teardown ANone None (items h), OReturn).
Proof.
  intros pre mid post NC NS NCr h. unfold app, finish.
  pose proof (started_state pre (mid ++ Sig :: post) NC NS) as S. fold h in S.
  assert (C : crashed (run h) = None) by (apply (crashed_keep h init NCr)).
  rewrite C, S. simpl.
  assert (G : signalled (run h) = true).
  { unfold run, h, started_history. fold (runs init (pre ++ [Started] ++ mid ++ Sig :: post)).
    rewrite app_assoc, runs_app, runs_app, runs_cons. apply signalled_stays.
    destruct (after_startup pre NC NS) as [S1 _].
    destruct (started_stays mid _ S1) as [S2 _]. simpl. rewrite S2. reflexivity. }
  rewrite G, run_stack. reflexivity.
Qed.

(* ... and it does not end before the signal (or a crash) *)
Theorem plain_runs_until_told : forall pre mid, no_cause pre -> ~ In Started pre ->
  no_crash (started_history pre mid) -> ~ In Sig mid ->
  app false (started_history pre mid) = None.
Proof.
  intros pre mid NC NS NCr NG. unfold app, finish.
  assert (C : crashed (run (started_history pre mid)) = None) by (apply (crashed_keep _ init NCr)).
  rewrite C. rewrite (started_state pre mid NC NS). simpl.
  assert (G : signalled (run (started_history pre mid)) = false).
  { unfold run, started_history. fold (runs init (pre ++ [Started] ++ mid)). rewrite app_assoc, runs_app.
    assert (G0 : signalled (runs init (pre ++ [Started])) = false).
    { rewrite runs_app. simpl.
      assert (X : forall h s, started s = false -> ~ In Started h -> signalled s = false -> signalled (runs s h) = false).
      { induction h as [|e r IH]; intros s F N Z; auto. rewrite runs_cons.
        assert (N' : ~ In Started r) by (intro Y; apply N; simpl; auto).
        destruct e; simpl; rewrite ?F; simpl; try (apply IH; simpl; auto; fail).
        - destruct (crashed s); apply IH; auto.
        - exfalso. apply N. simpl. auto.
        - destruct (runres s); apply IH; auto.
        - destruct (runres s); apply IH; auto. }
      specialize (X pre init eq_refl NS eq_refl). destruct (cause (runs init pre)); simpl; auto. }
    revert G0. generalize (runs init (pre ++ [Started])). clear -NG.
    induction mid as [|e r IH]; intros s Z; auto. rewrite runs_cons. apply IH.
    - intro X. apply NG. simpl. auto.
    - destruct e; simpl; auto.
      + destruct (started s); auto.
      + destruct (started s); auto.
      + exfalso. apply NG. simpl. auto.
      + destruct (crashed s); auto.
      + destruct (cause s); auto.
      + destruct (runres s); auto.
      + destruct (runres s); auto. }
  rewrite G. reflexivity.
Qed.

(* a service task crashes after startup: the original exception comes out of run_application,
   after the full teardown *)
Theorem crash_after_startup : forall cli pre mid sid post, no_cause pre -> ~ In Started pre ->
  no_crash pre -> no_crash mid ->
  let h := started_history pre (mid ++ Crash sid :: post) in
  app cli h = Some (teardown ACancelled (Some sid) (items h), ORaised (XCrash sid)).
Proof.
  intros cli pre mid sid post NC NS N1 N2 h. unfold app, finish.
  pose proof (started_state pre (mid ++ Crash sid :: post) NC NS) as S. fold h in S.
  assert (C : crashed (run h) = Some sid).
  { unfold run, h, started_history. fold (runs init (pre ++ [Started] ++ mid ++ Crash sid :: post)).
    rewrite !runs_app, runs_cons. apply crashed_first. simpl.
    rewrite (crashed_keep mid _ N2).
    assert (X : crashed (runs init pre) = None) by (apply (crashed_keep pre init N1)).
    destruct (cause (runs init pre)); simpl; rewrite X; reflexivity. }
  rewrite C, S, run_stack. reflexivity.
Qed.

(* ... and during startup likewise, whatever else goes on *)
Theorem crash_during_startup : forall cli pre sid post, ~ In Started (pre ++ Crash sid :: post) -> no_crash pre ->
  let h := pre ++ Crash sid :: post in
  app cli h = Some (teardown ANone (Some sid) (items h), ORaised (XCrash sid)).
Proof.
  intros cli pre sid post NS N1 h. unfold app, finish.
  assert (C : crashed (run h) = Some sid).
  { unfold run, h. fold (runs init (pre ++ Crash sid :: post)). rewrite runs_app, runs_cons. apply crashed_first.
    simpl. rewrite (crashed_keep pre init N1). reflexivity. }
  assert (S : started (run h) = false) by (apply (started_stays_false h init NS eq_refl)).
  rewrite C, S, run_stack. reflexivity.
Qed.

(* an application that has not been brought down, has not finished starting and has no crash is
   still starting *)
Theorem startup_continues : forall cli h, no_crash h -> no_cause h -> ~ In Started h -> app cli h = None.
Proof.
  intros cli h NCr NC NS. unfold app, finish.
  assert (Cr : crashed (run h) = None) by (apply (crashed_keep h init NCr)).
  destruct (startup_clean h init NC NS eq_refl eq_refl) as [F C]. change (runs init h) with (run h) in *.
  rewrite Cr, F, C. reflexivity.
Qed.

(* ---------- teardown callbacks that raise ---------- *)
Lemma raised_by_nil o : raised_by [] o = [].
Proof. unfold raised_by. induction (ran o) as [|x r IH]; simpl; auto. Qed.

(* without raising callbacks nothing changes *)
Theorem finish_r_without_raisers : forall cli s, finish_r cli [] s = finish cli s.
Proof.
  intros cli s. unfold finish_r. destruct (finish cli s) as [[o out]|]; [|reflexivity].
  now rewrite raised_by_nil.
Qed.

(* raising callbacks do not change the teardown: the same callbacks are invoked, in the same order, with the
   same arguments, and the same service tasks are stopped *)
Theorem raisers_do_not_change_the_teardown : forall cli raisers s o out,
  finish_r cli raisers s = Some (o, out) -> exists out0, finish cli s = Some (o, out0).
Proof.
  intros cli raisers s o out H. unfold finish_r in H.
  destruct (finish cli s) as [[o0 out0]|]; [|discriminate].
  inversion H; subst. eauto.
Qed.

(* exactly the raising callbacks among those that ran, in the order in which they ran *)
Theorem raised_are_the_raisers_that_ran : forall raisers o id,
  In id (raised_by raisers o) <-> In id (ran o) /\ In id raisers.
Proof.
  intros raisers o id. unfold raised_by. rewrite filter_In. split; intros [A B]; split; auto.
  - apply existsb_exists in B. destruct B as (x & Hx & E). apply Nat.eqb_eq in E. now subst.
  - apply existsb_exists. exists id. split; auto. apply Nat.eqb_refl.
Qed.

(* when none of the callbacks that ran raises, run_application ends as it would have *)
Theorem quiet_callbacks_keep_the_outcome : forall cli raisers s o out,
  finish cli s = Some (o, out) -> raised_by raisers o = [] -> finish_r cli raisers s = Some (o, out).
Proof. intros cli raisers s o out H R. unfold finish_r. now rewrite H, R. Qed.

(* when some do, what comes out of run_application is one group of exactly their exceptions -- whatever the
   status would have been -- together with the crash of a service task if that ended the application *)
Theorem raising_callbacks_surface : forall cli raisers s o out,
  finish cli s = Some (o, out) -> raised_by raisers o <> [] ->
  finish_r cli raisers s =
  Some (o, ORaisedTd (raised_by raisers o) (match out with ORaised (XCrash sid) => Some sid | _ => None end)).
Proof.
  intros cli raisers s o out H R. unfold finish_r. rewrite H.
  destruct (raised_by raisers o) as [|x r]; [congruence|reflexivity].
Qed.

(* the application has ended with raising callbacks iff it has ended without them *)
Theorem raisers_do_not_decide_the_end : forall cli raisers s,
  finish_r cli raisers s = None <-> finish cli s = None.
Proof.
  intros cli raisers s. unfold finish_r. destruct (finish cli s) as [[o out]|]; split; intro H; try discriminate; auto.
Qed.

(* ---------- handle_signals as read from the source (Gen_sighandler) ---------- *)
Theorem signal_handler_source_shape :
  sig_handler_is_service_task_of_root = true /\ sig_handler_started_before_components = true /\
  sig_cancels_startup = true /\ sig_sets_event = true /\ sig_first_only = true /\
  plain_application_waits_for_event = true.
Proof. repeat split. Qed.
