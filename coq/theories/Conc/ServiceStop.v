(* C08, second ordering theorem: the finalizer of an EARLIER service task is itself a teardown callback
   registered before every later one, so an earlier task is told to stop -- cancelled, or its teardown
   callable invoked -- only after every service task started after it, and that task's own context, has
   completely finished.  Proved over the raw observation trace for every program and every schedule, on
   top of the invariant of ServiceProofs.v. *)
From Coq Require Import List Bool Arith Lia.
From Asphalt Require Import Conc.Service Conc.ServiceProofs Gen.Gen_service.
Import ListNotations.

(* the observations that tell task sid to stop *)
Definition is_stop (sid : nat) (o : obs) : bool :=
  match o with ActionInvoked x | CancelSeen x => Nat.eqb x sid | _ => false end.
Definition quiet (o : list obs) : Prop := forall x sid, In x o -> is_stop sid x = false.

Lemma fin_in tr sid : In (EFin sid) (proj tr) -> In (Finished sid) tr.
Proof.
  unfold proj. rewrite in_flat_map. intros [x [Hx Hp]].
  destruct x; simpl in Hp; try contradiction; destruct Hp as [Hp|[]]; inversion Hp; subst; exact Hx.
Qed.

Lemma quiet_nil : quiet [].
Proof. intros x sid []. Qed.
Lemma quiet_one x : (forall sid, is_stop sid x = false) -> quiet [x].
Proof. intros H y sid [<-|[]]. apply H. Qed.

Section Stop.
Variable SV : list svc.

Record inv2 (s : st) (tr : list obs) : Prop := {
  (* nobody is told to stop while the block is running *)
  w_block : forall rest, own s = InBlock rest -> quiet tr;
  (* the property *)
  w_order : forall l1 early l2 later l3, regs s = l1 ++ ISvc early :: l2 ++ ISvc later :: l3 ->
     forall n x, nth_error tr n = Some x -> is_stop early x = true -> In (Finished later) (firstn n tr) }.

(* a transition that registers nothing, does not go back into the block, and tells nobody to stop *)
Lemma inv2_quiet s s' tr o : inv2 s tr -> regs s' = regs s ->
  (forall rest, own s' = InBlock rest -> exists rest', own s = InBlock rest') -> quiet o -> inv2 s' (tr ++ o).
Proof.
  intros [B O] R W Q. constructor.
  - intros rest E x sid Hin. apply in_app_or in Hin. destruct Hin as [Hin|Hin]; [|now apply Q].
    destruct (W rest E) as [r' E']. eapply B; eauto.
  - intros l1 early l2 later l3 E n x Hn Hs. rewrite R in E.
    destruct (Nat.lt_ge_cases n (length tr)) as [Lt|Ge].
    + rewrite nth_error_app1 in Hn by auto. rewrite firstn_app. apply in_or_app. left. eapply O; eauto.
    + rewrite nth_error_app2 in Hn by auto. apply nth_error_In in Hn. rewrite (Q x early Hn) in Hs. discriminate.
Qed.

Lemma silent_task_quiet s sid s' o : silent_task SV s sid = Some (s', o) -> regs s' = regs s /\ own s' = own s /\ quiet o.
Proof.
  unfold silent_task. destruct (ts s sid) as [|[|k]| |[|k]|[|k]|]; try discriminate.
  - destruct (existsb (Nat.eqb sid) (stopreq s)); [|destruct (s_ends (svc_of SV sid))]; intro H; inversion H; subst;
      simpl; repeat split; auto using quiet_nil. apply quiet_one. reflexivity.
  - intro H; inversion H; subst. simpl. repeat split; auto using quiet_nil.
  - intro H; inversion H; subst. simpl. repeat split; auto. apply quiet_one. reflexivity.
Qed.

Lemma first_task_quiet s : forall sids s' o, first_task SV s sids = Some (s', o) -> regs s' = regs s /\ own s' = own s /\ quiet o.
Proof.
  induction sids as [|sid r IH]; simpl; intros s' o; [discriminate|].
  destruct (silent_task SV s sid) as [[s1 o1]|] eqn:E; [|apply IH]. intro H. inversion H; subst. eapply silent_task_quiet; eauto.
Qed.

(* what a finalizer emits tells only ITS task to stop *)
Lemma cancel_task_obs s sid x sid' : In x (snd (cancel_task SV s sid)) -> is_stop sid' x = true -> sid' = sid.
Proof.
  unfold cancel_task. destruct (ts s sid); simpl; try contradiction; intros [<-|[]]; simpl; intro H;
    apply Nat.eqb_eq in H; auto.
Qed.
Lemma finalize_act_obs s sid x sid' : In x (snd (finalize_act SV s sid)) -> is_stop sid' x = true -> sid' = sid.
Proof.
  unfold finalize_act. destruct (s_action (svc_of SV sid)) as [| |[|]].
  - destruct svc_cancel_action_cancels; [apply cancel_task_obs|simpl; contradiction].
  - simpl. contradiction.
  - destruct svc_fallback_cancel_when_action_raises.
    + pose proof (cancel_task_obs s sid x sid') as C. destruct (cancel_task SV s sid) as [s1 o1]. simpl in *.
      intros [<-|Hin]; [simpl; intro H; apply Nat.eqb_eq in H; auto|auto].
    + simpl. intros [<-|[]]. simpl. intro H. apply Nat.eqb_eq in H. auto.
  - destruct (ts s sid); simpl; intros [<-|Hin]; try (simpl; intro H; apply Nat.eqb_eq in H; auto; fail);
      try contradiction; destruct Hin as [<-|[]]; simpl; discriminate.
Qed.

Lemma silent_owner_inv2 s tr s' o : inv s (proj tr) -> inv2 s tr -> silent_owner SV s = Some (s', o) -> inv2 s' (tr ++ o).
Proof.
  intros I J H. unfold silent_owner in H. destruct (own s) as [rest|stack [sid|]|] eqn:Eo; try discriminate.
  - assert (X : s' = set_own s (InTeardown stack None) /\ o = []).
    { destruct (ts s sid); destruct svc_waits_for_task; try discriminate; inversion H; auto. }
    destruct X as [-> ->]. apply (inv2_quiet s); auto using quiet_nil. simpl. intros rest E. discriminate.
  - destruct (rev stack) as [|[id|sid] r] eqn:Er.
    + inversion H; subst. apply (inv2_quiet s); auto.
      * simpl. intros rest E. discriminate.
      * apply quiet_one. reflexivity.
    + inversion H; subst. apply (inv2_quiet s); auto.
      * simpl. intros rest E. discriminate.
      * apply quiet_one. reflexivity.
    + destruct (finalize_act_frame SV s sid) as (Fo & Fr & Fd & Fp).
      pose proof (finalize_act_obs s sid) as Fobs.
      destruct (finalize_act SV s sid) as [s1 o1]. simpl in *. inversion H; subst. clear H.
      apply rev_eq_cons in Er. subst stack.
      destruct (v_td s (proj tr) I _ None Eo) as (done & R & D & C).
      destruct J as [B O]. constructor; simpl.
      * intros rest E. discriminate.
      * intros l1 early l2 later l3 E n x Hn Hs. rewrite Fr in E.
        destruct (Nat.lt_ge_cases n (length tr)) as [Lt|Ge].
        -- rewrite nth_error_app1 in Hn by auto. rewrite firstn_app. apply in_or_app. left. eapply O; eauto.
        -- rewrite nth_error_app2 in Hn by auto. apply nth_error_In in Hn.
           assert (early = sid) by (eapply Fobs; eauto). subst early.
           rewrite firstn_app. apply in_or_app. left. rewrite firstn_all2 by lia.
           apply fin_in. apply (v_fin s (proj tr) I).
           rewrite R, <- app_assoc in E. simpl in E.
           destruct (nodup_split (ISvc sid) (rev r) done l1 (l2 ++ ISvc later :: l3)) as [_ E2]; auto.
           { pose proof (v_nodup s (proj tr) I) as N. rewrite R, <- app_assoc in N. exact N. }
           destruct (D later) as [W|W]; [rewrite E2; apply in_or_app; right; simpl; auto|discriminate|exact W].
Qed.

Lemma settle_inv2 : forall fuel s tr, inv s (proj tr) -> inv2 s tr ->
  inv2 (fst (settle fuel SV s)) (tr ++ snd (settle fuel SV s)).
Proof.
  induction fuel as [|f IH]; intros s tr I J; simpl; [now rewrite app_nil_r|].
  destruct (first_task SV s (seq 0 (length SV))) as [[s1 o1]|] eqn:E.
  - pose proof (first_task_inv SV s (proj tr) _ s1 o1 I E) as I1. rewrite <- proj_app in I1.
    destruct (first_task_quiet s _ s1 o1 E) as (Fr & Fo & Fq).
    assert (J1 : inv2 s1 (tr ++ o1)).
    { apply (inv2_quiet s); auto. intros rest Eb. exists rest. congruence. }
    specialize (IH s1 _ I1 J1). destruct (settle f SV s1) as [s2 o2]. simpl in *. now rewrite app_assoc.
  - destruct (silent_owner SV s) as [[s1 o1]|] eqn:E2; simpl; [|now rewrite app_nil_r].
    pose proof (silent_owner_inv SV s (proj tr) s1 o1 I E2) as I1. rewrite <- proj_app in I1.
    pose proof (silent_owner_inv2 s tr s1 o1 I J E2) as J1.
    specialize (IH s1 _ I1 J1). destruct (settle f SV s1) as [s2 o2]. simpl in *. now rewrite app_assoc.
Qed.

End Stop.

(* ====================== whole runs ====================== *)
Lemma inv2_of_quiet s tr : quiet tr -> inv2 s tr.
Proof.
  intro Q. constructor; [auto|].
  intros l1 early l2 later l3 _ n x Hn Hs. apply nth_error_In in Hn. rewrite (Q x early Hn) in Hs. discriminate.
Qed.
Lemma quiet_app a b : quiet a -> quiet b -> quiet (a ++ b).
Proof. intros A B x sid H. apply in_app_or in H. destruct H; [apply A|apply B]; auto. Qed.

Section Runs2.
Variable SV : list svc.
Variable prog : list bop.
Hypothesis UNIQ : NoDup (items prog).

Lemma fire_inv2 s tr g : inv s (proj tr) -> binv prog s -> inv2 s tr ->
  inv2 (fst (fire SV prog s g)) (tr ++ snd (fire SV prog s g)).
Proof.
  intros I B J. destruct g as [|sid]; simpl.
  - destruct (own s) as [[|b rest]|stack w|] eqn:Eo; try (simpl; rewrite app_nil_r; auto; fail).
    pose proof (B _ Eo) as Bi.
    assert (NoCbs : forall c, ~ In (ECb c) (proj tr)) by (apply (v_block s _ I _ Eo)).
    assert (Q : quiet tr) by (eapply (w_block s tr J); eauto).
    destruct b as [id|sid|].
    + set (s1 := St (InBlock rest) (regs s ++ [ICb id]) (tasks s) (stopreq s)).
      assert (I1 : inv s1 (proj tr)).
      { destruct I as [N F Bk T L O]. simpl in Bi. constructor; simpl; auto.
        - assert (U : NoDup ((regs s ++ [ICb id]) ++ items rest)) by (rewrite <- app_assoc; simpl; rewrite Bi; exact UNIQ).
          apply NoDup_app_l in U. exact U.
        - discriminate.
        - discriminate.
        - intros. apply before_absent. apply NoCbs. }
      pose proof (settle_inv2 SV (fuel_for SV prog) s1 tr I1 (inv2_of_quiet s1 tr Q)) as J2.
      destruct (settle (fuel_for SV prog) SV s1) as [s2 o2]. simpl in *. exact J2.
    + set (s1 := St (InBlock rest) (regs s ++ [ISvc sid]) (upd (tasks s) sid (TRun (s_run (svc_of SV sid)))) (stopreq s)).
      assert (I1 : inv s1 (proj (tr ++ [Started sid]))).
      { rewrite proj_app. simpl. rewrite app_nil_r.
        destruct I as [N F Bk T L O]. simpl in Bi. constructor; simpl; auto.
        - assert (U : NoDup ((regs s ++ [ISvc sid]) ++ items rest)) by (rewrite <- app_assoc; simpl; rewrite Bi; exact UNIQ).
          apply NoDup_app_l in U. exact U.
        - intros sid' Dn. apply F. unfold ts in *. simpl in Dn.
          destruct (Nat.eq_dec sid' sid) as [->|Ne].
          + destruct (Nat.lt_ge_cases sid (length (tasks s))) as [Lt|Ge].
            * rewrite nth_upd_same in Dn by auto. discriminate.
            * rewrite nth_overflow in Dn; [discriminate|]. rewrite upd_length. lia.
          + now rewrite nth_upd_other in Dn by auto.
        - discriminate.
        - discriminate.
        - intros. apply before_absent. apply NoCbs. }
      assert (Q1 : quiet (tr ++ [Started sid])) by (apply quiet_app; auto; apply quiet_one; reflexivity).
      pose proof (settle_inv2 SV (fuel_for SV prog) s1 _ I1 (inv2_of_quiet s1 _ Q1)) as J2.
      destruct (settle (fuel_for SV prog) SV s1) as [s2 o2]. simpl in *. rewrite <- app_assoc in J2. exact J2.
    + set (s1 := St (InTeardown (regs s) None) (regs s) (tasks s) (stopreq s)).
      assert (I1 : inv s1 (proj tr)).
      { destruct I as [N F Bk T L O]. constructor; simpl; auto; try discriminate.
        intros stack w E. inversion E; subst. exists []. rewrite app_nil_r. split; auto. split.
        - intros sid [].
        - intros c Hc. exfalso. eapply NoCbs; eauto. }
      pose proof (settle_inv2 SV (fuel_for SV prog) s1 tr I1 (inv2_of_quiet s1 tr Q)) as J2.
      destruct (settle (fuel_for SV prog) SV s1) as [s2 o2]. simpl in *. exact J2.
  - assert (Step : forall t x, ts s sid <> TDone -> t <> TDone -> (forall sd, is_stop sd x = false) -> proj [x] = [] ->
                   inv2 (fst (settle (fuel_for SV prog) SV (set_task s sid t)))
                        (tr ++ x :: snd (settle (fuel_for SV prog) SV (set_task s sid t)))).
    { intros t x ND NT Qx Px.
      assert (I1 : inv (set_task s sid t) (proj (tr ++ [x]))).
      { rewrite proj_app. apply inv_task_change; auto; [rewrite Px; intros c []|intro; congruence]. }
      assert (J1 : inv2 (set_task s sid t) (tr ++ [x])).
      { apply (inv2_quiet s); auto; [simpl; eauto|apply quiet_one; exact Qx]. }
      pose proof (settle_inv2 SV (fuel_for SV prog) _ _ I1 J1) as J2. rewrite <- app_assoc in J2. exact J2. }
    destruct (ts s sid) as [|[|k]| |[|k]|[|k]|] eqn:Et; simpl; try (rewrite app_nil_r; auto; fail).
    + specialize (Step (TRun k) (Seg sid)). destruct (settle (fuel_for SV prog) SV (set_task s sid (TRun k))). simpl in *.
      apply Step; try discriminate; auto.
    + specialize (Step (TCleanup k) (Clean sid)). destruct (settle (fuel_for SV prog) SV (set_task s sid (TCleanup k))). simpl in *.
      apply Step; try discriminate; auto.
    + specialize (Step (TCtx k) (CtxSeg sid)). destruct (settle (fuel_for SV prog) SV (set_task s sid (TCtx k))). simpl in *.
      apply Step; try discriminate; auto.
Qed.

Theorem run_inv2 : forall gs, let '(s, tr) := run_gates SV prog (init SV prog) [] gs in inv2 s tr.
Proof.
  intro gs.
  assert (G : forall s tr, inv s (proj tr) -> binv prog s -> inv2 s tr ->
              let '(s', tr') := run_gates SV prog s tr gs in inv2 s' tr').
  { induction gs as [|g r IH]; intros s tr I B J; simpl; auto.
    destruct (fire_inv SV prog UNIQ s (proj tr) g I B) as [I1 B1].
    pose proof (fire_inv2 s tr g I B J) as J1.
    destruct (fire SV prog s g) as [s1 o1]. simpl in *. apply IH; auto. now rewrite proj_app. }
  apply G.
  - pose proof (run_inv SV prog UNIQ []) as I0. exact I0.
  - intros rest E. simpl in *. inversion E. reflexivity.
  - apply inv2_of_quiet. intros x sid [].
Qed.

(* C08: in every run (every schedule) a service task is told to stop -- cancelled by its finalizer, or its
   teardown callable invoked -- only after every service task started after it, and that task's own context,
   has completely finished *)
Theorem stopped_only_after_later_tasks_finished : forall gs s tr l1 early l2 later l3,
  run_gates SV prog (init SV prog) [] gs = (s, tr) ->
  regs s = l1 ++ ISvc early :: l2 ++ ISvc later :: l3 ->
  forall n x, nth_error tr n = Some x -> is_stop early x = true -> In (Finished later) (firstn n tr).
Proof.
  intros gs s tr l1 early l2 later l3 E R. pose proof (run_inv2 gs) as J. rewrite E in J. eapply w_order; eauto.
Qed.

(* ... and nobody is told to stop while the block is still running *)
Theorem nobody_stopped_inside_the_block : forall gs s tr rest,
  run_gates SV prog (init SV prog) [] gs = (s, tr) -> own s = InBlock rest -> quiet tr.
Proof.
  intros gs s tr rest E O. pose proof (run_inv2 gs) as J. rewrite E in J. eapply w_block; eauto.
Qed.

End Runs2.
