(* Model of service tasks at teardown (src/asphalt/core/_context.py: Context.start_service_task,
   _concurrent.py: run_background_task) as a scheduled machine: one owning context in which
   teardown callbacks are registered and service tasks are started, then the block is left and the
   LIFO teardown runs; the finalizer of a service task performs its teardown action and then waits
   until the task (and its own context) has completely finished.  Used by C08.  Definitions only. *)
From Coq Require Import List Bool Arith.
From Asphalt Require Import Gen.Gen_service.
Import ListNotations.

Inductive action :=
| ACancel                                   (* teardown_action="cancel" *)
| ANone                                     (* teardown_action=None: just wait *)
| ACall (raises : bool).                    (* a callable (sync or async); may raise *)

Record svc := Svc {
  s_action : action;
  s_run : nat;            (* gated segments it runs by itself after starting *)
  s_ends : bool;          (* then returns by itself (otherwise it waits until told / cancelled) *)
  s_cleanup : nat;        (* gated (shielded) segments of cleanup after being cancelled or told to stop *)
  s_ctx : nat }.          (* gated (shielded) segments of teardown of the task's OWN context, after the task
                             function has returned; the task has finished only when they are through *)

Inductive bop := RegCb (id : nat) | StartSvc (sid : nat) | EndBlock.

Inductive item := ICb (id : nat) | ISvc (sid : nat).

Inductive tstate :=
| TNone                   (* not started *)
| TRun (left : nat)       (* running its own segments; at the gate of the next one when left > 0 *)
| TWait                   (* waiting to be told to stop *)
| TCleanup (left : nat)
| TCtx (left : nat)       (* the task function is over; the task's own context is being torn down *)
| TDone.

Inductive obs :=
| TdBegin (id : nat)             (* an ordinary teardown callback runs *)
| Started (sid : nat)
| Seg (sid : nat)                (* the task ran one of its own segments *)
| ActionInvoked (sid : nat)      (* the teardown callable was invoked *)
| CancelSeen (sid : nat)         (* the task observed cancellation *)
| StopSeen (sid : nat)           (* the task noticed the request to stop *)
| Clean (sid : nat)              (* one cleanup segment *)
| CtxSeg (sid : nat)             (* one segment of the teardown of the task's own context *)
| Finished (sid : nat)           (* the task returned and its own context was torn down *)
| Left.                          (* the owning `async with` block has been left *)

Inductive owner :=
| InBlock (rest : list bop)
| InTeardown (stack : list item) (waiting : option nat)   (* stack top = last *)
| OLeft.

Record st := St {
  own : owner;
  regs : list item;          (* everything registered so far, in order *)
  tasks : list tstate;       (* indexed by sid *)
  stopreq : list nat }.      (* tasks whose teardown callable has run successfully *)

Definition ts (s : st) (sid : nat) : tstate := nth sid (tasks s) TNone.
Fixpoint upd {A} (l : list A) (i : nat) (x : A) : list A :=
  match l, i with [], _ => [] | _ :: r, O => x :: r | y :: r, S i' => y :: upd r i' x end.
Definition set_task (s : st) (sid : nat) (t : tstate) : st := St (own s) (regs s) (upd (tasks s) sid t) (stopreq s).
Definition set_own (s : st) (o : owner) : st := St o (regs s) (tasks s) (stopreq s).

Definition svc_of (SV : list svc) (sid : nat) : svc := nth sid SV (Svc ANone 0 true 0 0).

(* cancelling a task: one that is still running (at a gate or waiting) observes the cancellation
   and goes on to its cleanup; one that has finished, or is already cleaning up, is unaffected *)
Definition cancel_task (SV : list svc) (s : st) (sid : nat) : st * list obs :=
  match ts s sid with
  | TRun _ | TWait => (set_task s sid (TCleanup (s_cleanup (svc_of SV sid))), [CancelSeen sid])
  | _ => (s, [])
  end.

(* the finalizer's first half: act per teardown_action; the branches are those the translator read from
   finalize_service_task on this run (Gen/Gen_service.v) *)
Definition finalize_act (SV : list svc) (s : st) (sid : nat) : st * list obs :=
  match s_action (svc_of SV sid) with
  | ACancel => if svc_cancel_action_cancels then cancel_task SV s sid else (s, [])
  | ANone => (s, [])
  | ACall true =>
      (* the callable raised: fall back on cancellation (as read from the finalizer's handler on this run) *)
      let '(s', o) := (if svc_fallback_cancel_when_action_raises then cancel_task SV s sid else (s, [])) in
      (s', ActionInvoked sid :: o)
  | ACall false =>
      let s1 := St (own s) (regs s) (tasks s) (sid :: stopreq s) in
      match ts s sid with
      | TWait => (set_task s1 sid (TCleanup (s_cleanup (svc_of SV sid))), [ActionInvoked sid; StopSeen sid])
      | _ => (s1, [ActionInvoked sid])
      end
  end.

(* internal (ungated) transitions, one at a time *)
Definition silent_task (SV : list svc) (s : st) (sid : nat) : option (st * list obs) :=
  match ts s sid with
  | TRun 0 =>
      if existsb (Nat.eqb sid) (stopreq s) then Some (set_task s sid (TCleanup (s_cleanup (svc_of SV sid))), [StopSeen sid])
      else if s_ends (svc_of SV sid) then Some (set_task s sid (TCtx (s_ctx (svc_of SV sid))), [])
      else Some (set_task s sid TWait, [])
  | TCleanup 0 => Some (set_task s sid (TCtx (s_ctx (svc_of SV sid))), [])
  | TCtx 0 => Some (set_task s sid TDone, [Finished sid])
  | _ => None
  end.

Definition silent_owner (SV : list svc) (s : st) : option (st * list obs) :=
  match own s with
  | InTeardown stack None =>
      match rev stack with
      | [] => Some (set_own s OLeft, [Left])
      | ICb id :: r => Some (set_own s (InTeardown (rev r) None), [TdBegin id])
      | ISvc sid :: r =>
          let '(s1, o) := finalize_act SV s sid in
          Some (set_own s1 (InTeardown (rev r) (Some sid)), o)
      end
  | InTeardown stack (Some sid) =>
      match ts s sid with
      | TDone => Some (set_own s (InTeardown stack None), [])
      | _ => if svc_waits_for_task then None      (* `await task_handle.wait_finished()` *)
             else Some (set_own s (InTeardown stack None), [])
      end
  | _ => None
  end.

Fixpoint first_task (SV : list svc) (s : st) (sids : list nat) : option (st * list obs) :=
  match sids with
  | [] => None
  | sid :: r => match silent_task SV s sid with Some x => Some x | None => first_task SV s r end
  end.

Fixpoint settle (fuel : nat) (SV : list svc) (s : st) : st * list obs :=
  match fuel with
  | O => (s, [])
  | S f =>
      match first_task SV s (seq 0 (length SV)) with
      | Some (s', o) => let '(s'', o') := settle f SV s' in (s'', o ++ o')
      | None =>
          match silent_owner SV s with
          | Some (s', o) => let '(s'', o') := settle f SV s' in (s'', o ++ o')
          | None => (s, [])
          end
      end
  end.

Inductive gate := GBlock | GTask (sid : nat).

Definition task_at_gate (t : tstate) : bool :=
  match t with TRun (S _) | TCleanup (S _) | TCtx (S _) => true | _ => false end.

Definition enabled (SV : list svc) (s : st) : list gate :=
  (match own s with InBlock (_ :: _) => [GBlock] | _ => [] end) ++
  map GTask (filter (fun sid => task_at_gate (ts s sid)) (seq 0 (length SV))).

Definition fuel_for (SV : list svc) (prog : list bop) : nat := 6 * length SV + 5 * length prog + 8.

Definition fire (SV : list svc) (prog : list bop) (s : st) (g : gate) : st * list obs :=
  match g with
  | GBlock =>
      match own s with
      | InBlock (b :: rest) =>
          let '(s1, o1) :=
            match b with
            | RegCb id => (St (InBlock rest) (regs s ++ [ICb id]) (tasks s) (stopreq s), [])
            | StartSvc sid =>
                (St (InBlock rest) (regs s ++ [ISvc sid]) (upd (tasks s) sid (TRun (s_run (svc_of SV sid)))) (stopreq s),
                 [Started sid])
            | EndBlock => (St (InTeardown (regs s) None) (regs s) (tasks s) (stopreq s), [])
            end in
          let '(s2, o2) := settle (fuel_for SV prog) SV s1 in (s2, o1 ++ o2)
      | _ => (s, [])
      end
  | GTask sid =>
      match ts s sid with
      | TRun (S k) => let '(s2, o2) := settle (fuel_for SV prog) SV (set_task s sid (TRun k)) in (s2, Seg sid :: o2)
      | TCleanup (S k) => let '(s2, o2) := settle (fuel_for SV prog) SV (set_task s sid (TCleanup k)) in (s2, Clean sid :: o2)
      | TCtx (S k) => let '(s2, o2) := settle (fuel_for SV prog) SV (set_task s sid (TCtx k)) in (s2, CtxSeg sid :: o2)
      | _ => (s, [])
      end
  end.

Definition init (SV : list svc) (prog : list bop) : st := St (InBlock prog) [] (map (fun _ => TNone) SV) [].
