(* Non-vacuity of the hypotheses of the C08 theorems: a concrete owner program with three service
   tasks (a callable action, "cancel", None) and callbacks registered between them meets
   `NoDup (items prog)`; a concrete schedule takes it to OLeft, through states in which a finalizer
   is waiting for its task while an older callback is still pending. *)
From Coq Require Import List Bool Arith.
From Asphalt Require Import Conc.Service Conc.ServiceProofs Conc.ServiceStop.
Import ListNotations.

Definition SV2 : list svc := [Svc (ACall false) 1 false 1 1; Svc ACancel 0 false 2 0; Svc ANone 1 true 0 0].
Definition prog2 : list bop := [RegCb 0; StartSvc 0; RegCb 1; StartSvc 1; StartSvc 2; RegCb 2; EndBlock].
Definition gs2 : list gate :=
  [GBlock; GBlock; GBlock; GBlock; GBlock; GBlock; GTask 0; GTask 2; GBlock; GTask 1; GTask 1; GTask 0; GTask 0].

Example prog2_registers_once : NoDup (items prog2).
Proof. cbv. repeat constructor; cbv; intuition discriminate. Qed.

Example prog2_runs_to_left :
  own (fst (run_gates SV2 prog2 (init SV2 prog2) [] gs2)) = OLeft /\
  proj (snd (run_gates SV2 prog2 (init SV2 prog2) [] gs2)) = [EFin 2; ECb 2; EFin 1; ECb 1; EFin 0; ECb 0].
Proof. vm_compute. split; reflexivity. Qed.

(* midway: the finalizer of task 1 ("cancel") has acted and waits; the task is still cleaning up, and the
   callbacks registered before it (1, 0) have not run *)
Example prog2_waits_midway :
  let '(s, tr) := run_gates SV2 prog2 (init SV2 prog2) [] (firstn 10 gs2) in
  own s = InTeardown [ICb 0; ISvc 0; ICb 1] (Some 1) /\ ts s 1 = TCleanup 1 /\
  ~ In (ECb 1) (proj tr) /\ ~ In (ECb 0) (proj tr).
Proof. vm_compute. repeat split; intuition discriminate. Qed.

(* the second ordering theorem is not vacuous: in that run task 1 ("cancel") and task 0 (a callable) ARE told to
   stop, each after the tasks started after it have finished -- the raw trace *)
Example prog2_stop_events :
  let tr := snd (run_gates SV2 prog2 (init SV2 prog2) [] gs2) in
  filter (fun o => is_stop 0 o || is_stop 1 o || match o with Finished _ => true | _ => false end) tr =
  [Finished 2; CancelSeen 1; Finished 1; ActionInvoked 0; Finished 0].
Proof. vm_compute. reflexivity. Qed.
