(* The heap-level merge (the text translate/py2coq.py produces from merge_config) computes the pure
   merge: for EVERY heap -- shared and aliased sub-dictionaries included --, every pair of values
   that read back as trees, every depth.  Together with Gen/Tie_merge.v (regenerated definition =
   merge_heap) this carries C17_keys / C17_values / C17_none / C17_wf, proved of the pure merge,
   over to the translated code. *)
From Coq Require Import String.
From Coq Require Import List ZArith Bool Arith Lia.
From Asphalt Require Import Config.Val Config.MergeSpec Config.MergeProofs.
Import ListNotations.
Open Scope string_scope.
Open Scope list_scope.

(* ---------- reading a value back as a tree without ever touching the cells in X ---------- *)
Fixpoint readx (X : list nat) (fuel : nat) (h : heap) (v : val) : option tree :=
  match v with
  | VNone => Some TNone
  | VBool b => Some (TBool b)
  | VInt z => Some (TInt z)
  | VStr s => Some (TStr s)
  | VList s => Some (TList s)
  | VRef a =>
      match fuel with
      | O => None
      | S f =>
          if existsb (Nat.eqb a) X then None else
          match nth_error h a with
          | None => None
          | Some cell =>
              option_map TDict
                ((fix go (c : dictobj) : option dict :=
                    match c with
                    | [] => Some []
                    | (k, x) :: r =>
                        match readx X f h x, go r with
                        | Some t, Some d => Some ((k, t) :: d)
                        | _, _ => None
                        end
                    end) cell)
          end
      end
  end.

Fixpoint readx_cell (X : list nat) (f : nat) (h : heap) (c : dictobj) : option dict :=
  match c with
  | [] => Some []
  | (k, x) :: r =>
      match readx X f h x, readx_cell X f h r with
      | Some t, Some d => Some ((k, t) :: d)
      | _, _ => None
      end
  end.

Lemma readx_ref X f h a :
  readx X (S f) h (VRef a) =
  if existsb (Nat.eqb a) X then None else
  match nth_error h a with
  | None => None
  | Some cell => option_map TDict (readx_cell X f h cell)
  end.
Proof.
  cbn [readx]. destruct (existsb (Nat.eqb a) X); auto. destruct (nth_error h a) as [cell|]; auto.
  f_equal. induction cell as [|[k x] r IH]; simpl; auto. rewrite IH. reflexivity.
Qed.

Definition as_dict (t : tree) : dict := match t with TDict d => d | _ => [] end.

Lemma readx_ref_dict X n h a t : readx X n h (VRef a) = Some t -> exists d, t = TDict d.
Proof.
  destruct n as [|f]; [discriminate|]. rewrite readx_ref.
  destruct (existsb _ _); [discriminate|]. destruct (nth_error h a); [|discriminate].
  destruct (readx_cell X f h d) as [d'|]; [|discriminate]. intro E. inversion E. eauto.
Qed.

Lemma readx_nonref_leaf X n h v t : (forall a, v <> VRef a) -> readx X n h v = Some t -> forall d, t <> TDict d.
Proof.
  intros H E d. destruct v as [| | | | |a]; [| | | | |destruct (H a eq_refl)];
    destruct n; simpl in E; inversion E; discriminate.
Qed.

(* read is readx with nothing to avoid *)
Lemma read_cell_go f h cell :
  (fix go (c : dictobj) : option tree :=
     match c with
     | [] => Some (TDict [])
     | (k, x) :: r =>
         match read f h x, go r with
         | Some t, Some (TDict d) => Some (TDict ((k, t) :: d))
         | _, _ => None
         end
     end) cell =
  option_map TDict ((fix go (c : dictobj) : option dict :=
     match c with
     | [] => Some []
     | (k, x) :: r =>
         match read f h x, go r with
         | Some t, Some d => Some ((k, t) :: d)
         | _, _ => None
         end
     end) cell).
Proof.
  induction cell as [|[k x] r IH]; auto. rewrite IH. destruct (read f h x); auto.
  match goal with |- context [option_map TDict ?g] => destruct g end; auto.
Qed.

Lemma readx_nil_read : forall n h v, readx [] n h v = read n h v.
Proof.
  induction n as [|f IH]; intros h v; destruct v; auto.
  cbn [readx read existsb]. destruct (nth_error h a) as [cell|]; auto.
  rewrite read_cell_go. f_equal. induction cell as [|[k x] r IHr]; auto. rewrite IH, IHr. reflexivity.
Qed.

(* avoiding less is easier *)
Lemma readx_weaken X Y : (forall a, In a Y -> In a X) ->
  forall n h v t, readx X n h v = Some t -> readx Y n h v = Some t.
Proof.
  intro Sub. induction n as [|f IH]; intros h v t H; destruct v; auto; try discriminate.
  rewrite readx_ref in *.
  destruct (existsb (Nat.eqb a) X) eqn:EX; [discriminate|].
  assert (EY : existsb (Nat.eqb a) Y = false).
  { destruct (existsb (Nat.eqb a) Y) eqn:E; auto. apply existsb_exists in E. destruct E as (y & Hy & E).
    apply Nat.eqb_eq in E. subst y. apply Sub in Hy.
    assert (existsb (Nat.eqb a) X = true) by (apply existsb_exists; exists a; split; auto; apply Nat.eqb_refl). congruence. }
  rewrite EY. destruct (nth_error h a) as [cell|]; [|discriminate].
  assert (TR : forall d, readx_cell X f h cell = Some d -> readx_cell Y f h cell = Some d).
  { clear H. induction cell as [|[k x] r IHr]; intros d EC; simpl in *; auto.
    destruct (readx X f h x) as [tx|] eqn:Ex; [|discriminate]. rewrite (IH _ _ _ Ex).
    destruct (readx_cell X f h r) as [dr|]; [|discriminate]. rewrite (IHr _ eq_refl). exact EC. }
  destruct (readx_cell X f h cell) as [d|] eqn:EC; [|discriminate]. rewrite (TR _ eq_refl). exact H.
Qed.

Lemma readx_read X n h v t : readx X n h v = Some t -> read n h v = Some t.
Proof. intro H. rewrite <- readx_nil_read. eapply readx_weaken; [|exact H]. intros a []. Qed.

(* two heaps that agree off X (the second may be longer) read alike off X *)
Definition agree_off (X : list nat) (h1 h2 : heap) : Prop :=
  length h1 <= length h2 /\ forall a, a < length h1 -> ~ In a X -> hget h2 a = hget h1 a.

Lemma agree_nth_error X h1 h2 a cell : agree_off X h1 h2 -> ~ In a X ->
  nth_error h1 a = Some cell -> nth_error h2 a = Some cell.
Proof.
  intros [L P] NX E.
  assert (Ha : a < length h1) by (apply nth_error_Some; congruence).
  specialize (P a Ha NX). unfold hget in P.
  rewrite (nth_error_nth' h2 [] (n:=a)) by lia.
  rewrite P. apply nth_error_nth with (d:=[]) in E. now rewrite E.
Qed.

Lemma existsb_false_notin a X : existsb (Nat.eqb a) X = false -> ~ In a X.
Proof.
  intros E Hin. assert (existsb (Nat.eqb a) X = true) by (apply existsb_exists; exists a; split; auto; apply Nat.eqb_refl).
  congruence.
Qed.

Lemma readx_agree X h1 h2 : agree_off X h1 h2 ->
  forall n v t, readx X n h1 v = Some t -> readx X n h2 v = Some t.
Proof.
  intro A. induction n as [|f IH]; intros v t H; destruct v; auto; try discriminate.
  rewrite readx_ref in *. destruct (existsb (Nat.eqb a) X) eqn:EX; [discriminate|].
  destruct (nth_error h1 a) as [cell|] eqn:E; [|discriminate].
  rewrite (agree_nth_error X h1 h2 a cell A (existsb_false_notin a X EX) E).
  assert (TR : forall d, readx_cell X f h1 cell = Some d -> readx_cell X f h2 cell = Some d).
  { clear E H. induction cell as [|[k x] r IHr]; intros d EC; simpl in *; auto.
    destruct (readx X f h1 x) as [tx|] eqn:Ex; [|discriminate]. rewrite (IH _ _ Ex).
    destruct (readx_cell X f h1 r) as [dr|]; [|discriminate]. rewrite (IHr _ eq_refl). exact EC. }
  destruct (readx_cell X f h1 cell) as [d|] eqn:EC; [|discriminate]. rewrite (TR _ eq_refl). exact H.
Qed.

Lemma readx_cell_agree X h1 h2 f cell d : agree_off X h1 h2 ->
  readx_cell X f h1 cell = Some d -> readx_cell X f h2 cell = Some d.
Proof.
  intro A. revert d. induction cell as [|[k x] r IHr]; intros d EC; simpl in *; auto.
  destruct (readx X f h1 x) as [tx|] eqn:Ex; [|discriminate]. rewrite (readx_agree X h1 h2 A _ _ _ Ex).
  destruct (readx_cell X f h1 r) as [dr|]; [|discriminate]. rewrite (IHr _ eq_refl). exact EC.
Qed.

(* a read that succeeds in h touches no address beyond h: it may as well avoid those *)
Lemma readx_bound X c : forall n h v t, length h <= c -> readx X n h v = Some t -> readx (c :: X) n h v = Some t.
Proof.
  induction n as [|f IH]; intros h v t L H; destruct v; auto; try discriminate.
  rewrite readx_ref in *. destruct (existsb (Nat.eqb a) X) eqn:EX; [discriminate|].
  destruct (nth_error h a) as [cell|] eqn:E; [|discriminate].
  assert (Ha : a < length h) by (apply nth_error_Some; congruence).
  cbn [existsb]. assert (Nat.eqb a c = false) as -> by (apply Nat.eqb_neq; lia). rewrite EX. cbn [orb].
  assert (TR : forall d, readx_cell X f h cell = Some d -> readx_cell (c :: X) f h cell = Some d).
  { clear E H. induction cell as [|[k x] r IHr]; intros d EC; simpl in *; auto.
    destruct (readx X f h x) as [tx|] eqn:Ex; [|discriminate]. rewrite (IH _ _ _ L Ex).
    destruct (readx_cell X f h r) as [dr|]; [|discriminate]. rewrite (IHr _ eq_refl). exact EC. }
  destruct (readx_cell X f h cell) as [d|] eqn:EC; [|discriminate]. rewrite (TR _ eq_refl). exact H.
Qed.

Lemma readx_cell_bound X c f h cell d : length h <= c ->
  readx_cell X f h cell = Some d -> readx_cell (c :: X) f h cell = Some d.
Proof.
  intro L. revert d. induction cell as [|[k x] r IHr]; intros d EC; simpl in *; auto.
  destruct (readx X f h x) as [tx|] eqn:Ex; [|discriminate]. rewrite (readx_bound X c _ _ _ _ L Ex).
  destruct (readx_cell X f h r) as [dr|]; [|discriminate]. rewrite (IHr _ eq_refl). exact EC.
Qed.

(* ---------- a cell and the dictionary it reads as ---------- *)
Lemma cell_lookup X f h : forall cell acc k, readx_cell X f h cell = Some acc ->
  match dict_get cell k with
  | None => lookup k acc = None
  | Some x => exists t, readx X f h x = Some t /\ lookup k acc = Some t
  end.
Proof.
  induction cell as [|[k' x] r IH]; intros acc k E; simpl in *.
  - inversion E. reflexivity.
  - destruct (readx X f h x) as [tx|] eqn:Ex; [|discriminate].
    destruct (readx_cell X f h r) as [dr|] eqn:Er; [|discriminate]. inversion E; subst. simpl.
    destruct (String.eqb k k'); [eauto|]. apply IH. reflexivity.
Qed.

Lemma cell_set X f h : forall cell acc k v t, readx_cell X f h cell = Some acc -> readx X f h v = Some t ->
  readx_cell X f h (dict_set cell k v) = Some (set k t acc).
Proof.
  induction cell as [|[k' x] r IH]; intros acc k v t E V; simpl in *.
  - inversion E. simpl. rewrite V. reflexivity.
  - destruct (readx X f h x) as [tx|] eqn:Ex; [|discriminate].
    destruct (readx_cell X f h r) as [dr|] eqn:Er; [|discriminate]. inversion E; subst. simpl.
    destruct (String.eqb k k') eqn:K; simpl.
    + rewrite V, Er. reflexivity.
    + rewrite Ex, (IH dr k v t eq_refl V). reflexivity.
Qed.

Lemma hget_hset_same h a d : a < length h -> hget (hset h a d) a = d.
Proof. unfold hget. revert a. induction h; intros [|a'] L; simpl in *; try lia; auto. apply IHh. lia. Qed.

Lemma nth_error_hget h a : a < length h -> nth_error h a = Some (hget h a).
Proof. intro L. unfold hget. now apply nth_error_nth'. Qed.

Lemma preserves_agree X h h' : preserves h h' -> agree_off X h h'.
Proof. intros [L P]. split; auto. Qed.

Lemma hset_agree X c h d : In c X -> agree_off X h (hset h c d).
Proof.
  intro Hin. split; [now rewrite hset_length|]. intros a La NX. apply hset_other. intro E. subst. contradiction.
Qed.

(* ---------- the simulation ---------- *)
Definition sim_ok (fuel : nat) : Prop :=
  forall f X h vo vv to tv, f < fuel -> (forall a, In a X -> a < length h) ->
    readx X (S f) h vo = Some to -> readx X (S f) h vv = Some tv ->
    exists h' r, merge_heap fuel h vo vv = Some (h', r) /\ preserves h h' /\ fresh_ref h h' r /\
                 readx X (S f) h' r = Some (TDict (merge_dict (as_dict to) (as_dict tv))).

Lemma loop_sim fuel f X c h0 vo vv :
  (forall f', S f' = f -> sim_ok fuel /\ f' < fuel) -> length h0 <= c -> (forall a, In a X -> a < length h0) ->
  forall its l hc acc,
    preserves h0 hc -> c < length hc ->
    readx_cell X f h0 its = Some l ->
    readx_cell (c :: X) f hc (hget hc c) = Some acc ->
    exists hf, fold_left (merge_heap_body (fun _ => merge_heap fuel) fuel (VRef c) vo vv) its (Some hc) = Some hf /\
               preserves h0 hf /\ c < length hf /\
               readx_cell (c :: X) f hf (hget hf c) = Some (merge_dict acc l).
Proof.
  intros IH Hc HX. induction its as [|[k value] its IHits]; intros l hc acc P Lc El Ec.
  - simpl in El. inversion El; subst. exists hc. simpl. auto.
  - simpl in El. destruct (readx X f h0 value) as [y|] eqn:Ey; [|discriminate].
    destruct (readx_cell X f h0 its) as [lr|] eqn:Elr; [|discriminate]. inversion El; subst l. clear El.
    cbn [fold_left]. rewrite body_step.
    (* the value, read in the current heap, avoiding c as well *)
    assert (Ay : readx (c :: X) f hc value = Some y).
    { apply (readx_agree (c :: X) h0 hc (preserves_agree _ _ _ P)). apply readx_bound; auto. }
    pose proof (cell_lookup (c :: X) f hc (hget hc c) acc k Ec) as Lk.
    unfold py_get. cbn [merge_dict].
    destruct (dict_get (hget hc c) k) as [ox|] eqn:Eg.
    + destruct Lk as (tx & Etx & Lacc).
      destruct (py_isdict ox && py_isdict value) eqn:Cnd.
      * (* both are dictionaries: merge them recursively into a fresh object *)
        apply andb_true_iff in Cnd. destruct Cnd as [C1 C2].
        destruct ox as [| | | | |a']; try discriminate. destruct value as [| | | | |b']; try discriminate.
        destruct f as [|f']; [discriminate|]. destruct (IH f' eq_refl) as [Sim Lf].
        assert (HX' : forall a, In a (c :: X) -> a < length hc).
        { intros a [->|Ha]; auto. destruct P as [Lp _]. specialize (HX a Ha). lia. }
        destruct (Sim f' (c :: X) hc (VRef a') (VRef b') tx y Lf HX' Etx Ay) as (hx & r & Em & Pm & Fr & Er).
        rewrite Em.
        destruct (readx_ref_dict _ _ _ _ _ Etx) as (da & ->). destruct (readx_ref_dict _ _ _ _ _ Ay) as (db & ->).
        cbn [as_dict] in Er.
        assert (Lx : c < length hx) by (destruct Pm; lia).
        assert (P' : preserves h0 hx) by (eapply preserves_trans; eauto).
        destruct (hset_fresh_preserves h0 hx c (dict_set (hget hx c) k r) Hc P' Lx) as [P'' L''].
        unfold py_setitem. rewrite Lacc, merge_val_spec.
        apply (IHits lr _ (set k (TDict (merge_dict da db)) acc)); auto.
        rewrite hget_hset_same by auto.
           apply (readx_cell_agree (c :: X) hx _ (S f') _ _ (hset_agree (c :: X) c hx _ (or_introl eq_refl))).
           apply cell_set; auto.
           assert (hget hx c = hget hc c) as -> by (destruct Pm as [_ Q]; apply Q; auto).
           apply (readx_cell_agree (c :: X) hc hx _ _ _ (preserves_agree _ _ _ Pm)). exact Ec.
      * (* otherwise the override is stored as it is *)
        destruct (hset_fresh_preserves h0 hc c (dict_set (hget hc c) k value) Hc P Lc) as [P'' L''].
        unfold py_setitem.
        assert (MV : merge_val (lookup k acc) y = y).
        { rewrite Lacc. apply andb_false_iff in Cnd. destruct Cnd as [C|C].
          - apply merge_val_non_dict_original. intros d E. inversion E; subst.
            destruct ox; try discriminate; eapply (readx_nonref_leaf _ _ _ _ _ _ Etx); eauto.
          - apply merge_val_non_dict_override. destruct value; try discriminate;
              eapply (readx_nonref_leaf _ _ _ _ _ _ Ay). }
        rewrite MV.
        apply (IHits lr _ (set k y acc)); auto.
        rewrite hget_hset_same by auto.
        apply (readx_cell_agree (c :: X) hc _ f _ _ (hset_agree (c :: X) c hc _ (or_introl eq_refl))).
        apply cell_set; auto.
    + (* a new key *)
      cbn [py_isdict andb].
      destruct (hset_fresh_preserves h0 hc c (dict_set (hget hc c) k value) Hc P Lc) as [P'' L''].
      unfold py_setitem.
      assert (MV : merge_val (lookup k acc) y = y) by (rewrite Lk; apply merge_val_non_dict_original; discriminate).
      rewrite MV.
      apply (IHits lr _ (set k y acc)); auto.
      rewrite hget_hset_same by auto.
      apply (readx_cell_agree (c :: X) hc _ f _ _ (hset_agree (c :: X) c hc _ (or_introl eq_refl))).
      apply cell_set; auto.
Unshelve. all: try (intros; discriminate); try exact 0; try exact [].
Qed.

Lemma readx_cell_weaken X Y f h cell d : (forall a, In a Y -> In a X) ->
  readx_cell X f h cell = Some d -> readx_cell Y f h cell = Some d.
Proof.
  intro Sub. revert d. induction cell as [|[k x] r IHr]; intros d EC; simpl in *; auto.
  destruct (readx X f h x) as [tx|] eqn:Ex; [|discriminate]. rewrite (readx_weaken X Y Sub _ _ _ _ Ex).
  destruct (readx_cell X f h r) as [dr|]; [|discriminate]. rewrite (IHr _ eq_refl). exact EC.
Qed.

Lemma hget_app_old (h : heap) x a : a < length h -> hget (h ++ x) a = hget h a.
Proof. intro L. unfold hget. now rewrite app_nth1. Qed.
Lemma hget_app_new (h : heap) cell : hget (h ++ [cell]) (length h) = cell.
Proof. unfold hget. rewrite app_nth2, Nat.sub_diag by lia. reflexivity. Qed.

Theorem merge_heap_sim : forall fuel, sim_ok fuel.
Proof.
  induction fuel as [|fu IH]; intros f X h vo vv to tv Lf HX Eo Ev; [lia|].
  cbn [merge_heap].
  set (c := length h).
  (* the copy *)
  assert (Copy : exists cell, (if py_truthy h vo then py_dict_copy h vo else py_dict_new h) = (h ++ [cell], VRef c) /\
                              readx_cell X f h cell = Some (as_dict to)).
  { destruct vo as [| | | | |a].
    1-5: exists []; split; [unfold py_dict_copy, py_dict_new; destruct (py_truthy h _); reflexivity|];
         simpl in Eo; inversion Eo; reflexivity.
    rewrite readx_ref in Eo. destruct (existsb (Nat.eqb a) X); [discriminate|].
    destruct (nth_error h a) as [cl|] eqn:En; [|discriminate].
    assert (La : a < length h) by (apply nth_error_Some; congruence).
    assert (hget h a = cl) by (rewrite nth_error_hget in En by auto; congruence). subst cl.
    destruct (readx_cell X f h (hget h a)) as [d|] eqn:Ec; [|discriminate]. inversion Eo; subst to. simpl.
    unfold py_truthy. destruct (hget h a) as [|e r] eqn:Eh.
    - exists []. split; [reflexivity|]. simpl in Ec. inversion Ec. reflexivity.
    - exists (e :: r). split; [unfold py_dict_copy; rewrite ?Eh; reflexivity|exact Ec]. }
  destruct Copy as (cell & -> & Ecell).
  assert (P1 : preserves h (h ++ [cell])) by apply preserves_app.
  assert (L1 : c < length (h ++ [cell])) by (rewrite app_length; simpl; unfold c; lia).
  assert (HcX : ~ In c X) by (intro Hin; apply HX in Hin; unfold c in Hin; lia).
  assert (Ec1 : readx_cell (c :: X) f (h ++ [cell]) (hget (h ++ [cell]) c) = Some (as_dict to)).
  { unfold c. rewrite hget_app_new. fold c.
    apply (readx_cell_agree (c :: X) h _ f _ _ (preserves_agree _ _ _ P1)). apply readx_cell_bound; auto. }
  assert (Final : forall hf d, preserves h hf -> c < length hf ->
                  readx_cell (c :: X) f hf (hget hf c) = Some d -> readx X (S f) hf (VRef c) = Some (TDict d)).
  { intros hf d Pf Lc E. rewrite readx_ref.
    assert (existsb (Nat.eqb c) X = false) as ->.
    { destruct (existsb (Nat.eqb c) X) eqn:E1; auto. apply existsb_exists in E1. destruct E1 as (y & Hy & E1).
      apply Nat.eqb_eq in E1. subst y. contradiction. }
    rewrite nth_error_hget by auto.
    rewrite (readx_cell_weaken (c :: X) X f hf _ d) by (auto; intros a Ha; simpl; auto). reflexivity. }
  (* the overrides *)
  assert (Items : readx_cell X f h (py_items (h ++ [cell]) vv) = Some (as_dict tv) /\
                  (py_truthy (h ++ [cell]) vv = false -> as_dict tv = [])).
  { destruct vv as [| | | | |b].
    1-5: simpl in Ev; inversion Ev; simpl; auto.
    rewrite readx_ref in Ev. destruct (existsb (Nat.eqb b) X); [discriminate|].
    destruct (nth_error h b) as [cl|] eqn:En; [|discriminate].
    assert (Lb : b < length h) by (apply nth_error_Some; congruence).
    assert (hget h b = cl) by (rewrite nth_error_hget in En by auto; congruence). subst cl.
    destruct (readx_cell X f h (hget h b)) as [d|] eqn:Ec; [|discriminate]. inversion Ev; subst tv.
    unfold py_items, py_truthy. rewrite hget_app_old by auto. split; [exact Ec|].
    destruct (hget h b); [|discriminate]. intros _. simpl in Ec. inversion Ec. reflexivity. }
  destruct Items as [Eits Falsy].
  destruct (py_truthy (h ++ [cell]) vv) eqn:Tv.
  - assert (Nest : forall f', S f' = f -> sim_ok fu /\ f' < fu) by (intros f' <-; split; [exact IH|lia]).
    destruct (loop_sim fu f X c h vo vv Nest (le_n _) HX _ _ _ _ P1 L1 Eits Ec1) as (hf & Ef & Pf & Lc & Er).
    rewrite Ef. exists hf, (VRef c). split; [reflexivity|]. split; [exact Pf|]. split.
    + exists c. split; [reflexivity|]. unfold c. destruct Pf. lia.
    + apply Final; auto.
  - exists (h ++ [cell]), (VRef c). split; [reflexivity|]. split; [exact P1|]. split.
    + exists c. split; [reflexivity|]. unfold c. rewrite app_length. simpl. lia.
    + rewrite (Falsy eq_refl). simpl. apply Final; auto.
Qed.

(* in terms of the plain [read]: whatever the heap, two values that read back as trees are merged
   into a new object that reads back as the pure merge of those trees; nothing that existed
   before is written (merge_heap_args_unchanged) *)
Theorem merge_heap_computes_merge : forall n h vo vv to tv,
  read (S n) h vo = Some to -> read (S n) h vv = Some tv ->
  exists h' r, merge_heap (S (S n)) h vo vv = Some (h', r) /\
    read (S n) h' r = Some (TDict (merge_dict (as_dict to) (as_dict tv))) /\
    read (S n) h' vo = Some to /\ read (S n) h' vv = Some tv /\ fresh_ref h h' r.
Proof.
  intros n h vo vv to tv Eo Ev. rewrite <- readx_nil_read in Eo, Ev.
  destruct (merge_heap_sim (S (S n)) n [] h vo vv to tv) as (h' & r & Em & P & F & Er); auto.
  { intros a []. }
  exists h', r. split; [exact Em|]. split; [now apply readx_read in Er|].
  rewrite readx_nil_read in Eo, Ev. repeat split; auto; eapply read_preserves; eauto.
Qed.
