(* Proofs about merge_config: the pure merge (keys, values, well-formedness, None = {}) and the
   heap-level twin (purity: no pre-existing dict object is written; the result is fresh). *)
From Coq Require Import String.
From Coq Require Import List ZArith Bool Arith Lia.
From Asphalt Require Import Config.Val Config.MergeSpec.
Import ListNotations.
Open Scope string_scope.
Open Scope list_scope.

(* ---------------- association lists ---------------- *)
Lemma lookup_set_eq k v d : lookup k (set k v d) = Some v.
Proof.
  induction d as [|[k' v'] r IH]; simpl.
  - now rewrite String.eqb_refl.
  - destruct (String.eqb k k') eqn:E; simpl; rewrite ?String.eqb_refl, ?E; auto.
Qed.

Lemma lookup_set_neq k k' v d : k <> k' -> lookup k' (set k v d) = lookup k' d.
Proof.
  intro N. induction d as [|[k2 v2] r IH]; simpl.
  - destruct (String.eqb k' k) eqn:E; auto. apply String.eqb_eq in E. congruence.
  - destruct (String.eqb k k2) eqn:E; simpl.
    + apply String.eqb_eq in E. subst k2.
      destruct (String.eqb k' k) eqn:E2; auto. apply String.eqb_eq in E2. congruence.
    + destruct (String.eqb k' k2); auto.
Qed.

Lemma keys_set k v d k' : In k' (keys (set k v d)) <-> k' = k \/ In k' (keys d).
Proof.
  unfold keys. induction d as [|[k2 v2] r IH]; simpl.
  - intuition.
  - destruct (String.eqb k k2) eqn:E; simpl.
    + apply String.eqb_eq in E. subst. intuition.
    + rewrite IH. intuition.
Qed.

Lemma lookup_None_keys k d : lookup k d = None <-> ~ In k (keys d).
Proof.
  unfold keys. induction d as [|[k2 v2] r IH]; simpl; [intuition|].
  destruct (String.eqb k k2) eqn:E.
  - apply String.eqb_eq in E. subst. split; [discriminate|intuition].
  - apply String.eqb_neq in E. rewrite IH. intuition.
Qed.

Lemma set_NoDup k v d : NoDup (keys d) -> NoDup (keys (set k v d)).
Proof.
  unfold keys. induction d as [|[k2 v2] r IH]; simpl; intro H.
  - repeat constructor; auto.
  - inversion H; subst. destruct (String.eqb k k2) eqn:E; simpl.
    + apply String.eqb_eq in E. subst. constructor; auto.
    + constructor; auto. intro Hin. apply (keys_set k v r k2) in Hin.
      apply String.eqb_neq in E. destruct Hin; [congruence|auto].
Qed.

(* ---------------- pure merge ---------------- *)
Lemma merge_val_go a b :
  (fix go (acc : dict) (l : dict) {struct l} : dict :=
     match l with
     | [] => acc
     | (k, y) :: rest => go (set k (merge_val (lookup k acc) y) acc) rest
     end) a b = merge_dict a b.
Proof. revert a. induction b as [|[k y] r IH]; intro a; simpl; auto. Qed.

(* the one-step characterisation of the value stored for a key *)
Lemma merge_val_spec ov x :
  merge_val ov x =
  match ov, x with
  | Some (TDict a), TDict b => TDict (merge_dict a b)
  | _, _ => x
  end.
Proof.
  destruct x; destruct ov as [[]|]; simpl; auto; try now rewrite merge_val_go.
Qed.

Lemma merge_dict_lookup : forall v o k, NoDup (keys v) ->
  lookup k (merge_dict o v) =
  match lookup k v with
  | Some x => Some (merge_val (lookup k o) x)
  | None => lookup k o
  end.
Proof.
  induction v as [|[k1 y] rest IH]; intros o k ND; simpl; auto.
  inversion ND as [|? ? Hnin ND']; subst.
  rewrite IH by auto.
  destruct (String.eqb k k1) eqn:E.
  - apply String.eqb_eq in E. subst k1.
    assert (lookup k rest = None) as -> by (apply lookup_None_keys; auto).
    apply lookup_set_eq.
  - apply String.eqb_neq in E.
    rewrite !(lookup_set_neq k1 k) by congruence. reflexivity.
Qed.

Lemma merge_dict_keys : forall v o k,
  In k (keys (merge_dict o v)) <-> In k (keys o) \/ In k (keys v).
Proof.
  induction v as [|[k1 y] rest IH]; intros o k; simpl.
  - intuition.
  - rewrite IH, keys_set. intuition.
Qed.

Lemma merge_dict_NoDup : forall v o, NoDup (keys o) -> NoDup (keys (merge_dict o v)).
Proof.
  induction v as [|[k1 y] rest IH]; intros o H; simpl; auto.
  apply IH. now apply set_NoDup.
Qed.

(* the property's wording, for top-level arguments that may be None *)
Theorem merge_values : forall o v k, NoDup (keys (odict v)) ->
  lookup k (merge o v) =
  match lookup k (odict o), lookup k (odict v) with
  | Some (TDict a), Some (TDict b) => Some (TDict (merge_dict a b))
  | _, Some x => Some x
  | x, None => x
  end.
Proof.
  intros o v k ND. unfold merge. rewrite merge_dict_lookup by auto.
  destruct (lookup k (odict v)) as [x|]; [|destruct (lookup k (odict o)) as [[]|]; reflexivity].
  rewrite merge_val_spec.
  destruct (lookup k (odict o)) as [[]|]; destruct x; reflexivity.
Qed.

Theorem merge_keys : forall o v k,
  In k (keys (merge o v)) <-> In k (keys (odict o)) \/ In k (keys (odict v)).
Proof. intros. apply merge_dict_keys. Qed.

Theorem merge_wf : forall o v, NoDup (keys (odict o)) -> NoDup (keys (merge o v)).
Proof. intros. now apply merge_dict_NoDup. Qed.

Theorem merge_none_is_empty : forall o v,
  merge None v = merge (Some []) v /\ merge o None = merge o (Some []) /\ merge o None = odict o.
Proof. intros. repeat split. Qed.

(* lists and scalars are replaced wholesale; dict-vs-scalar collisions take the override *)
Theorem merge_val_non_dict_override ov x :
  (forall d, x <> TDict d) -> merge_val ov x = x.
Proof. intros H. rewrite merge_val_spec. destruct ov as [[]|]; destruct x; auto. now destruct (H d0). Qed.

Theorem merge_val_non_dict_original ov x :
  (forall d, ov <> Some (TDict d)) -> merge_val ov x = x.
Proof. intros H. rewrite merge_val_spec. destruct ov as [[]|]; auto. destruct x; auto. now destruct (H d). Qed.

(* ---------------- heap level: purity ---------------- *)
Lemma hset_length h a d : length (hset h a d) = length h.
Proof. revert a; induction h; intros [|a']; simpl; auto. Qed.

Lemma hset_other h a d b : b <> a -> hget (hset h a d) b = hget h b.
Proof. unfold hget. revert a b; induction h; intros [|a'] [|b'] H; simpl; auto; try congruence. Qed.

Definition preserves (h h' : heap) :=
  length h <= length h' /\ forall a, a < length h -> hget h' a = hget h a.

Lemma preserves_refl h : preserves h h.
Proof. split; auto. Qed.

Lemma preserves_trans a b c : preserves a b -> preserves b c -> preserves a c.
Proof. intros [L1 H1] [L2 H2]; split; [lia|]. intros x Hx. rewrite H2 by lia. auto. Qed.

Lemma preserves_app h x : preserves h (h ++ x).
Proof.
  split. rewrite app_length; lia. intros a Ha. unfold hget. now rewrite app_nth1.
Qed.

Definition fresh_ref (h h' : heap) (r : val) := exists a, r = VRef a /\ length h <= a < length h'.

Definition rec_ok (rec : heap -> val -> val -> option (heap * val)) :=
  forall h o v h' r, rec h o v = Some (h', r) -> preserves h h' /\ fresh_ref h h' r.

Lemma hset_fresh_preserves h hx c d : length h <= c -> preserves h hx -> c < length hx ->
  preserves h (hset hx c d) /\ c < length (hset hx c d).
Proof.
  intros Hc [Lx Hx] Lcx. unfold preserves. rewrite !hset_length. split; [split; [lia|]|lia].
  intros a Ha. rewrite hset_other by lia. apply Hx; auto.
Qed.

Lemma fold_body_none rec fuel c vo vv its :
  fold_left (merge_heap_body rec fuel c vo vv) its None = None.
Proof. induction its as [|[k v] its IH]; simpl; auto. Qed.

Lemma body_step rec fuel c vo vv hc k value :
  merge_heap_body rec fuel (VRef c) vo vv (Some hc) (k, value) =
  if py_isdict (py_get hc (VRef c) k) && py_isdict value
  then match rec fuel hc (py_get hc (VRef c) k) value with
       | None => None
       | Some (h, r) => Some (py_setitem h (VRef c) k r)
       end
  else Some (py_setitem hc (VRef c) k value).
Proof.
  unfold merge_heap_body. destruct (_ && _); auto.
  destruct (rec fuel hc _ value) as [[]|]; auto.
Qed.

Lemma loop_pure rec fuel c vo vv h0 : rec_ok (rec fuel) -> length h0 <= c ->
  forall its hc hf, preserves h0 hc -> c < length hc ->
    fold_left (merge_heap_body rec fuel (VRef c) vo vv) its (Some hc) = Some hf ->
    preserves h0 hf /\ c < length hf.
Proof.
  intros Hrec Hc. induction its as [|[k value] its IH]; intros hc hf Pc Lc Hf; cbn [fold_left] in Hf.
  - inversion Hf; subst; auto.
  - rewrite body_step in Hf.
    destruct (py_isdict (py_get hc (VRef c) k) && py_isdict value) eqn:Cnd.
    + destruct (rec fuel hc (py_get hc (VRef c) k) value) as [[h' m]|] eqn:Em.
      * apply Hrec in Em. destruct Em as [Pm _].
        assert (P' : preserves h0 h') by (eapply preserves_trans; eauto).
        assert (L' : c < length h') by (destruct Pm; lia).
        destruct (hset_fresh_preserves h0 h' c (dict_set (hget h' c) k m) Hc P' L').
        eapply IH; eauto.
      * rewrite fold_body_none in Hf. discriminate.
    + destruct (hset_fresh_preserves h0 hc c (dict_set (hget hc c) k value) Hc Pc Lc).
      eapply IH; eauto.
Qed.

Theorem merge_heap_pure : forall fuel, rec_ok (merge_heap fuel).
Proof.
  induction fuel as [|f IH]; intros h o v h' r H; [discriminate|].
  cbn [merge_heap] in H.
  set (h1c := if py_truthy h o then py_dict_copy h o else py_dict_new h) in H.
  assert (E1 : exists cell, h1c = (h ++ [cell], VRef (length h))).
  { unfold h1c, py_dict_copy, py_dict_new. destruct (py_truthy h o); [destruct o|]; eauto. }
  destruct E1 as [cell E1]. rewrite E1 in H. clear h1c E1.
  assert (P1 : preserves h (h ++ [cell])) by apply preserves_app.
  assert (L1 : length h < length (h ++ [cell])) by (rewrite app_length; simpl; lia).
  destruct (py_truthy (h ++ [cell]) v).
  - destruct (fold_left _ _ _) as [hf|] eqn:EF in H; [|discriminate]. inversion H; subst.
    apply (loop_pure (fun _ => merge_heap f) f (length h) o v h IH (le_n _)) in EF; auto.
    destruct EF as [P L]. split; auto. exists (length h). split; [reflexivity|try lia].
  - inversion H; subst. split; auto. exists (length h). split; [reflexivity|try lia].
Qed.

(* reading any value back after the call gives what it gave before: arguments are unchanged
   at every depth *)
Lemma preserves_nth_error h h' a cell : preserves h h' -> nth_error h a = Some cell -> nth_error h' a = Some cell.
Proof.
  intros [L P] E.
  assert (Ha : a < length h) by (apply nth_error_Some; congruence).
  specialize (P a Ha). unfold hget in P.
  rewrite (nth_error_nth' h' [] (n:=a)) by lia.
  rewrite P. apply nth_error_nth with (d:=[]) in E. now rewrite E.
Qed.

Lemma read_preserves h h' : preserves h h' ->
  forall fuel v t, read fuel h v = Some t -> read fuel h' v = Some t.
Proof.
  intros P. induction fuel as [|f IH]; intros v t H; destruct v; simpl in *; auto; try discriminate.
  destruct (nth_error h a) as [cell|] eqn:E; [|discriminate].
  rewrite (preserves_nth_error _ _ _ _ P E). clear E.
  revert t H. induction cell as [|[k x] r IHr]; intros t H; auto.
  destruct (read f h x) as [tx|] eqn:Ex; [|discriminate].
  rewrite (IH _ _ Ex).
  match type of H with match ?g with _ => _ end = _ => destruct g as [tr|] eqn:Eg; [|discriminate] end.
  rewrite (IHr _ eq_refl). exact H.
Qed.

Theorem merge_heap_args_unchanged fuel h o v h' r :
  merge_heap fuel h o v = Some (h', r) ->
  (forall a, a < length h -> hget h' a = hget h a) /\
  (forall n x t, read n h x = Some t -> read n h' x = Some t) /\
  fresh_ref h h' r.
Proof.
  intro H. apply merge_heap_pure in H. destruct H as [P F]. split; [apply P|split; auto].
  intros n x t. now apply read_preserves.
Qed.

(* non-vacuity: a three-level example with every kind of collision, evaluated through the heap
   model, gives the pure merge and leaves both arguments as they were *)
Definition ex_o : dict :=
  [("a", TDict [("x", TInt 1); ("y", TDict [("p", TInt 1); ("q", TList "[1]")])]);
   ("b", TInt 2); ("c", TDict [("k", TInt 0)]); ("l", TList "[1, 2]"); ("a.b", TInt 7)].
Definition ex_v : dict :=
  [("a", TDict [("y", TDict [("p", TInt 9); ("r", TNone)]); ("z", TStr "s")]);
   ("b", TDict [("n", TInt 3)]); ("c", TInt 5); ("l", TList "[3]"); ("d", TDict [])].

Example merge_example :
  merge (Some ex_o) (Some ex_v) =
  [("a", TDict [("x", TInt 1); ("y", TDict [("p", TInt 9); ("q", TList "[1]"); ("r", TNone)]); ("z", TStr "s")]);
   ("b", TDict [("n", TInt 3)]); ("c", TInt 5); ("l", TList "[3]"); ("a.b", TInt 7); ("d", TDict [])]
  /\ merge_via_heap 10 (Some ex_o) (Some ex_v) =
     Some (TDict (merge (Some ex_o) (Some ex_v)), TDict ex_o, TDict ex_v, true)
  /\ NoDup (keys ex_v).
Proof.
  split; [vm_compute; reflexivity|split; [vm_compute; reflexivity|]].
  unfold keys, ex_v; simpl. repeat constructor; simpl; intuition discriminate.
Qed.
