(* Configuration values: immutable trees (the mathematical object the properties speak about)
   and a heap of mutable dict objects (what the Python code manipulates; needed because C17
   and C14 have clauses about *not mutating* their arguments). Definitions only. *)
From Coq Require Import String.
From Coq Require Import List ZArith Bool Arith Lia.
Import ListNotations.
Open Scope string_scope.
Open Scope list_scope.

(* ---------- immutable trees ---------- *)
Inductive tree :=
| TNone
| TBool (b : bool)
| TInt (z : Z)
| TStr (s : string)
| TList (repr : string)   (* a list or other non-dict leaf, identified by its canonical text *)
| TDict (d : list (string * tree)).

Definition dict := list (string * tree).

Fixpoint lookup (k : string) (d : dict) : option tree :=
  match d with
  | [] => None
  | (k', v) :: r => if String.eqb k k' then Some v else lookup k r
  end.

(* Python `d[k] = v`: replace in place, or append (insertion order is kept) *)
Fixpoint set (k : string) (v : tree) (d : dict) : dict :=
  match d with
  | [] => [(k, v)]
  | (k', v') :: r => if String.eqb k k' then (k, v) :: r else (k', v') :: set k v r
  end.

Fixpoint remove (k : string) (d : dict) : dict :=
  match d with
  | [] => []
  | (k', v') :: r => if String.eqb k k' then remove k r else (k', v') :: remove k r
  end.

Definition keys (d : dict) : list string := map fst d.

Fixpoint tree_eqb (a b : tree) {struct a} : bool :=
  match a, b with
  | TNone, TNone => true
  | TBool x, TBool y => Bool.eqb x y
  | TInt x, TInt y => Z.eqb x y
  | TStr x, TStr y => String.eqb x y
  | TList x, TList y => String.eqb x y
  | TDict x, TDict y =>
      (fix go (x y : dict) {struct x} : bool :=
         match x, y with
         | [], [] => true
         | (k, v) :: x', (k', v') :: y' => String.eqb k k' && tree_eqb v v' && go x' y'
         | _, _ => false
         end) x y
  | _, _ => false
  end.

(* order-insensitive comparison of dicts with unique keys (Python == on dicts) *)
Fixpoint tree_equiv (a b : tree) {struct a} : bool :=
  match a, b with
  | TDict x, TDict y =>
      Nat.eqb (length x) (length y) &&
      (fix go (x : dict) {struct x} : bool :=
         match x with
         | [] => true
         | (k, v) :: x' => match lookup k y with Some v' => tree_equiv v v' | None => false end && go x'
         end) x
  | _, _ => tree_eqb a b
  end.

Fixpoint depth (t : tree) : nat :=
  match t with
  | TDict d => S ((fix go (d : dict) : nat := match d with [] => 0 | (_, v) :: r => Nat.max (depth v) (go r) end) d)
  | _ => 0
  end.

Definition truthy_tree (t : tree) : bool :=
  match t with
  | TNone => false
  | TBool b => b
  | TInt z => negb (Z.eqb z 0)
  | TStr s => negb (String.eqb s "")
  | TList s => negb (String.eqb s "[]")
  | TDict d => match d with [] => false | _ => true end
  end.

(* ---------- heap of dict objects ---------- *)
Inductive val :=
| VNone
| VBool (b : bool)
| VInt (z : Z)
| VStr (s : string)
| VList (repr : string)
| VRef (a : nat).

Definition dictobj := list (string * val).
Definition heap := list dictobj.

Fixpoint dict_get (d : dictobj) (k : string) : option val :=
  match d with
  | [] => None
  | (k', v) :: r => if String.eqb k k' then Some v else dict_get r k
  end.

Fixpoint dict_set (d : dictobj) (k : string) (v : val) : dictobj :=
  match d with
  | [] => [(k, v)]
  | (k', v') :: r => if String.eqb k k' then (k, v) :: r else (k', v') :: dict_set r k v
  end.

Fixpoint dict_del (d : dictobj) (k : string) : dictobj :=
  match d with
  | [] => []
  | (k', v') :: r => if String.eqb k k' then dict_del r k else (k', v') :: dict_del r k
  end.

Definition hget (h : heap) (a : nat) : dictobj := nth a h [].

Fixpoint hset (h : heap) (a : nat) (d : dictobj) : heap :=
  match h, a with
  | [], _ => []
  | _ :: r, O => d :: r
  | x :: r, S a' => x :: hset r a' d
  end.

(* ---------- the Python primitives the translator emits (translate/py2coq.py) ---------- *)
Definition py_truthy (h : heap) (v : val) : bool :=
  match v with
  | VNone => false
  | VBool b => b
  | VInt z => negb (Z.eqb z 0)
  | VStr s => negb (String.eqb s "")
  | VList s => negb (String.eqb s "[]")
  | VRef a => match hget h a with [] => false | _ => true end
  end.

Definition py_isdict (v : val) : bool := match v with VRef _ => true | _ => false end.

Definition py_dict_new (h : heap) : heap * val := (h ++ [[]], VRef (length h)).

(* dict(x): a new dict object with the same entries (shallow) *)
Definition py_dict_copy (h : heap) (v : val) : heap * val :=
  match v with
  | VRef a => (h ++ [hget h a], VRef (length h))
  | _ => (h ++ [[]], VRef (length h))
  end.

(* x.get(k) *)
Definition py_get (h : heap) (d : val) (k : string) : val :=
  match d with
  | VRef a => match dict_get (hget h a) k with Some v => v | None => VNone end
  | _ => VNone
  end.

(* x[k] = v *)
Definition py_setitem (h : heap) (d : val) (k : string) (v : val) : heap :=
  match d with
  | VRef a => hset h a (dict_set (hget h a) k v)
  | _ => h
  end.

(* x.items(), a snapshot (justified for merge_config by the purity theorem: the iterated
   dict is never written during the loop) *)
Definition py_items (h : heap) (d : val) : list (string * val) :=
  match d with
  | VRef a => hget h a
  | _ => []
  end.

(* ---------- moving between trees and heaps ---------- *)
Fixpoint load (t : tree) (h : heap) {struct t} : heap * val :=
  match t with
  | TNone => (h, VNone)
  | TBool b => (h, VBool b)
  | TInt z => (h, VInt z)
  | TStr s => (h, VStr s)
  | TList s => (h, VList s)
  | TDict d =>
      let '(h1, cell) :=
        (fix go (d : dict) (h : heap) {struct d} : heap * dictobj :=
           match d with
           | [] => (h, [])
           | (k, x) :: r =>
               let '(h1, v) := load x h in
               let '(h2, c) := go r h1 in
               (h2, (k, v) :: c)
           end) d h in
      (h1 ++ [cell], VRef (length h1))
  end.

Fixpoint read (fuel : nat) (h : heap) (v : val) : option tree :=
  match v with
  | VNone => Some TNone
  | VBool b => Some (TBool b)
  | VInt z => Some (TInt z)
  | VStr s => Some (TStr s)
  | VList s => Some (TList s)
  | VRef a =>
      match fuel with
      | O => None
      | S f =>
          match nth_error h a with
          | None => None
          | Some cell =>
              (fix go (c : dictobj) : option tree :=
                 match c with
                 | [] => Some (TDict [])
                 | (k, x) :: r =>
                     match read f h x, go r with
                     | Some t, Some (TDict d) => Some (TDict ((k, t) :: d))
                     | _, _ => None
                     end
                 end) cell
          end
      end
  end.

Definition opt_tree_eqb (a b : option tree) : bool :=
  match a, b with
  | Some x, Some y => tree_eqb x y
  | None, None => true
  | _, _ => false
  end.
