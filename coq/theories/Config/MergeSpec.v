(* merge_config: the pure specification (deep, right-biased merge of immutable trees) and the
   hand-written heap-level twin of the translated Python text.  Definitions only. *)
From Coq Require Import String.
From Coq Require Import List ZArith Bool.
From Asphalt Require Import Config.Val.
Import ListNotations.
Open Scope string_scope.
Open Scope list_scope.

(* value stored under a key whose current value is [ov] when the override is [x] *)
Fixpoint merge_val (ov : option tree) (x : tree) {struct x} : tree :=
  match ov, x with
  | Some (TDict a), TDict b =>
      TDict ((fix go (acc : dict) (l : dict) {struct l} : dict :=
                match l with
                | [] => acc
                | (k, y) :: rest => go (set k (merge_val (lookup k acc) y) acc) rest
                end) a b)
  | _, _ => x
  end.

Fixpoint merge_dict (acc : dict) (l : dict) {struct l} : dict :=
  match l with
  | [] => acc
  | (k, y) :: rest => merge_dict (set k (merge_val (lookup k acc) y) acc) rest
  end.

Definition odict (o : option dict) : dict := match o with Some d => d | None => [] end.

(* merge_config(original, overrides); None behaves like {} *)
Definition merge (o v : option dict) : dict := merge_dict (odict o) (odict v).

(* ---- heap-level twin: what translate/py2coq.py produces from the pinned source text of
   merge_config (src/asphalt/core/_utils.py).  Gen/Tie_merge.v proves the regenerated
   definition equal to this one on every run. ---- *)
Definition merge_heap_body (merge_heap : nat -> heap -> val -> val -> option (heap * val)) (fuel : nat)
  (v_copied : val) (v_original : val) (v_overrides : val) (st : option heap) (kv : string * val) : option heap :=
match st with
| None => None
| Some h =>
let '(k_key, v_value) := kv in
let v_orig_value := py_get h v_copied k_key in
match (if ((py_isdict v_orig_value) && (py_isdict v_value)) then
match merge_heap fuel h v_orig_value v_value with
| None => None
| Some (h, r_1) =>
let h := py_setitem h v_copied k_key r_1 in
Some h
end
else
let h := py_setitem h v_copied k_key v_value in
Some h) with
| None => None
| Some h =>
Some h
end
end.

Fixpoint merge_heap (fuel : nat) (h : heap) (v_original : val) (v_overrides : val) {struct fuel} : option (heap * val) :=
match fuel with
| O => None
| S fuel =>
let '(h, v_copied) := (if py_truthy h v_original then py_dict_copy h v_original else py_dict_new h) in
match (if py_truthy h v_overrides then
match fold_left (merge_heap_body (fun _ => merge_heap fuel) fuel v_copied v_original v_overrides) (py_items h v_overrides) (Some h) with
| None => None
| Some h =>
Some h
end
else
Some h) with
| None => None
| Some h =>
Some (h, v_copied)
end
end.

(* run the heap version on two (optional) trees loaded into an empty heap and read the
   result, and both arguments, back *)
Definition otree (o : option dict) : tree := match o with Some d => TDict d | None => TNone end.

Definition merge_via_heap (fuel : nat) (o v : option dict) : option (tree * tree * tree * bool) :=
  let '(h1, vo) := load (otree o) [] in
  let '(h2, vv) := load (otree v) h1 in
  match merge_heap fuel h2 vo vv with
  | None => None
  | Some (h3, r) =>
      match read fuel h3 r, read fuel h3 vo, read fuel h3 vv with
      | Some tr, Some to, Some tv =>
          Some (tr, to, tv, match r with VRef a => Nat.leb (length h2) a | _ => false end)
      | _, _, _ => None
      end
  end.
