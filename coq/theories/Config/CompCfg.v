(* Model of the construction of a component tree from configuration
   (src/asphalt/core/_component.py: start_component/_init_component, Component.add_component,
   ComponentContext.add_resource/_factory name remapping).  Used by C14.  Definitions only. *)
From Coq Require Import String Ascii.
From Coq Require Import List Bool Arith.
From Asphalt Require Import Config.Val Config.MergeSpec Gen.Gen_initcomp.
Import ListNotations.
Open Scope string_scope.
Open Scope list_scope.

(* ---------- component classes and the three ways of naming one ---------- *)
Definition cls := nat.
Definition n_classes : nat := 6.

Definition digit (n : nat) : string :=
  match n with 0 => "0" | 1 => "1" | 2 => "2" | 3 => "3" | 4 => "4" | _ => "5" end.
Definition ep_name (k : cls) : string := "comp" ++ digit k.              (* entry point name *)
Definition ref_name (k : cls) : string := "verifpkg.mods:Comp" ++ digit k.   (* module:attr reference *)
Definition class_obj (k : cls) : tree := TList ("<class " ++ digit k ++ ">").  (* the class object itself *)

Fixpoint find_cls (p : cls -> bool) (n : nat) : option cls :=
  match n with
  | O => None
  | S m => match find_cls p m with Some k => Some k | None => if p m then Some m else None end
  end.

(* PluginContainer.resolve *)
Definition resolve (t : tree) : option cls :=
  match t with
  | TStr s => find_cls (fun k => String.eqb s (ep_name k) || String.eqb s (ref_name k)) n_classes
  | TList s => find_cls (fun k => match class_obj k with TList r => String.eqb s r | _ => false end) n_classes
  | _ => None
  end.

(* ---------- aliases: "kind/name" ---------- *)
Definition slash : ascii := "/"%char.
Fixpoint before_slash (s : string) : string :=
  match s with
  | EmptyString => EmptyString
  | String c r => if Ascii.eqb c slash then EmptyString else String c (before_slash r)
  end.
Fixpoint after_slash (s : string) : option string :=
  match s with
  | EmptyString => None
  | String c r => if Ascii.eqb c slash then Some r else after_slash r
  end.
Definition has_slash (s : string) : bool := match after_slash s with Some _ => true | None => false end.

(* the default resource name of a component deployed under this alias *)
Definition default_name_of (alias : string) : string :=
  match after_slash alias with Some n => n | None => "default" end.

(* ---------- the tree that start_component builds ---------- *)
Inductive ctree :=
  Node (path : string) (c : cls) (kwargs : dict) (default_name : string) (children : list ctree).

Inductive cerr :=
| EBadType        (* the type does not resolve to a Component subclass *)
| EBadChildConfig (* a child's configuration is neither None nor a mapping *)
| ECrashed        (* any other uncaught exception *)
| EFuel.

Inductive cres (A : Type) := COk (a : A) | CFail (e : cerr).
Arguments COk {A} a.
Arguments CFail {A} e.

Section WithClasses.
(* the add_component() calls hard-coded in each class's constructor:
   alias -> {"type": type or alias, **kwargs}, in call order *)
Variable hard : cls -> dict.

Definition child_path (path alias : string) : string :=
  match path with EmptyString => alias | _ => path ++ "." ++ alias end.

(* child_config.setdefault("type", alias); a string type with a slash keeps what precedes it *)
Definition normalise (alias : string) (cfg : dict) : dict :=
  let cfg1 := match lookup "type" cfg with Some _ => cfg | None => set "type" (TStr alias) cfg end in
  match lookup "type" cfg1 with
  | Some (TStr s) => if has_slash s then set "type" (TStr (before_slash s)) cfg1 else cfg1
  | _ => cfg1
  end.

(* config.pop("components", {}) as the second argument of merge_config *)
Definition ext_children (cfg : dict) : cres (option dict) :=
  match lookup "components" cfg with
  | None => COk None
  | Some (TDict d) => COk (Some d)
  | Some t => if truthy_tree t then CFail ECrashed else COk None
  end.

Fixpoint init_component (fuel : nat) (path : string) (cfg : dict) (dn : string) : cres ctree :=
  match fuel with
  | O => CFail EFuel
  | S f =>
      match ext_children cfg with
      | CFail e => CFail e
      | COk ext =>
          match lookup "type" cfg with
          | None => CFail ECrashed
          | Some ty =>
              match resolve ty with
              | None => CFail EBadType
              | Some c =>
                  let kwargs := remove "type" (remove "components" cfg) in
                  (* which of the two wins is read from the merge_config call in _init_component on this run *)
                  let merged := if ic_external_overrides_hardcoded then merge (Some (hard c)) ext
                                else merge ext (Some (hard c)) in
                  match
                    (fix kids (l : dict) : cres (list ctree) :=
                       match l with
                       | [] => COk []
                       | (alias, ccfg) :: r =>
                           match (match ccfg with
                                  | TNone => COk []
                                  | TDict d => COk d
                                  | _ => CFail EBadChildConfig
                                  end) with
                           | CFail e => CFail e
                           | COk d =>
                               match init_component f (child_path path alias) (normalise alias d) (default_name_of alias) with
                               | CFail e => CFail e
                               | COk k => match kids r with CFail e => CFail e | COk ks => COk (k :: ks) end
                               end
                           end
                       end) merged
                  with
                  | CFail e => CFail e
                  | COk ks => COk (Node path c kwargs dn ks)
                  end
              end
          end
      end
  end.

(* start_component(component_class, config) *)
Definition start_tree (fuel : nat) (ty : tree) (cfg : option dict) : cres ctree :=
  (* {"type": component_class, **config}: a "type" key in the configuration itself wins *)
  let d := match cfg with Some d => d | None => [] end in
  init_component fuel "" (match lookup "type" d with Some _ => d | None => set "type" ty d end) "default".

End WithClasses.

(* ---------- default-name remapping in ComponentContext.add_resource(_factory) ---------- *)
Inductive phase := Preparing | Starting | Other.
Definition remap (ph : phase) (given default_name : string) : string :=
  match ph with
  | Starting => if String.eqb given "default" then default_name else given
  | _ => given
  end.
