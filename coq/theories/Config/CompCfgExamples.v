(* Non-vacuity for C14: a concrete class table and external configuration for which init_component
   succeeds with a tree of depth 3 -- hard-coded kwargs overridden and deep-merged by the external
   configuration, a child that exists only in the configuration, the three spellings of a type, an
   alias `kind/name`. *)
From Coq Require Import String List Bool ZArith.
From Asphalt Require Import Config.Val Config.MergeSpec Config.MergeProofs Config.CompCfg Config.CompCfgProofs.
Import ListNotations.
Open Scope string_scope.
Open Scope list_scope.

Definition hard6 (c : cls) : dict :=
  match c with
  | 0 => [("a", TDict [("type", TStr "comp1"); ("port", TInt 1); ("opts", TDict [("x", TInt 1); ("y", TInt 2)])])]
  | 1 => [("comp2/left", TDict [("flag", TBool true)])]
  | _ => []
  end.
Definition cfg6 : dict :=
  [("type", class_obj 0); ("top", TInt 7);
   ("components", TDict [("a", TDict [("port", TInt 2); ("opts", TDict [("y", TInt 3)]);
                                      ("components", TDict [("comp2/left", TDict [("flag", TBool false)]);
                                                            ("extra", TDict [("type", TStr "verifpkg.mods:Comp3")])])])])].

Example cfg6_tree :
  init_component hard6 6 "" cfg6 "default" =
  COk (Node "" 0 [("top", TInt 7)] "default"
         [Node "a" 1 [("port", TInt 2); ("opts", TDict [("x", TInt 1); ("y", TInt 3)])] "default"
            [Node "a.comp2/left" 2 [("flag", TBool false)] "left" [];      (* type from the alias, name `left` *)
             Node "a.extra" 3 [] "default" []]]).                          (* exists only in the configuration *)
Proof. vm_compute. reflexivity. Qed.

(* the same tree whichever way the root's type is written *)
Example cfg6_spellings :
  init_component hard6 6 "" (set "type" (TStr "comp0") cfg6) "default" = init_component hard6 6 "" cfg6 "default" /\
  init_component hard6 6 "" (set "type" (TStr "verifpkg.mods:Comp0") cfg6) "default" = init_component hard6 6 "" cfg6 "default".
Proof. split; vm_compute; reflexivity. Qed.
