(* Model of `asphalt run` (src/asphalt/core/_cli.py: run): configuration files merged in order,
   --set overrides, service selection, service section merged over the top level, extraction
   of the root component.  Pure functions over configuration trees.  Used by C16.
   Definitions only. *)
From Coq Require Import String Ascii.
From Coq Require Import List Bool Arith.
From Asphalt Require Import Config.Val Config.MergeSpec Gen.Gen_cli.
Import ListNotations.
Open Scope string_scope.
Open Scope list_scope.

(* ---------- --set KEY=VALUE: splitting the key ---------- *)
Definition dot : ascii := "."%char.
Definition bslash : ascii := "\"%char.
Definition is_dot (c : ascii) : bool := Ascii.eqb c dot.
Definition is_bslash (c : ascii) : bool := Ascii.eqb c bslash.

(* re.split(r"(?<!\\)\.", key): split at every dot that is not immediately preceded by a
   backslash.  [cur] is the current part, reversed. *)
Fixpoint rev_string (acc : string) (s : string) : string :=
  match s with EmptyString => acc | String c r => rev_string (String c acc) r end.
Definition srev (s : string) : string := rev_string EmptyString s.

Fixpoint split_go (prev_bs : bool) (cur : string) (s : string) : list string :=
  match s with
  | EmptyString => [srev cur]
  | String c r =>
      if is_dot c && negb prev_bs then srev cur :: split_go false EmptyString r
      else split_go (is_bslash c) (String c cur) r
  end.
Definition raw_split (key : string) : list string := split_go false EmptyString key.

(* part.replace(r"\.", "."), scanning left to right *)
Fixpoint unescape (s : string) : string :=
  match s with
  | EmptyString => EmptyString
  | String c r =>
      match r with
      | String d r' => if is_bslash c && is_dot d then String dot (unescape r') else String c (unescape r)
      | EmptyString => String c EmptyString
      end
  end.

Definition split_key (key : string) : list string := map unescape (raw_split key).

(* how a user writes a literal key: every dot escaped *)
Fixpoint escape (s : string) : string :=
  match s with
  | EmptyString => EmptyString
  | String c r => if is_dot c then String bslash (String dot (escape r)) else String c (escape r)
  end.
Fixpoint join_dots (l : list string) : string :=
  match l with
  | [] => EmptyString
  | [x] => x
  | x :: r => x ++ String dot (join_dots r)
  end.

(* ---------- applying one override ---------- *)
Inductive err :=
| ENoEq            (* no '=' in the override *)
| ENotMapping      (* an intermediate value is not a mapping *)
| EServicesType    (* "services" is not a dict *)
| ENoServices
| EServiceUndefined
| EMultiNoDefault
| ENoComponent
| ENoType
| ECrash.          (* anything else: an uncaught Python exception *)

Inductive res (A : Type) := Ok (a : A) | Fail (e : err).
Arguments Ok {A} a.
Arguments Fail {A} e.

(* walk / create intermediate dicts (setdefault), assign the last key *)
Fixpoint set_path (d : dict) (ks : list string) (v : tree) : option dict :=
  match ks with
  | [] => Some d
  | [k] => Some (set k v d)
  | k :: rest =>
      match lookup k d with
      | None => match set_path [] rest v with Some sub => Some (set k (TDict sub) d) | None => None end
      | Some (TDict sub) =>
          match set_path sub rest v with Some sub' => Some (set k (TDict sub') d) | None => None end
      | Some _ => None
      end
  end.

Fixpoint get_path (d : dict) (ks : list string) : option tree :=
  match ks with
  | [] => Some (TDict d)
  | [k] => lookup k d
  | k :: rest => match lookup k d with Some (TDict sub) => get_path sub rest | _ => None end
  end.

(* an override as the harness hands it over: the text before the first '=' (None when there is
   no '=') and the YAML-parsed value *)
Definition override := (option string * tree)%type.

Definition apply_override (c : res dict) (o : override) : res dict :=
  match c with
  | Fail e => Fail e
  | Ok d =>
      match fst o with
      | None => Fail ENoEq
      | Some key => match set_path d (split_key key) (snd o) with Some d' => Ok d' | None => Fail ENotMapping end
      end
  end.

(* ---------- service selection ---------- *)
(* `service or os.getenv("ASPHALT_SERVICE")`: an empty string counts as not given *)
Definition nonempty (o : option string) : option string :=
  match o with Some EmptyString => None | x => x end.
Definition requested (flag env : option string) : option string :=
  if cli_flag_beats_env then match nonempty flag with Some s => Some s | None => nonempty env end
  else match nonempty env with Some s => Some s | None => nonempty flag end.

Definition select_service (flag env : option string) (services : dict) : res tree :=
  match services with
  | [] => Fail ENoServices
  | _ =>
      match requested flag env with
      | Some name => match lookup name services with Some cfg => Ok cfg | None => Fail EServiceUndefined end
      | None =>
          match services with
          | [(_, cfg)] => Ok cfg
          | _ => match lookup "default" services with Some cfg => Ok cfg | None => Fail EMultiNoDefault end
          end
      end
  end.

(* ---------- the whole command ---------- *)
Record launch := Launch {
  l_type : tree;          (* the root component type *)
  l_root_cfg : dict;      (* its configuration (keyword arguments) *)
  l_options : dict;       (* remaining top-level options passed to run_application *)
  l_backend : tree;
  l_backend_options : tree }.

(* merge_config(config, service_config): a falsy section (None, {}, 0, "") is ignored; a truthy
   one that is not a mapping makes merge_config raise (no .items()) *)
Definition as_odict (t : tree) : res (option dict) :=
  match t with
  | TDict d => Ok (Some d)
  | _ => if truthy_tree t then Fail ECrash else Ok None
  end.

Definition cli (files : list dict) (overrides : list override) (flag env : option string) : res launch :=
  (* which of two files wins, whether the flag beats the environment variable and whether the selected service
     overrides the top level are read from _cli.run on this run (Gen/Gen_cli.v) *)
  let config0 := fold_left (fun acc f => if cli_later_file_wins then merge (Some acc) (Some f)
                                         else merge (Some f) (Some acc)) files [] in
  match fold_left apply_override overrides (Ok config0) with
  | Fail e => Fail e
  | Ok config1 =>
      match (match lookup "services" config1 with
             | None => Ok []
             | Some (TDict s) => Ok s
             | Some _ => Fail EServicesType
             end) with
      | Fail e => Fail e
      | Ok services0 =>
          let config2 := remove "services" config1 in
          let '(config3, services) :=
            match lookup "component" config2 with
            | Some comp =>
                (remove "component" config2,
                 match lookup "default" services0 with
                 | Some _ => services0
                 | None => services0 ++ [("default", TDict [("component", comp)])]
                 end)
            | None => (config2, services0)
            end in
          match select_service flag env services with
          | Fail e => Fail e
          | Ok svc =>
              match as_odict svc with
              | Fail e => Fail e
              | Ok osvc =>
                  let merged := if cli_service_overrides_top_level then merge (Some config3) osvc
                                else merge osvc (Some config3) in
                  match lookup "component" merged with
                  | None => Fail ENoComponent
                  | Some (TDict rc) =>
                      match lookup "type" rc with
                      | None => Fail ENoType
                      | Some ty =>
                          let rest := remove "component" merged in
                          Ok (Launch ty (remove "type" rc)
                                (remove "backend_options" (remove "backend" rest))
                                (match lookup "backend" rest with Some b => b | None => TStr "asyncio" end)
                                (match lookup "backend_options" rest with Some b => b | None => TDict [] end))
                      end
                  | Some _ => Fail ECrash
                  end
              end
          end
      end
  end.
