(* Non-vacuity for C16: two configuration files, two --set overrides (one of them overriding what the
   second file said), a service selected by the flag against the environment variable; `cli` succeeds
   (the premise of C16_final) and, without a selection, fails with the documented error. *)
From Coq Require Import String List Bool ZArith.
From Asphalt Require Import Config.Val Config.MergeSpec Config.MergeProofs Config.CliModel Config.CliProofs.
Import ListNotations.
Open Scope string_scope.
Open Scope list_scope.

Definition f1 : dict :=
  [("logging", TDict [("version", TInt 1)]);
   ("services", TDict [("web", TDict [("component", TDict [("type", TStr "web"); ("port", TInt 80)])]);
                       ("worker", TDict [("component", TDict [("type", TStr "worker")])])])].
Definition f2 : dict :=
  [("services", TDict [("web", TDict [("component", TDict [("port", TInt 8080)])])]); ("max_threads", TInt 4)].
Definition ovs7 : list override :=
  [(Some "services.web.component.debug", TBool true); (Some "services.web.component.port", TInt 9)].

Example cli_launches_the_selected_service :
  cli [f1; f2] ovs7 (Some "web") (Some "worker") =
  Ok {| l_type := TStr "web";
        l_root_cfg := [("port", TInt 9); ("debug", TBool true)];     (* file 1 < file 2 < --set *)
        l_options := [("logging", TDict [("version", TInt 1)]); ("max_threads", TInt 4)];
        l_backend := TStr "asyncio";
        l_backend_options := TDict [] |}.
Proof. vm_compute. reflexivity. Qed.

Example cli_needs_a_selection : cli [f1; f2] ovs7 None None = Fail EMultiNoDefault.
Proof. vm_compute. reflexivity. Qed.

Example cli_env_selects : exists l, cli [f1; f2] [] None (Some "worker") = Ok l /\ l_type l = TStr "worker".
Proof. eexists. split; vm_compute; reflexivity. Qed.
