(* Theorems about the `asphalt run` model (C16). *)
From Coq Require Import String Ascii.
From Coq Require Import List Bool Arith Lia.
From Asphalt Require Import Config.Val Config.MergeSpec Config.MergeProofs Config.CliModel Gen.Gen_cli.
Import ListNotations.
Open Scope string_scope.
Open Scope list_scope.

(* ---------- an override sets exactly its path ---------- *)
Theorem set_path_get : forall ks d v d',
  ks <> [] -> set_path d ks v = Some d' -> get_path d' ks = Some v.
Proof.
  induction ks as [|k rest IH]; intros d v d' Hne H; [congruence|].
  destruct rest as [|k2 rest'].
  - simpl in *. inversion H; subst. apply lookup_set_eq.
  - change (set_path d (k :: k2 :: rest') v) with
      (match lookup k d with
       | None => match set_path [] (k2 :: rest') v with Some sub => Some (set k (TDict sub) d) | None => None end
       | Some (TDict sub) => match set_path sub (k2 :: rest') v with Some sub' => Some (set k (TDict sub') d) | None => None end
       | Some _ => None
       end) in H.
    change (get_path d' (k :: k2 :: rest')) with
      (match lookup k d' with Some (TDict sub) => get_path sub (k2 :: rest') | _ => None end).
    destruct (lookup k d) as [[| | | | |sub]|] eqn:L; try discriminate.
    + destruct (set_path sub (k2 :: rest') v) as [sub'|] eqn:S; [|discriminate]. inversion H; subst.
      rewrite lookup_set_eq. apply (IH sub v sub'); [discriminate|exact S].
    + destruct (set_path [] (k2 :: rest') v) as [sub'|] eqn:S; [|discriminate]. inversion H; subst.
      rewrite lookup_set_eq. apply (IH [] v sub'); [discriminate|exact S].
Qed.

(* two paths diverge: they differ at some position before either ends *)
Fixpoint diverge (ks qs : list string) : Prop :=
  match ks, qs with
  | k :: ks', q :: qs' => k <> q \/ (k = q /\ diverge ks' qs')
  | _, _ => False
  end.

Lemma get_path_cons k rest d : rest <> [] ->
  get_path d (k :: rest) = match lookup k d with Some (TDict sub) => get_path sub rest | _ => None end.
Proof. destruct rest; [congruence|reflexivity]. Qed.

Lemma get_path_set_other k x d qs q : q <> k -> get_path (set k x d) (q :: qs) = get_path d (q :: qs).
Proof.
  intro N. destruct qs as [|q2 qs'].
  - simpl. apply lookup_set_neq. congruence.
  - rewrite !get_path_cons by discriminate. rewrite lookup_set_neq by congruence. reflexivity.
Qed.

(* ... and touches nothing else: every path that diverges from it reads as before *)
Theorem set_path_frame : forall ks d v d' qs,
  set_path d ks v = Some d' -> diverge ks qs -> get_path d' qs = get_path d qs.
Proof.
  induction ks as [|k rest IH]; intros d v d' qs H D; [destruct D|].
  destruct qs as [|q qs']; [destruct D|]. simpl in D.
  destruct rest as [|k2 rest'].
  - simpl in H. inversion H; subst. destruct D as [N|[E D]]; [|destruct qs'; destruct D].
    apply get_path_set_other. congruence.
  - change (set_path d (k :: k2 :: rest') v) with
      (match lookup k d with
       | None => match set_path [] (k2 :: rest') v with Some sub => Some (set k (TDict sub) d) | None => None end
       | Some (TDict sub) => match set_path sub (k2 :: rest') v with Some sub' => Some (set k (TDict sub') d) | None => None end
       | Some _ => None
       end) in H.
    destruct D as [N|[E D]].
    + assert (exists x, d' = set k x d) as [x ->].
      { destruct (lookup k d) as [[| | | | |sub]|]; try discriminate.
        - destruct (set_path sub (k2 :: rest') v); [|discriminate]. inversion H; eauto.
        - destruct (set_path [] (k2 :: rest') v); [|discriminate]. inversion H; eauto. }
      apply get_path_set_other. congruence.
    + subst q. assert (Hq : qs' <> []) by (destruct qs'; [destruct D|discriminate]).
      rewrite !get_path_cons by exact Hq.
      destruct (lookup k d) as [[| | | | |sub]|] eqn:L; try discriminate.
      * destruct (set_path sub (k2 :: rest') v) as [sub'|] eqn:S; [|discriminate]. inversion H; subst.
        rewrite lookup_set_eq. apply (IH sub v sub' qs' S D).
      * destruct (set_path [] (k2 :: rest') v) as [sub'|] eqn:S; [|discriminate]. inversion H; subst.
        rewrite lookup_set_eq. rewrite (IH [] v sub' qs' S D).
        (* reading below a missing key finds nothing *)
        destruct qs' as [|q2 qs'']; [congruence|]. destruct qs''; reflexivity.
Qed.

(* a later override of the same path wins *)
Corollary later_override_wins : forall ks d v1 v2 d1 d2,
  ks <> [] -> set_path d ks v1 = Some d1 -> set_path d1 ks v2 = Some d2 -> get_path d2 ks = Some v2.
Proof. intros. eapply set_path_get; eauto. Qed.

(* an override fails only when an intermediate value exists and is not a mapping *)
Theorem set_path_fails_only_on_non_mapping : forall ks d v,
  set_path d ks v = None ->
  exists pre k post x, ks = pre ++ k :: post /\ post <> [] /\
                       get_path d (pre ++ [k]) = Some x /\ (forall s, x <> TDict s).
Proof.
  induction ks as [|k rest IH]; intros d v H; [discriminate|].
  destruct rest as [|k2 rest']; [discriminate|].
  change (set_path d (k :: k2 :: rest') v) with
      (match lookup k d with
       | None => match set_path [] (k2 :: rest') v with Some sub => Some (set k (TDict sub) d) | None => None end
       | Some (TDict sub) => match set_path sub (k2 :: rest') v with Some sub' => Some (set k (TDict sub') d) | None => None end
       | Some _ => None
       end) in H.
  destruct (lookup k d) as [x|] eqn:L.
  - destruct (match x with TDict _ => true | _ => false end) eqn:Isd.
    + destruct x as [| | | | |sub]; try discriminate.
      destruct (set_path sub (k2 :: rest') v) eqn:S; [discriminate|].
      destruct (IH sub v S) as (pre & k' & post & x & E & P & G & N).
      exists (k :: pre), k', post, x. repeat split; auto.
      * simpl. now rewrite E.
      * change ((k :: pre) ++ [k']) with (k :: (pre ++ [k'])). rewrite get_path_cons by (destruct pre; discriminate).
        now rewrite L.
    + exists [], k, (k2 :: rest'), x. simpl. rewrite L. repeat split; auto; try discriminate.
      intros s E. subst x. discriminate.
  - destruct (set_path [] (k2 :: rest') v) eqn:S; [discriminate|].
    destruct (IH [] v S) as (pre & k' & post & x & E & P & G & N).
    (* nothing can be read from an empty dict *)
    exfalso. destruct pre as [|p pre']; simpl in G; [discriminate|].
    destruct (pre' ++ [k']) eqn:Z; [destruct pre'; discriminate|]. simpl in G. discriminate.
Qed.

(* ---------- splitting keys ---------- *)
Fixpoint no_special (s : string) : bool :=
  match s with EmptyString => true | String c r => negb (is_dot c) && negb (is_bslash c) && no_special r end.

Lemma sapp_assoc a b c : ((a ++ b) ++ c)%string = (a ++ (b ++ c))%string.
Proof. induction a; simpl; congruence. Qed.
Lemma rev_string_app acc s : rev_string acc s = (rev_string EmptyString s ++ acc)%string.
Proof.
  revert acc. induction s as [|c r IH]; intro acc; simpl; auto.
  rewrite IH, (IH (String c EmptyString)). rewrite sapp_assoc. reflexivity.
Qed.
Lemma srev_cons c s : srev (String c s) = (srev s ++ String c EmptyString)%string.
Proof. unfold srev. simpl. apply rev_string_app. Qed.
Lemma append_nil_r s : (s ++ "")%string = s.
Proof. induction s; simpl; congruence. Qed.
Lemma srev_app a b : srev (a ++ b)%string = (srev b ++ srev a)%string.
Proof.
  induction a as [|c r IH]; simpl.
  - now rewrite append_nil_r.
  - rewrite !srev_cons, IH. now rewrite sapp_assoc.
Qed.
Lemma srev_involutive s : srev (srev s) = s.
Proof. induction s as [|c r IH]; auto. rewrite srev_cons, srev_app, IH. reflexivity. Qed.

(* an unescaped dot that follows a non-backslash splits; other characters accumulate *)
Lemma split_go_plain p : no_special p = true -> forall cur rest,
  split_go false cur (p ++ rest)%string =
  match rest with
  | EmptyString => [srev (rev_string cur p)]
  | _ => split_go false (rev_string cur p) rest
  end.
Proof.
  induction p as [|c r IH]; intros Hn cur rest; simpl.
  - destruct rest; reflexivity.
  - simpl in Hn. apply andb_true_iff in Hn. destruct Hn as [Hc Hr]. apply andb_true_iff in Hc. destruct Hc as [Hd Hb].
    apply negb_true_iff in Hd, Hb. rewrite Hd. simpl. rewrite Hb. apply IH. exact Hr.
Qed.

Lemma unescape_plain p : no_special p = true -> unescape p = p.
Proof.
  induction p as [|c r IH]; intro Hn; auto. simpl in Hn.
  apply andb_true_iff in Hn. destruct Hn as [Hc Hr]. apply andb_true_iff in Hc. destruct Hc as [Hd Hb].
  apply negb_true_iff in Hb. simpl. destruct r as [|d r']; auto. rewrite Hb. simpl. f_equal. now apply IH.
Qed.

(* keys written without dots or backslashes in their parts split back into those parts *)
Theorem split_join_plain : forall parts,
  parts <> [] -> forallb no_special parts = true -> split_key (join_dots parts) = parts.
Proof.
  intros parts Hne Hall. unfold split_key, raw_split.
  assert (G : forall cur, map unescape (split_go false cur (join_dots parts)) =
                          match parts with
                          | [] => [unescape (srev cur)]
                          | p :: r => unescape (srev (rev_string cur p)) :: r
                          end).
  { clear Hne. induction parts as [|p r IH]; intro cur; [reflexivity|].
    simpl in Hall. apply andb_true_iff in Hall. destruct Hall as [Hp Hr].
    destruct r as [|p2 r'].
    - simpl. rewrite <- (append_nil_r p) at 1. rewrite (split_go_plain p Hp cur ""). reflexivity.
    - change (join_dots (p :: p2 :: r')) with (p ++ String dot (join_dots (p2 :: r')))%string.
      rewrite (split_go_plain p Hp cur).
      remember (join_dots (p2 :: r')) as J eqn:EJ.
      change (split_go false (rev_string cur p) (String dot J))
        with (srev (rev_string cur p) :: split_go false EmptyString J).
      cbn [map]. f_equal. rewrite (IH Hr EmptyString).
      f_equal. simpl in Hr. apply andb_true_iff in Hr. destruct Hr as [Hp2 _].
      unfold srev at 1. rewrite <- (srev_involutive p2) at 2. unfold srev at 2.
      rewrite unescape_plain; [reflexivity|].
      (* reversing twice gives the part back *)
      change (rev_string "" (rev_string "" p2)) with (srev (srev p2)). now rewrite srev_involutive. }
  rewrite G. destruct parts as [|p r]; [congruence|].
  simpl in Hall. apply andb_true_iff in Hall. destruct Hall as [Hp _].
  f_equal. change (rev_string "" p) with (srev p). rewrite srev_involutive. now apply unescape_plain.
Qed.

(* ---------- service selection: the documented ladder ---------- *)
Theorem select_spec : forall flag env services,
  select_service flag env services =
  match services, requested flag env with
  | [], _ => Fail ENoServices
  | _, Some name => match lookup name services with Some c => Ok c | None => Fail EServiceUndefined end
  | [(_, c)], None => Ok c
  | _, None => match lookup "default" services with Some c => Ok c | None => Fail EMultiNoDefault end
  end.
Proof.
  intros flag env services. unfold select_service.
  destruct services as [|[n c] [|s2 r]]; auto; destruct (requested flag env); reflexivity.
Qed.

(* --service beats the environment variable *)
Theorem flag_beats_env : forall f env, f <> EmptyString -> requested (Some f) env = Some f.
Proof. intros f env H. unfold requested. destruct f; [congruence|reflexivity]. Qed.
Theorem env_used_without_flag : forall env, requested None env = nonempty env.
Proof. reflexivity. Qed.

(* ---------- the whole command ---------- *)
(* files are merged in order (deep, later wins: C17's laws apply at every step) *)
Definition files_config (files : list dict) : dict := fold_left (fun acc f => merge (Some acc) (Some f)) files [].

Lemma files_config_snoc files f : files_config (files ++ [f]) = merge (Some (files_config files)) (Some f).
Proof. unfold files_config. now rewrite fold_left_app. Qed.

(* on success, what is handed to run_application is read off the selected service section merged
   OVER the remaining top-level keys; on any failure nothing is launched *)
Theorem cli_launch_shape : forall files ovs flag env l,
  cli files ovs flag env = Ok l ->
  exists config1 top services svc osvc rc,
    fold_left apply_override ovs (Ok (files_config files)) = Ok config1 /\
    select_service flag env services = Ok svc /\ as_odict svc = Ok osvc /\
    lookup "component" (merge (Some top) osvc) = Some (TDict rc) /\
    lookup "type" rc = Some (l_type l) /\ l_root_cfg l = remove "type" rc /\
    l_options l = remove "backend_options" (remove "backend" (remove "component" (merge (Some top) osvc))).
Proof.
  intros files ovs flag env l H. unfold cli, cli_later_file_wins, cli_service_overrides_top_level in H.
  fold (files_config files) in H.
  destruct (fold_left apply_override ovs (Ok (files_config files))) as [config1|e] eqn:O; [|discriminate].
  destruct (match lookup "services" config1 with None => Ok [] | Some (TDict s) => Ok s | Some _ => Fail EServicesType end)
    as [services0|e] eqn:S; [|discriminate].
  destruct (match lookup "component" (remove "services" config1) with
            | Some comp => _ | None => _ end) as [config3 services] eqn:C.
  destruct (select_service flag env services) as [svc|e] eqn:Sel; [|discriminate].
  destruct (as_odict svc) as [osvc|e] eqn:A; [|discriminate].
  destruct (lookup "component" (merge (Some config3) osvc)) as [[| | | | |rc]|] eqn:L; try discriminate.
  destruct (lookup "type" rc) as [ty|] eqn:T; [|discriminate].
  inversion H; subst; simpl.
  exists config1, config3, services, svc, osvc, rc. repeat split; auto.
Qed.

(* ---------- the shape of _cli.run the model was computed from (Gen/Gen_cli.v) ---------- *)
Theorem cli_source_shape :
  cli_steps_in_documented_order = true /\ cli_later_file_wins = true /\
  cli_override_split_at_first_equals = true /\ cli_key_split_at_unescaped_dots = true /\
  cli_missing_sections_created = true /\ cli_flag_beats_env = true /\
  cli_selection_ladder_as_documented = true /\ cli_service_overrides_top_level = true /\
  cli_default_backend_is_asyncio = true.
Proof. repeat split. Qed.
