(* Theorems about component-tree construction (C14). *)
From Coq Require Import String Ascii.
From Coq Require Import List Bool Arith Lia.
From Asphalt Require Import Config.Val Config.MergeSpec Config.MergeProofs Config.CompCfg Gen.Gen_initcomp.
Import ListNotations.
Open Scope string_scope.
Open Scope list_scope.

Section WithClasses.
Variable hard : cls -> dict.

(* the children of one node, as a function (the inner loop of _init_component) *)
Fixpoint kids_of (f : nat) (path : string) (l : dict) : cres (list ctree) :=
  match l with
  | [] => COk []
  | (alias, ccfg) :: r =>
      match (match ccfg with TNone => COk [] | TDict d => COk d | _ => CFail EBadChildConfig end) with
      | CFail e => CFail e
      | COk d =>
          match init_component hard f (child_path path alias) (normalise alias d) (default_name_of alias) with
          | CFail e => CFail e
          | COk k => match kids_of f path r with CFail e => CFail e | COk ks => COk (k :: ks) end
          end
      end
  end.

(* one step of _init_component, spelled out *)
Lemma init_unfold f path cfg dn :
  init_component hard (S f) path cfg dn =
  match ext_children cfg with
  | CFail e => CFail e
  | COk ext =>
      match lookup "type" cfg with
      | None => CFail ECrashed
      | Some ty =>
          match resolve ty with
          | None => CFail EBadType
          | Some c =>
              match kids_of f path (merge (Some (hard c)) ext) with
              | CFail e => CFail e
              | COk ks => COk (Node path c (remove "type" (remove "components" cfg)) dn ks)
              end
          end
      end
  end.
Proof.
  simpl. destruct (ext_children cfg) as [ext|e]; auto.
  destruct (lookup "type" cfg) as [ty|]; auto. destruct (resolve ty) as [c|]; auto.
  set (l := merge (Some (hard c)) ext). clearbody l.
  assert (E : (fix kids (l : dict) : cres (list ctree) :=
                 match l with
                 | [] => COk []
                 | (alias, ccfg) :: r =>
                     match (match ccfg with TNone => COk [] | TDict d => COk d | _ => CFail EBadChildConfig end) with
                     | CFail e => CFail e
                     | COk d =>
                         match init_component hard f (child_path path alias) (normalise alias d) (default_name_of alias) with
                         | CFail e => CFail e
                         | COk k => match kids r with CFail e => CFail e | COk ks => COk (k :: ks) end
                         end
                     end
                 end) l = kids_of f path l).
  { induction l as [|[alias ccfg] r IH]; simpl; auto. rewrite IH. reflexivity. }
  rewrite E. reflexivity.
Qed.

(* every component is constructed with exactly its configuration minus `type` and `components`,
   is of the class its type resolves to, and its children are those of the hard-coded
   configuration deep-merged with -- and overridden by -- the external `components` section *)
Theorem node_spec : forall f path cfg dn p c kw dn' ks,
  init_component hard (S f) path cfg dn = COk (Node p c kw dn' ks) ->
  p = path /\ dn' = dn /\ kw = remove "type" (remove "components" cfg) /\
  exists ty ext, lookup "type" cfg = Some ty /\ resolve ty = Some c /\ ext_children cfg = COk ext /\
                 kids_of f path (merge (Some (hard c)) ext) = COk ks.
Proof.
  intros f path cfg dn p c kw dn' ks H. rewrite init_unfold in H.
  destruct (ext_children cfg) as [ext|e] eqn:E; [|discriminate].
  destruct (lookup "type" cfg) as [ty|] eqn:T; [|discriminate].
  destruct (resolve ty) as [c0|] eqn:R; [|discriminate].
  destruct (kids_of f path (merge (Some (hard c0)) ext)) as [ks0|e] eqn:K; [|discriminate].
  inversion H; subst. repeat split; auto. exists ty, ext. auto.
Qed.

(* one child per entry of the merged configuration, in order, each built from ITS entry: at every
   depth (kids_of calls init_component again) *)
Theorem kids_spec : forall f path l ks,
  kids_of f path l = COk ks ->
  length ks = length l /\
  forall i alias ccfg, nth_error l i = Some (alias, ccfg) ->
    exists d k, (ccfg = TNone /\ d = [] \/ ccfg = TDict d) /\ nth_error ks i = Some k /\
      init_component hard f (child_path path alias) (normalise alias d) (default_name_of alias) = COk k.
Proof.
  intros f path l. induction l as [|[alias ccfg] r IH]; intros ks H; simpl in H.
  - inversion H. split; auto. intros [|i]; discriminate.
  - destruct (match ccfg with TNone => COk [] | TDict d => COk d | _ => CFail EBadChildConfig end) as [d|e] eqn:C; [|discriminate].
    destruct (init_component hard f (child_path path alias) (normalise alias d) (default_name_of alias)) as [k|e] eqn:I; [|discriminate].
    destruct (kids_of f path r) as [ks'|e] eqn:K; [|discriminate]. inversion H; subst.
    destruct (IH ks' eq_refl) as [L P]. split; [simpl; now rewrite L|].
    intros [|i] a c Hn; simpl in Hn.
    + inversion Hn; subst. exists d, k. split; [|split; auto].
      destruct c; try discriminate; inversion C; auto.
    + apply (P i a c Hn).
Qed.

(* a component that appears only in the external configuration is created too; so is every
   hard-coded one *)
Theorem children_are_the_union : forall c ext alias,
  In alias (keys (merge (Some (hard c)) ext)) <-> In alias (keys (hard c)) \/ In alias (keys (odict ext)).
Proof. intros. apply merge_keys. Qed.

(* precedence, per child and per key: the external configuration overrides the hard-coded keyword
   arguments; two dictionaries are merged recursively *)
Theorem child_config_precedence : forall c ext alias, NoDup (keys (odict ext)) ->
  lookup alias (merge (Some (hard c)) ext) =
  match lookup alias (hard c), lookup alias (odict ext) with
  | Some (TDict a), Some (TDict b) => Some (TDict (merge_dict a b))
  | _, Some x => Some x
  | x, None => x
  end.
Proof. intros. now apply (merge_values (Some (hard c)) ext alias). Qed.

End WithClasses.

(* ---------- the three ways of naming a type ---------- *)
Theorem spellings_agree : forall k, k < n_classes ->
  resolve (TStr (ep_name k)) = Some k /\ resolve (TStr (ref_name k)) = Some k /\ resolve (class_obj k) = Some k.
Proof.
  intros k H. unfold n_classes in H.
  do 6 (destruct k as [|k]; [vm_compute; auto|]). lia.
Qed.

Lemma remove_set_same k v d : remove k (set k v d) = remove k d.
Proof.
  induction d as [|[k' v'] r IH]; simpl.
  - now rewrite String.eqb_refl.
  - destruct (String.eqb k k') eqn:E; simpl; rewrite ?String.eqb_refl, ?E; auto. now rewrite IH.
Qed.
Lemma remove_set_other k k' v d : k <> k' -> remove k (set k' v d) = set k' v (remove k d).
Proof.
  intro N. induction d as [|[k2 v2] r IH]; simpl.
  - destruct (String.eqb k k') eqn:E; auto. apply String.eqb_eq in E. congruence.
  - destruct (String.eqb k' k2) eqn:E1; simpl.
    + apply String.eqb_eq in E1. subst k2. destruct (String.eqb k k') eqn:E2.
      * apply String.eqb_eq in E2. congruence.
      * simpl. now rewrite String.eqb_refl.
    + destruct (String.eqb k k2) eqn:E2; simpl; rewrite ?E1; auto. now rewrite IH.
Qed.

(* the tree depends on a type only through the class it resolves to: equal configurations whose
   types are spelled differently give equal trees *)
Theorem spelling_irrelevant : forall hard f path cfg dn t1 t2,
  resolve t1 = resolve t2 ->
  init_component hard f path (set "type" t1 cfg) dn = init_component hard f path (set "type" t2 cfg) dn.
Proof.
  intros hard f path cfg dn t1 t2 R. destruct f as [|f]; [reflexivity|].
  rewrite !init_unfold.
  assert (L : forall t, lookup "components" (set "type" t cfg) = lookup "components" cfg)
    by (intro t; apply lookup_set_neq; discriminate).
  unfold ext_children. rewrite !L. rewrite !lookup_set_eq, R.
  rewrite !(remove_set_other "components" "type") by discriminate. rewrite !remove_set_same. reflexivity.
Qed.

(* a child whose type is omitted gets its alias as type; `kind/name` selects `kind` *)
Theorem omitted_type_is_alias : forall alias d, lookup "type" d = None ->
  lookup "type" (normalise alias d) = Some (TStr (if has_slash alias then before_slash alias else alias)).
Proof.
  intros alias d H. unfold normalise. rewrite H. rewrite lookup_set_eq.
  destruct (has_slash alias); now rewrite ?lookup_set_eq.
Qed.

(* ---------- default-name remapping ---------- *)
Theorem remap_spec : forall ph given dn,
  remap ph given dn = if (match ph with Starting => true | _ => false end) && String.eqb given "default" then dn else given.
Proof. intros [] given dn; simpl; auto. Qed.

Lemma after_slash_app kind name : after_slash kind = None -> after_slash (kind ++ String slash name) = Some name.
Proof.
  induction kind as [|c r IH]; simpl; intro H.
  - reflexivity.
  - destruct (Ascii.eqb c slash); [discriminate|auto].
Qed.
Lemma before_slash_app kind name : after_slash kind = None -> before_slash (kind ++ String slash name) = kind.
Proof.
  induction kind as [|c r IH]; simpl; intro H.
  - reflexivity.
  - destruct (Ascii.eqb c slash); [discriminate|]. now rewrite IH.
Qed.

(* an alias `kind/name` selects type `kind` and default resource name `name` *)
Theorem default_name_of_alias : forall kind name,
  has_slash kind = false -> default_name_of (kind ++ String slash name) = name /\
                            before_slash (kind ++ String slash name) = kind.
Proof.
  intros kind name H. unfold has_slash in H. destruct (after_slash kind) eqn:E; [discriminate|].
  unfold default_name_of. rewrite after_slash_app by auto. split; auto. now apply before_slash_app.
Qed.

(* ---------- the shape of _init_component the model was computed from (Gen/Gen_initcomp.v) ---------- *)
Theorem init_component_source_shape :
  ic_kwargs_exclude_type_and_components = true /\ ic_external_overrides_hardcoded = true /\
  ic_none_config_is_empty = true /\ ic_child_config_copied = true /\ ic_alias_is_default_type = true /\
  ic_type_keeps_what_precedes_slash = true /\ ic_default_name_follows_first_slash = true /\
  ic_children_in_merged_order = true.
Proof. repeat split. Qed.
