(* Theorems about context teardown (C01). *)
From Coq Require Import List Bool Arith Lia Permutation.
From Asphalt Require Import Td.TdModel Gen.Gen_coalesce Gen.Gen_lifecycle.
Import ListNotations.

(* ---------- the specification: strict LIFO including callbacks added during teardown ---------- *)
(* callbacks in the order in which they must be invoked: the last registered first; the
   callbacks a callback registers while it runs come right after it (they are on top of the
   stack then), again last registered first *)
Fixpoint lifo1 (c : cb) : list cb :=
  match c with
  | CB _ _ _ _ a => c :: (fix go (l : list cb) := match l with [] => [] | x :: r => go r ++ lifo1 x end) a
  end.
Fixpoint lifo (st : list cb) : list cb := match st with [] => [] | x :: r => lifo r ++ lifo1 x end.

Lemma lifo1_eq c : lifo1 c = c :: lifo (cb_adds c).
Proof. destruct c as [i p s r a]; simpl. f_equal. Qed.
Lemma size_eq c : size c = S (sizes (cb_adds c)).
Proof. destruct c as [i p s r a]; simpl. f_equal. Qed.
Lemma lifo_app a b : lifo (a ++ b) = lifo b ++ lifo a.
Proof. induction a; simpl. now rewrite app_nil_r. rewrite IHa, app_assoc. reflexivity. Qed.
Lemma sizes_app a b : sizes (a ++ b) = sizes a + sizes b.
Proof. induction a; simpl; lia. Qed.
Lemma rev_cons_inv {A} (l : list A) c r : rev l = c :: r -> l = rev r ++ [c].
Proof. intro H. rewrite <- (rev_involutive l), H. reflexivity. Qed.

(* the trace the property demands for a given invocation order: each callback begins, with the
   argument it is entitled to, and ends before the next one begins *)
Definition block_of (cancelled : bool) (orig : option exc) (c : cb) : list tev :=
  [Begin (cb_id c) (if cb_pass c then Some orig else None); End_ (cb_id c) (ends cancelled c)].
Definition spec_trace cancelled orig (order : list cb) : list tev := flat_map (block_of cancelled orig) order.
Definition spec_collected cancelled (order : list cb) : list cexc :=
  flat_map (fun c => collected (ends cancelled c)) order.

(* Main theorem: with enough fuel (the total number of callbacks, including those registered
   during teardown) the loop terminates, and its trace and the exceptions it collects are exactly
   those of the LIFO specification.  Every callback is invoked exactly once, in strict reverse
   order of registration, one at a time; a callback that raises (anything) changes nothing for
   the others; every exception raised is collected, in order. *)
Theorem teardown_spec : forall fuel cancelled stack orig,
  sizes stack <= fuel ->
  teardown fuel cancelled stack orig =
  Some (spec_trace cancelled orig (lifo stack), spec_collected cancelled (lifo stack)).
Proof.
  induction fuel as [|f IH]; intros cancelled stack orig Hsz.
  - destruct stack as [|c r]; [reflexivity|]. simpl in Hsz. pose proof (size_eq c). lia.
  - cbn [teardown]. unfold pop, register, passed, td_pops_last, td_registers_at_end, td_arg_is_exit_exception.
    destruct (rev stack) as [|c rr] eqn:E.
    + assert (stack = []) as ->.
      { destruct stack; [auto|]. apply (f_equal (@length _)) in E. rewrite rev_length in E. simpl in E. lia. }
      reflexivity.
    + apply rev_cons_inv in E. subst stack.
      rewrite sizes_app in Hsz. simpl in Hsz. rewrite size_eq in Hsz.
      rewrite IH by (rewrite sizes_app; lia).
      rewrite !lifo_app. simpl lifo. rewrite lifo1_eq. unfold spec_trace, spec_collected. simpl.
      rewrite !flat_map_app. reflexivity.
Qed.

Corollary leave_total : forall is_root stack block,
  leave is_root stack block =
  Some (RR (spec_trace (match block with Cancel => true | _ => false end) (orig_of block) (lifo stack))
           (aexit is_root block (spec_collected (match block with Cancel => true | _ => false end) (lifo stack)))
           true).
Proof. intros. unfold leave. now rewrite teardown_spec. Qed.

(* ---------- exactly once ---------- *)
Fixpoint all_cbs (c : cb) : list cb :=
  match c with
  | CB _ _ _ _ a => c :: (fix go (l : list cb) := match l with [] => [] | x :: r => all_cbs x ++ go r end) a
  end.
Fixpoint all_of (st : list cb) : list cb := match st with [] => [] | x :: r => all_cbs x ++ all_of r end.
Lemma all_cbs_eq c : all_cbs c = c :: all_of (cb_adds c).
Proof. destruct c as [i p s r a]; simpl. f_equal. Qed.

(* the invocation order is a permutation of all callbacks, registered before or during the
   teardown: nobody is skipped, nobody runs twice *)
Lemma lifo_perm_size : forall n st, sizes st <= n -> Permutation (lifo st) (all_of st).
Proof.
  induction n as [|n IH]; intros st H.
  - destruct st as [|c r]; [constructor|]. simpl in H. pose proof (size_eq c). lia.
  - destruct st as [|c r]; [constructor|]. simpl in *. rewrite lifo1_eq, all_cbs_eq. rewrite size_eq in H.
    apply Permutation_trans with ((c :: lifo (cb_adds c)) ++ lifo r); [apply Permutation_app_comm|].
    simpl. constructor. apply Permutation_app; apply IH; lia.
Qed.
Theorem lifo_exactly_once : forall st, Permutation (lifo st) (all_of st).
Proof. intro st. apply (lifo_perm_size (sizes st)). lia. Qed.

Definition begun (tr : list tev) : list nat :=
  flat_map (fun e => match e with Begin i _ => [i] | _ => [] end) tr.

Lemma begun_spec cancelled orig order : begun (spec_trace cancelled orig order) = map cb_id order.
Proof. induction order as [|c r IH]; simpl; auto. now rewrite IH. Qed.

Theorem invoked_exactly_once : forall fuel cancelled stack orig tr ex,
  sizes stack <= fuel -> teardown fuel cancelled stack orig = Some (tr, ex) ->
  Permutation (begun tr) (map cb_id (all_of stack)).
Proof.
  intros fuel cancelled stack orig tr ex H T. rewrite teardown_spec in T by auto. inversion T; subst.
  rewrite begun_spec. apply Permutation_map. apply lifo_exactly_once.
Qed.

(* ---------- order: what was registered earlier runs later ---------- *)
(* for two callbacks pending on the stack at the same moment, the one registered later (b, to
   the right) is invoked before the one registered earlier (a): every callback of b's family
   precedes every callback of a's family *)
Theorem later_registered_runs_first : forall s1 a s2 b s3,
  exists p q r, lifo (s1 ++ a :: s2 ++ b :: s3) = p ++ lifo1 b ++ q ++ lifo1 a ++ r.
Proof.
  intros. rewrite lifo_app. simpl. rewrite lifo_app. simpl.
  exists (lifo s3), (lifo s2), (lifo s1). rewrite <- !app_assoc. reflexivity.
Qed.

(* ---------- one at a time ---------- *)
Fixpoint sequential (tr : list tev) : bool :=
  match tr with
  | [] => true
  | Begin i _ :: End_ j _ :: r => Nat.eqb i j && sequential r
  | _ => false
  end.
Theorem one_at_a_time : forall cancelled orig order, sequential (spec_trace cancelled orig order) = true.
Proof. induction order as [|c r IH]; simpl; auto. now rewrite Nat.eqb_refl. Qed.

(* ---------- the argument ---------- *)
Theorem argument_is_the_blocks_exception : forall cancelled orig order i arg,
  In (Begin i arg) (spec_trace cancelled orig order) -> arg = None \/ arg = Some orig.
Proof.
  induction order as [|c r IH]; simpl; [tauto|].
  intros i arg [H|[H|H]]; [|discriminate|eauto].
  inversion H. destruct (cb_pass c); auto.
Qed.

(* ---------- every exception raised by a callback is re-raised, none is lost ---------- *)
Theorem all_raised_collected : forall order,
  spec_collected false order = flat_map (fun c => match cb_raises c with Some e => [CE e] | None => [] end) order.
Proof.
  induction order as [|c r IH]; simpl; auto. rewrite IH. unfold ends. simpl.
  destruct (cb_raises c); reflexivity.
Qed.

Lemma plain_CE l : plain (map CE l) = Some l.
Proof. induction l; simpl; auto. now rewrite IHl. Qed.

(* ---------- the outcome ---------- *)
(* no callback raised: the caller observes the block's own outcome -- a normal exit, or the
   exception itself (not wrapped) when it is an ordinary non-group Exception; in a root and in a
   child context alike.  (This uses the parameters of coalesce_exceptions extracted from the
   source on this run.) *)
Theorem outcome_is_the_blocks : forall is_root,
  aexit is_root Return [] = ONormal /\
  forall i, aexit is_root (Raise (Leaf i true)) [] = ORaise (Leaf i true) None.
Proof. intro is_root. split; [destruct is_root; reflexivity|]. intro i. destruct is_root; reflexivity. Qed.

(* a child context lets every exception of the block out as itself *)
Theorem child_outcome_unwrapped : forall e, aexit false (Raise e) [] = ORaise e None.
Proof. reflexivity. Qed.

(* callbacks raised: one group holding exactly their exceptions, in order, with the exception
   that ended the block as its cause (a root context's task group adds one enclosing level) *)
Lemma is_exception_single y : is_exception (Grp [y]) = is_exception y.
Proof. simpl. now rewrite andb_true_r. Qed.

(* a group whose only member is itself a group passes through coalesce_exceptions unchanged *)
Lemma coalesce_nested td : coalesce (Grp [Grp td]) = Grp [Grp td].
Proof.
  unfold coalesce. rewrite is_exception_single.
  unfold coalesce_catches_base_groups, coalesce_unwrap_len, coalesce_child_must_not_be_base_group.
  cbn [is_group]. destruct (is_exception (Grp td)); reflexivity.
Qed.

Theorem outcome_groups_callback_exceptions : forall block td,
  block <> Cancel -> td <> [] ->
  aexit false block (map CE td) = ORaise (Grp td) (orig_of block) /\
  aexit true block (map CE td) = ORaise (Grp [Grp td]) (orig_of block).
Proof.
  intros block td Hb Ht. unfold aexit. rewrite plain_CE.
  destruct td as [|x r]; [congruence|].
  destruct block; try congruence; split; try reflexivity;
    cbn [negb exit_entries app rev unwind fold_left run_entry]; unfold td_cause_is_exit_exception;
    now rewrite coalesce_nested.
Qed.
