(* Model of context teardown (src/asphalt/core/_context.py: Context._run_teardown_callbacks,
   __aenter__/__aexit__) used by C01.  A teardown callback is a finite tree: the callbacks it
   registers while it runs are its children.  Definitions only. *)
From Coq Require Import List Bool Arith.
From Asphalt Require Import Gen.Gen_coalesce.
Import ListNotations.

(* exceptions: a leaf is identified by a number and is either an Exception or only a
   BaseException; groups nest *)
Inductive exc := Leaf (id : nat) (is_exc : bool) | Grp (l : list exc).

(* isinstance(x, Exception): a group is an ExceptionGroup iff everything in it is an Exception *)
Fixpoint is_exception (e : exc) : bool :=
  match e with
  | Leaf _ b => b
  | Grp l => (fix all (l : list exc) : bool := match l with [] => true | x :: r => is_exception x && all r end) l
  end.
Definition is_group (e : exc) : bool := match e with Grp _ => true | Leaf _ _ => false end.

Inductive cb :=
  CB (id : nat)
     (pass_exc : bool)          (* registered with pass_exception=True *)
     (suspends : bool)          (* asynchronous, with at least one checkpoint *)
     (raises : option exc)
     (adds : list cb).          (* callbacks registered while this one runs *)

Definition cb_id (c : cb) := match c with CB i _ _ _ _ => i end.
Definition cb_pass (c : cb) := match c with CB _ p _ _ _ => p end.
Definition cb_susp (c : cb) := match c with CB _ _ s _ _ => s end.
Definition cb_raises (c : cb) := match c with CB _ _ _ r _ => r end.
Definition cb_adds (c : cb) := match c with CB _ _ _ _ a => a end.

Fixpoint size (c : cb) : nat :=
  match c with
  | CB _ _ _ _ a => S ((fix sz (l : list cb) := match l with [] => 0 | x :: r => size x + sz r end) a)
  end.
Fixpoint sizes (l : list cb) : nat := match l with [] => 0 | x :: r => size x + sizes r end.

(* what happened to a callback *)
Inductive how := HOk | HRaised (e : exc) | HCancelled.
(* the exception list of the loop: an exception raised by a callback, or the backend's
   cancellation exception (its class is backend specific) *)
Inductive cexc := CE (e : exc) | CCancel.

Inductive tev :=
| Begin (id : nat) (arg : option (option exc))   (* None: called without argument *)
| End_ (id : nat) (h : how).

(* how a callback ends: inside a cancelled scope an asynchronous callback is cancelled at its
   first checkpoint (level cancellation); otherwise it raises what it raises *)
Definition ends (cancelled : bool) (c : cb) : how :=
  if cancelled && cb_susp c then HCancelled
  else match cb_raises c with Some e => HRaised e | None => HOk end.

Definition collected (h : how) : list cexc :=
  match h with HOk => [] | HRaised e => [CE e] | HCancelled => [CCancel] end.

(* the pop-until-empty loop; the top of the stack is the LAST element (list.pop()) *)
Fixpoint teardown (fuel : nat) (cancelled : bool) (stack : list cb) (orig : option exc)
  : option (list tev * list cexc) :=
  match fuel with
  | O => match stack with [] => Some ([], []) | _ => None end
  | S f =>
    match rev stack with
    | [] => Some ([], [])
    | c :: rest_rev =>
        match teardown f cancelled (rev rest_rev ++ cb_adds c) orig with
        | None => None
        | Some (tr, ex) =>
            Some (Begin (cb_id c) (if cb_pass c then Some orig else None)
                  :: End_ (cb_id c) (ends cancelled c) :: tr,
                  collected (ends cancelled c) ++ ex)
        end
    end
  end.

(* ---------- what the caller of `async with` observes ---------- *)
Inductive ending := Return | Raise (e : exc) | Cancel.
Inductive outcome :=
| ONormal
| ORaise (e : exc) (cause : option exc)
| OCancelled.     (* what a cancelled scope finally lets out is backend specific: not modelled *)

(* coalesce_exceptions, parameterised by what the translator extracted from its source:
   an ExceptionGroup with exactly [coalesce_unwrap_len] = 1 member that is not itself an
   ExceptionGroup is replaced by that member *)
Definition coalesce (e : exc) : exc :=
  match e with
  | Grp [x] =>
      if (is_exception e || coalesce_catches_base_groups)
         && Nat.eqb coalesce_unwrap_len 1
         && negb (is_group x && (is_exception x || coalesce_child_must_not_be_base_group))
      then x else e
  | _ => e
  end.

(* the backend's cancellation exception (CancelledError / trio.Cancelled), a BaseException *)
Definition cancel_exc : exc := Leaf 999 false.
Definition orig_of (b : ending) : option exc :=
  match b with Raise e => Some e | Cancel => Some cancel_exc | Return => None end.

Fixpoint plain (l : list cexc) : option (list exc) :=
  match l with
  | [] => Some []
  | CE e :: r => match plain r with Some r' => Some (e :: r') | None => None end
  | CCancel :: _ => None
  end.

(* __aexit__: the teardown callbacks are the innermost exit-stack entry; a root context
   additionally leaves its task group (which wraps whatever passes through it in a group) and
   then coalesce_exceptions *)
Definition aexit (is_root : bool) (block : ending) (ex : list cexc) : outcome :=
  match block with
  | Cancel => OCancelled
  | _ =>
      match plain ex with
      | None => OCancelled
      | Some [] =>
          match block with
          | Raise e => ORaise (if is_root then coalesce (Grp [e]) else e) None
          | _ => ONormal
          end
      | Some td =>
          (* raise BaseExceptionGroup(..., exceptions) from original_exception *)
          ORaise (if is_root then coalesce (Grp [Grp td]) else Grp td) (orig_of block)
      end
  end.

Record run_result := RR { r_trace : list tev; r_outcome : outcome; r_closed : bool }.

Definition leave (is_root : bool) (stack : list cb) (block : ending) : option run_result :=
  let cancelled := match block with Cancel => true | _ => false end in
  match teardown (sizes stack) cancelled stack (orig_of block) with
  | Some (tr, ex) => Some (RR tr (aexit is_root block ex) true)
  | None => None
  end.
