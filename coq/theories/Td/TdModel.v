(* Model of context teardown (src/asphalt/core/_context.py: Context._run_teardown_callbacks,
   __aenter__/__aexit__) used by C01.  A teardown callback is a finite tree: the callbacks it
   registers while it runs are its children.  Definitions only. *)
From Coq Require Import List Bool Arith.
From Asphalt Require Import Gen.Gen_coalesce Gen.Gen_lifecycle.
Import ListNotations.

(* exceptions: a leaf is identified by a number and is either an Exception or only a
   BaseException; groups nest *)
Inductive exc := Leaf (id : nat) (is_exc : bool) | Grp (l : list exc).

(* isinstance(x, Exception): a group is an ExceptionGroup iff everything in it is an Exception *)
Fixpoint is_exception (e : exc) : bool :=
  match e with
  | Leaf _ b => b
  | Grp l => (fix all (l : list exc) : bool := match l with [] => true | x :: r => is_exception x && all r end) l
  end.
Definition is_group (e : exc) : bool := match e with Grp _ => true | Leaf _ _ => false end.

Inductive cb :=
  CB (id : nat)
     (pass_exc : bool)          (* registered with pass_exception=True *)
     (suspends : bool)          (* asynchronous, with at least one checkpoint *)
     (raises : option exc)
     (adds : list cb).          (* callbacks registered while this one runs *)

Definition cb_id (c : cb) := match c with CB i _ _ _ _ => i end.
Definition cb_pass (c : cb) := match c with CB _ p _ _ _ => p end.
Definition cb_susp (c : cb) := match c with CB _ _ s _ _ => s end.
Definition cb_raises (c : cb) := match c with CB _ _ _ r _ => r end.
Definition cb_adds (c : cb) := match c with CB _ _ _ _ a => a end.

Fixpoint size (c : cb) : nat :=
  match c with
  | CB _ _ _ _ a => S ((fix sz (l : list cb) := match l with [] => 0 | x :: r => size x + sz r end) a)
  end.
Fixpoint sizes (l : list cb) : nat := match l with [] => 0 | x :: r => size x + sizes r end.

(* what happened to a callback *)
Inductive how := HOk | HRaised (e : exc) | HCancelled.
(* the exception list of the loop: an exception raised by a callback, or the backend's
   cancellation exception (its class is backend specific) *)
Inductive cexc := CE (e : exc) | CCancel.

Inductive tev :=
| Begin (id : nat) (arg : option (option exc))   (* None: called without argument *)
| End_ (id : nat) (h : how).

(* how a callback ends: inside a cancelled scope an asynchronous callback is cancelled at its
   first checkpoint (level cancellation); otherwise it raises what it raises *)
Definition ends (cancelled : bool) (c : cb) : how :=
  if cancelled && cb_susp c then HCancelled
  else match cb_raises c with Some e => HRaised e | None => HOk end.

Definition collected (h : how) : list cexc :=
  match h with HOk => [] | HRaised e => [CE e] | HCancelled => [CCancel] end.

(* The list of registered callbacks and the loop over it, with the shape the translator read from
   Context.add_teardown_callback / _run_teardown_callbacks on this run (Gen/Gen_lifecycle.v):
   where a registration lands, which end is popped, what a pass_exception callback is handed. *)
Definition register (stack adds : list cb) : list cb :=
  if td_registers_at_end then stack ++ adds else rev adds ++ stack.
Definition pop (stack : list cb) : option (cb * list cb) :=
  if td_pops_last then match rev stack with [] => None | c :: r => Some (c, rev r) end
  else match stack with [] => None | c :: r => Some (c, r) end.
Definition passed (orig : option exc) : option exc := if td_arg_is_exit_exception then orig else None.

(* the pop-until-empty loop *)
Fixpoint teardown (fuel : nat) (cancelled : bool) (stack : list cb) (orig : option exc)
  : option (list tev * list cexc) :=
  match fuel with
  | O => match stack with [] => Some ([], []) | _ => None end
  | S f =>
    match pop stack with
    | None => Some ([], [])
    | Some (c, rest) =>
        match teardown f cancelled (register rest (cb_adds c)) orig with
        | None => None
        | Some (tr, ex) =>
            Some (Begin (cb_id c) (if cb_pass c then Some (passed orig) else None)
                  :: End_ (cb_id c) (ends cancelled c) :: tr,
                  collected (ends cancelled c) ++ ex)
        end
    end
  end.

(* ---------- what the caller of `async with` observes ---------- *)
Inductive ending := Return | Raise (e : exc) | Cancel.
Inductive outcome :=
| ONormal
| ORaise (e : exc) (cause : option exc)
| OCancelled.     (* what a cancelled scope finally lets out is backend specific: not modelled *)

(* coalesce_exceptions, parameterised by what the translator extracted from its source:
   an ExceptionGroup with exactly [coalesce_unwrap_len] = 1 member that is not itself an
   ExceptionGroup is replaced by that member *)
Definition coalesce (e : exc) : exc :=
  match e with
  | Grp [x] =>
      if (is_exception e || coalesce_catches_base_groups)
         && Nat.eqb coalesce_unwrap_len 1
         && negb (is_group x && (is_exception x || coalesce_child_must_not_be_base_group))
      then x else e
  | _ => e
  end.

(* the backend's cancellation exception (CancelledError / trio.Cancelled), a BaseException *)
Definition cancel_exc : exc := Leaf 999 false.
Definition orig_of (b : ending) : option exc :=
  match b with Raise e => Some e | Cancel => Some cancel_exc | Return => None end.

Fixpoint plain (l : list cexc) : option (list exc) :=
  match l with
  | [] => Some []
  | CE e :: r => match plain r with Some r' => Some (e :: r') | None => None end
  | CCancel :: _ => None
  end.

(* __aexit__ unwinds the exit stack __aenter__ built -- the entries, their order and the condition
   under which each is pushed are read from the source on this run (Gen_lifecycle.exit_entries).
   What each entry does to the exception on its way out: the teardown callbacks replace it by one
   group of what they raised (its cause: the exception that ended the block); the root's task
   group wraps whatever passes through it in a group; coalesce_exceptions; the other two
   (resetting the current context, leaving the parent's registry) do not touch it. *)
Inductive pend := PNone | PExc (e : exc) (cause : option exc).
Definition run_entry (block : ending) (td : list exc) (p : pend) (en : exit_entry) : pend :=
  match en with
  | E_teardown_callbacks =>
      match td with
      | [] => p
      | _ => PExc (Grp td) (if td_cause_is_exit_exception then orig_of block else None)
      end
  | E_task_group => match p with PExc e c => PExc (Grp [e]) c | PNone => PNone end
  | E_coalesce => match p with PExc e c => PExc (coalesce e) c | PNone => PNone end
  | E_reset_current => p
  | E_child_deregister => p
  end.
Definition unwind (block : ending) (td : list exc) (entries : list exit_entry) (p : pend) : pend :=
  fold_left (run_entry block td) (rev entries) p.

Definition aexit (is_root : bool) (block : ending) (ex : list cexc) : outcome :=
  match block with
  | Cancel => OCancelled
  | _ =>
      match plain ex with
      | None => OCancelled
      | Some td =>
          match unwind block td (exit_entries (negb is_root))
                       (match block with Raise e => PExc e None | _ => PNone end) with
          | PNone => ONormal
          | PExc e c => ORaise e c
          end
      end
  end.

Record run_result := RR { r_trace : list tev; r_outcome : outcome; r_closed : bool }.

Definition leave (is_root : bool) (stack : list cb) (block : ending) : option run_result :=
  let cancelled := match block with Cancel => true | _ => false end in
  match teardown (sizes stack) cancelled stack (orig_of block) with
  | Some (tr, ex) => Some (RR tr (aexit is_root block ex) true)
  | None => None
  end.
