(* Non-vacuity for C01: a concrete forest -- six callbacks, two of which are registered by a
   callback while it runs (one of them registering a third), an Exception and a BaseException raised
   -- is torn down in a root context whose block raised, and in a child context that ended cleanly. *)
From Coq Require Import List Bool Arith.
From Asphalt Require Import Td.TdModel Td.TdProofs.
Import ListNotations.

Definition st5 : list cb :=
  [CB 0 false false None [];
   CB 1 true true (Some (Leaf 5 true))
      [CB 2 false false None [CB 3 true false None []]; CB 4 false true (Some (Leaf 6 false)) []];
   CB 5 true false None []].

Example st5_fuel : sizes st5 = 6.
Proof. reflexivity. Qed.

Example st5_in_a_root_whose_block_raised :
  leave true st5 (Raise (Leaf 9 true)) =
  Some (RR [Begin 5 (Some (Some (Leaf 9 true))); End_ 5 HOk;
            Begin 1 (Some (Some (Leaf 9 true))); End_ 1 (HRaised (Leaf 5 true));
            Begin 4 None; End_ 4 (HRaised (Leaf 6 false));          (* registered last by callback 1: first *)
            Begin 2 None; End_ 2 HOk;
            Begin 3 (Some (Some (Leaf 9 true))); End_ 3 HOk;       (* registered by callback 2 *)
            Begin 0 None; End_ 0 HOk]
           (ORaise (Grp [Grp [Leaf 5 true; Leaf 6 false]]) (Some (Leaf 9 true)))
           true).
Proof. vm_compute. reflexivity. Qed.

Example st5_in_a_child_that_ended_cleanly :
  option_map r_outcome (leave false st5 Return) = Some (ORaise (Grp [Leaf 5 true; Leaf 6 false]) None).
Proof. vm_compute. reflexivity. Qed.
