(* The order in which a context lets go of things when it is left, derived from the exit stack
   that the translator read from Context.__aenter__ on this run (Gen/Gen_lifecycle.v).
   Used by C01, C08, C12, C13. *)
From Coq Require Import List Bool.
From Asphalt Require Import Gen.Gen_lifecycle.
Import ListNotations.

(* what is still in place around the context while it is being left *)
Record around := Around {
  is_current : bool;        (* current_context() of the leaving task is this context *)
  in_parent : bool;         (* listed among the parent's open children *)
  group_open : bool }.      (* the root context's task group is still open (root only) *)

Definition entered (has_parent : bool) : around := Around true has_parent (negb has_parent).

Definition release (a : around) (en : exit_entry) : around :=
  match en with
  | E_reset_current => Around false (in_parent a) (group_open a)
  | E_child_deregister => Around (is_current a) false (group_open a)
  | E_task_group => Around (is_current a) (in_parent a) false
  | E_coalesce => a
  | E_teardown_callbacks => a
  end.

(* the exit stack is unwound in reverse push order *)
Definition unwinding (has_parent : bool) : list exit_entry := rev (exit_entries has_parent).

(* what is in place at the moment the teardown callbacks run *)
Fixpoint seen_from (l : list exit_entry) (a : around) : option around :=
  match l with
  | [] => None
  | E_teardown_callbacks :: _ => Some a
  | e :: r => seen_from r (release a e)
  end.
Definition seen_by_callbacks (has_parent : bool) : option around :=
  seen_from (unwinding has_parent) (entered has_parent).

Definition after_exit (has_parent : bool) : around :=
  fold_left release (unwinding has_parent) (entered has_parent).

(* The teardown callbacks are the first thing to run when a context is left: the context is still
   the current one, still listed by its parent, and (root) its task group -- with every service
   task in it -- is still open. *)
Theorem callbacks_run_first : forall hp, exists rest, unwinding hp = E_teardown_callbacks :: rest.
Proof. intros [|]; eexists; reflexivity. Qed.

Theorem callbacks_see_everything_in_place : forall hp, seen_by_callbacks hp = Some (entered hp).
Proof. intros [|]; reflexivity. Qed.

(* after the exit nothing is left in place *)
Theorem everything_released : forall hp, after_exit hp = Around false false false.
Proof. intros [|]; reflexivity. Qed.

(* the exact orders *)
Theorem unwinding_root : unwinding false = [E_teardown_callbacks; E_task_group; E_coalesce; E_reset_current].
Proof. reflexivity. Qed.
Theorem unwinding_child : unwinding true = [E_teardown_callbacks; E_reset_current; E_child_deregister].
Proof. reflexivity. Qed.

(* the root's task group is left after the teardown callbacks (so the finalizers of service tasks,
   which are teardown callbacks, run while the group is open) and inside coalesce_exceptions (so
   what the group raises is still unwrapped) *)
Fixpoint index_of (e : exit_entry) (l : list exit_entry) : option nat :=
  match l with
  | [] => None
  | x :: r => if match x, e with
                 | E_child_deregister, E_child_deregister | E_reset_current, E_reset_current
                 | E_coalesce, E_coalesce | E_task_group, E_task_group
                 | E_teardown_callbacks, E_teardown_callbacks => true
                 | _, _ => false
                 end
              then Some 0 else option_map S (index_of e r)
  end.
Theorem group_between_callbacks_and_coalesce :
  index_of E_teardown_callbacks (unwinding false) = Some 0 /\
  index_of E_task_group (unwinding false) = Some 1 /\
  index_of E_coalesce (unwinding false) = Some 2.
Proof. repeat split. Qed.

(* __aexit__'s own statements and the shape of the loop, as recognised by the translator *)
Theorem lifecycle_shape :
  aexit_closing_before_stack = true /\ aexit_records_exception_before_stack = true /\
  aexit_closed_in_finally = true /\ aexit_child_check_in_finally = true /\
  td_registers_at_end = true /\ td_pops_last = true /\ td_arg_is_exit_exception = true /\
  td_awaits_awaitable = true /\ td_catches_base_exception = true /\ td_collects_in_call_order = true /\
  td_group_is_base_group = true /\ td_cause_is_exit_exception = true.
Proof. repeat split. Qed.

Theorem exit_statement_order :
  aexit_closing_before_stack = true /\ aexit_closed_in_finally = true /\ aexit_child_check_in_finally = true.
Proof. repeat split. Qed.

(* the general fact behind `callbacks_see_everything_in_place`: WHATEVER else is on the exit stack and in
   whatever order, an entry that is pushed last is unwound first, before anything has been released -- so the
   property needs of the source only that the teardown callbacks are the last thing __aenter__ pushes *)
Theorem pushed_last_sees_everything : forall l a, seen_from (rev (l ++ [E_teardown_callbacks])) a = Some a.
Proof. intros l a. rewrite rev_app_distr. reflexivity. Qed.

Theorem teardown_callbacks_pushed_last : forall hp, exists l, exit_entries hp = l ++ [E_teardown_callbacks].
Proof.
  intros [|]; [exists (removelast (exit_entries true)) | exists (removelast (exit_entries false))]; reflexivity.
Qed.
