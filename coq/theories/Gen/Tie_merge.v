(* Tie T for merge_config: the definition regenerated from the current source text equals the
   hand-written twin the theorems are about.  Re-checked on every run. *)
From Coq Require Import List.
From Asphalt Require Import Config.Val Config.MergeSpec Gen.Gen_merge.

Lemma gen_merge_eq : forall fuel h o v, merge_config_gen fuel h o v = merge_heap fuel h o v.
Proof. intros. reflexivity. Qed.

From Asphalt Require Import Config.MergeProofs.

(* the purity theorem, transported to the regenerated definition *)
Lemma gen_args_unchanged fuel h o v h' r :
  merge_config_gen fuel h o v = Some (h', r) ->
  (forall a, a < length h -> hget h' a = hget h a) /\
  (forall n x t, read n h x = Some t -> read n h' x = Some t) /\
  fresh_ref h h' r.
Proof. rewrite gen_merge_eq. apply merge_heap_args_unchanged. Qed.

From Asphalt Require Import Config.MergeSim.

(* the simulation theorem, transported: on EVERY heap the regenerated definition returns a new
   object that reads back as the pure merge of what its arguments read back as, and leaves both
   arguments reading as before *)
Lemma gen_computes_merge : forall n h vo vv to tv,
  read (S n) h vo = Some to -> read (S n) h vv = Some tv ->
  exists h' r, merge_config_gen (S (S n)) h vo vv = Some (h', r) /\
    read (S n) h' r = Some (TDict (merge_dict (as_dict to) (as_dict tv))) /\
    read (S n) h' vo = Some to /\ read (S n) h' vv = Some tv /\ fresh_ref h h' r.
Proof. intros. rewrite gen_merge_eq. now apply merge_heap_computes_merge. Qed.
