#!/usr/bin/env python3
"""Regenerates the table of seeded changes in DESIGN.md (between the markers) from seeded/*/meta.json."""
import glob
import json
import os
import re

ROOT = os.path.dirname(os.path.dirname(os.path.abspath(__file__)))
NOTES = {
    'C03_r10m2_in_src_asphalt_core__component_py_the': 'the scenario `lookup_paths_agree_inside_a_component` extended (resources added after the tree was created, a factory-backed pair, optional and plain lookups) and also run for C03',
    'C05_r10m1__init_component_src_asphalt_core__component_py_no': 'fixed scenario `same_configuration_object_started_twice` (this is the revert of fix F6 seen from C05)',
    'C05_r10m2_resolve_the_target_context_once_refactoring_of': 'the scenario `nested_tree_publications_release_waiters` also run for C05',
    'C06_r10m1_signal___get___src_asphalt_core__event_py': "not reached by the C06 check (it needs two value-equal `Context` subclass instances open at once); the mechanism - value-equal owners sharing one bound signal - is C11's and is reported there",
    'C06_r10m2_context_add_resource_factory_src_asphalt_core__context_py': 'fixed scenario `factory_for_an_iterable_class_releases_its_waiter` (an Enum class as the single type)',
    'C07_r10m1_context__run_teardown_callbacks_src_asphalt_core__context_py': "not reached by the C07 check (a `start_component()` made from inside a teardown callback); the changed teardown loop is C01's and is reported there (`not-invoked`)",
    'C07_r10m2_context__run_teardown_callbacks_src_asphalt_core__context_py': "not reached by the C07 check (a teardown callback cancelled by the caller's own deadline); the changed teardown loop is C01's and is reported there (`not-invoked`)",
    'C08_r10m1_componentcontext_start_service_task__component_py_the_overri': "fixed scenario `component_service_task_keeps_its_teardown_action` (None and a falsy callable through a component's view)",
    'C12_r10m1_context_add_teardown_callback_now_snapshots_the_caller_s': 'fixed scenario `callback_registered_from_elsewhere_runs_in_its_own_context`',
    'C12_r10m2_run_background_task_src_asphalt_core__concurrent_py_the': 'fixed scenario `task_started_on_an_outer_context_belongs_to_it`',
    'C13_r10m2_two_cooperating_sites_context_gets_a_private': 'fixed scenario `cancelled_exit_with_a_task_still_inside_is_reported`',
    'C15_r10m1__context_context_start_service_task_the_per_task_finalizer': "not reached by the C15 check (its programs start service tasks with the default action); the finalizer is C08's and is reported there (`teardown-did-not-wait`)",
    'C15_r10m2__concurrent_run_background_task_the_wrapper_every_service_ta': "not reached by the C15 check; `run_background_task` is C08's and C09's and is reported there (`teardown-did-not-wait`, `wait-finished`)",
    'C19_r10m1_inject_s_async_call_time_resolution_resolve_resources_async': 'fixed scenario `injected_coroutine_in_a_component_waits_like_the_explicit_lookup`',
    'C03_r9m1_tidy_up_in_context_add_resource_src_asphalt': 'fixed scenario `failed_adds_of_unusual_shapes_change_nothing` (a class that cannot be hashed after an ordinary type)',
    'C03_r9m2_hardening_of_the_debug_log_call_in': "the same scenario: a partial / callable object as factory callback with explicit types through a component's view",
    'C04_r9m2_get_resource_nowait_is_made_to_honour_its_docstring': 'oracle: `AsyncResourceError` for a pair that already resolves (before: correspondence only)',
    'C06_r9m1_context_add_resource_factory_src_asphalt_core__context_py': 'fixed scenario `partly_shadowed_factory_releases_its_waiter`',
    'C06_r9m2_context_get_resource_and_context_get_resource_nowait_src_asp': 'the scenario `factories_waiting_on_each_other_complete` also run for C06',
    'C07_r9m1__start_component_src_asphalt_core__component_py_was': 'component failures are falsy exceptions (`__len__` = 0)',
    'C07_r9m2_context_add_resource_src_asphalt_core__context_py': 'fixed scenario `refused_resource_of_a_failed_start_leaves_no_callback`',
    'C08_r9m1_context__run_teardown_callbacks__context_py_the_loop_every': 'fixed scenario `registration_during_a_service_tasks_stop`',
    'C08_r9m2_in_finalize_service_task_context_start_service_task__context': 'synchronous teardown actions that return a value (True, 0, a string)',
    'C10_r9m1_src_asphalt_core__event_py_class_event': 'fixed scenario `queued_event_keeps_its_source`',
    'C10_r9m2_src_asphalt_core__event_py_the_default': 'oracle for queues of length zero (`overflow-delivered`, the minimum number of warnings); before: correspondence only',
    'C11_r9m1_signal___get___src_asphalt_core__event_py': 'an owner class whose instances are not equal to themselves',
    'C11_r9m2_two_cooperating_edits_in_src_asphalt_core': "a runner crash inside asphalt's code is a failing input for the signal checks too (before: broken correspondence)",
    'C12_r9m2_src_asphalt_core__context_py_context___aenter__': 'fixed scenario `closing_anothers_context_leaves_the_closers_own_alone`',
    'C13_r9m1_the_inline_lifecycle_guards_self__ensure_state_as': 'fixed scenario `lookup_made_inside_awaited_after_the_block_is_refused`',
    'C14_r9m1_component_add_component__component_py_now_resolves_a': 'fixed scenario `overridden_default_types_need_not_exist`',
    'C15_r9m1__context_context_add_teardown_callback__run_teardown_callbac': 'callbacks that are bound methods of objects only the teardown stack refers to',
    'C15_r9m2__context_context__run_teardown_callbacks_be_lenient_towards_': 'raising callbacks raise a `TypeError` subclass after their work and accept a call without argument',
    'C17_r9m1_merge_config_src_asphalt_core__utils_py_delegates': 'oracle: an earlier result passed in again as `original` is left as it was (chained merges)',
    'C19_r9m1_inject_s_call_time_resolution_resolve_resources_and': 'fixed scenario `injected_lookups_happen_in_signature_order` (before: correspondence only)',
    'C10_full_queue_precheck_breaks_handoff': 'oracle: a consumer of a zero-length queue parked in `__anext__` takes the event (`lost-event`); before: correspondence only',
    'C16_r4m1_in_src_asphalt_core__cli_py_run': 'override sequences in which the same key occurs twice with a key below it in between; before: correspondence only',
    'C03_r3m3_context_add_resource_factory_checks_for_an_existing_factory': 'oracle: a second factory for a pair conflicts (shadow table of factories per context); before: correspondence only',
    'C02_r8m2_context_get_resources_src_asphalt_core__context_py': 'fixed scenario `generic_alias_types_are_found_by_every_lookup` (types that are equal but not identical objects)',
    'C03_r8m1_tidy_up_of_the_types_normalisation_at': 'oracle `invalid-type-accepted` (before: correspondence only)',
    'C03_r8m2_avoid_a_copy_optimisation_in_src_asphalt': 'oracle: a factory inherited when the context was created conflicts too (before: correspondence only)',
    'C04_r8m2_in_context_get_resource_the_table_of_in': 'unhashable callable objects as factory callbacks; oracle `lookup-raised`',
    'C05_r8m1_componentcontext_add_teardown_callback_src_asphalt_core__com': 'fixed scenario `every_registration_of_a_component_is_torn_down` (equal bound methods registered several times)',
    'C05_r8m2_simplification_of_context_get_resource_in_src_asphalt': 'fixed scenario `factories_waiting_on_each_other_complete`',
    'C06_r8m1_componentcontext___init___src_asphalt_core__component_py': 'fixed scenario `nested_tree_publications_release_waiters`',
    'C06_r8m2_decide_once_whether_a_factory_is_asynchronous': 'asynchronous factories that are not `async def` functions (a wrapper returning a coroutine, an object with `async __call__`) in the startup machine',
    'C07_r8m1_start_component_src_asphalt_core__component_py_only': 'fixed scenario `timeout_watches_every_tree` (plain `Component` containers seen childless first)',
    'C07_r8m2_the_startup_watchdog__watch_component_tree_startup_in_src_as': 'the timeout scenario extended by a shielded / worker-thread last step of `start()`',
    'C08_r8m1_context__context_py_now_keeps_a_per': 'oracle `stopped-early` (before: correspondence only)',
    'C08_r8m2_context___init____context_py_no_longer_copies': 'a second snapshot probe when the task ends, with factories registered before and after the call',
    'C09_r8m1_run_background_task_src_asphalt_core__concurrent_py_no': 'task targets that are unhashable callable objects',
    'C10_r8m1_src_asphalt_core__event_py_stream_events_no': 'the caller recycles the list of signals it handed over while the stream is open',
    'C12_r8m1_context___init___src_asphalt_core__context_py': 'fixed scenario `parent_is_the_current_context_itself` (a value-equal `Context` subclass); before: the proof about `Gen_ctxbase` only',
    'C12_r8m3_extra_third_mutant_context___aenter___src_asphalt': 'fixed scenario `refused_entry_changes_nothing`',
    'C13_r8m1_context___aexit___gets_a_fast_path_for': 'fixed scenario `left_from_another_task_is_closed_all_the_same`',
    'C14_r8m1_componentcontext_add_resource_add_resource_factory__componen': 'fixed scenario `default_name_is_remapped_only_while_starting`',
    'C15_r8m1__context_context_add_resource_which_componentcontext_add_res': 'falsy callable objects as the teardown callback of a resource in the runner programs',
    'C16_r8m1_in_src_asphalt_core__cli_py_the': "override texts Python's `int()`/`float()` read differently from YAML (`0644`, `089`, `1e5`, `inf`, `1_000`)",
    'C16_r8m2_in_src_asphalt_core__cli_py_run': 'override sequences `P.x=…`, `P=…`, `P.y=…`',
    'C17_r8m2_merge_config_src_asphalt_core__utils_py_gains': 'oracle: the result belongs to the caller (writing into it shows in no later result)',
    'C18_r8m1_src_asphalt_core__event_py_signal__subscribe': 'a listener that subscribed before the observed ones and leaves while they stay',
    'C19_r8m1_inject_src_asphalt_core__context_py_now': 'fixed scenario `annotations_mean_what_they_say` (forward reference to a class defined after the decoration)',
    'C19_r8m2_inject_s_lazy_resolve_forward_refs_src_asphalt_core': 'the same scenario: `Callable[..., None]` is not `Optional` (before: correspondence only)',
    "C06_r6m3_bonus_third_mutant_different_file_context_get_resource": "a bonus change its author assigned to the concurrent-generation property: the entry of a generation in flight is cleared only on success; reported by C04 (fixed scenario `failed_generation_with_waiters`)",
    "C15_r4m1__context_context__run_teardown_callbacks_a_debug_log_line": "NOT reported on the current tree, correctly: the change relied on defect F16 (`callable_name()` failing for callable objects); since the F16 fix it breaks nothing, its own demonstration passes, and the checks are silent. It was reported (C15 `callbacks-not-once`, C01) before that fix",
    "C18_r4m1_src_asphalt_core__event_py_the_registry": "not a C18 violation on the unchanged `Context` (contexts compare by identity, and a value-equal `Context` subclass already fails in the unchanged parent's child registry); the changed mechanism - value-equal owners sharing one channel - is C11's and is reported there through the value-equal owner class",
    "C01_r4m2_context__run_teardown_callbacks_no_longer_pops_the_callback": "the same callable object registered twice with another registration in between (one invocation per registration)",
    "C08_r4m1_context_start_service_task__context_py_now_registers_finaliz": "a callback registered by another task while a service task is still coming up",
    "C02_cow_factory_table_unshare": "factory visibility probed through `get_resources`; oracle for not-yet-generated factories",
    "C02_snapshot_at_enter": "structured tree plans in the generator",
    "C03_free_types_before_await": "pair-stealing during a suspended generation",
    "C03_teardown_cb_check_after_insert": "(F3 returning)",
    "C04_async_path_sync_factory_not_generated": "(F2 returning)",
    "C04_pending_key_per_type": "overlapping lookups of different types of one factory",
    "C05_inert_container_subtree_skipped": "components without `prepare`/`start` in the trees",
    "C06_second_lookup_nowait": "async factories in the startup harness",
    "C06_signal_wait_event_bounded_again": "(F7 returning)",
    "C07_start_error_not_rewrapped": "a component that raises a `ComponentStartError` by hand",
    "C08_finished_event_before_context_exit": "gated teardown of the task's own context (model + harness)",
    "C09_cancel_called_skips_handler": "tasks raising while unwinding from `cancel()` (model + harness)",
    "C11_stale_bound_signal_id_reuse": "dropping only instances never dispatched on; id reuse",
    "C12_exit_sets_parent_instead_of_previous": "contexts created earlier and entered later (`EnterPre`)",
    "C15_startup_catchall_narrowed": "BaseException failures; a sibling whose cleanup fails",
    "C15_teardown_swap_and_iterate": "callbacks registering callbacks during the runner's teardown (model + harness)",
    "C16_only_first_escaped_dot_honoured": "multi-dot keys",
    "C17_skip_equal_override": "type-confusable leaves `1` / `True` / `1.0`",
    "C18_event_for_empty_generation": "exact characterisation of generation events",
    "C19_local_names_deleted_on_failed_resolution": "late forward references; unexpected-exception oracle",
    "C01_only_coroutines_awaited": "callbacks returning awaitables that are not coroutines",
    "C02_component_context_stale_view": "probe of a context created inside `prepare()`/`start()` (reported by C12)",
    "C04_pending_wait_only_for_coroutinefunctions": "async factories that are plain functions returning a coroutine",
    "C13_open_child_check_skipped_when_exit_raises": "(F15 returning; written by hand)",
    "C13_open_child_ignored_on_error_exit": "strict open-child oracle; failing teardown callbacks in the histories",
    "C11_bound_signal_cached_in_instance_dict": "owners made by `copy.copy()` of an instance with bound signals",
    "C11_falsy_instance_treated_as_class_access": "falsy owner instances",
    "C12_parent_skips_closing_contexts": "probe inside a teardown callback of the context being left",
    "C14_suffix_stripped_only_for_entry_points": "`module:attr/name` aliases with the type left out",
    "C19_none_first_union_member": "explicit optional lookup made right after the injected call",
    "C06_falsy_resource_treated_as_missing": "published objects that are falsy (empty containers)",
    "C06_wait_filter_shared_per_component": "a second request pending in the same component beside a wait",
    "C07_service_start_shielded": "gates passed inside `start_service_task()` (slow `started()`); real-time watchdog: a hang is a report",
    "C08_cancelled_task_exception_swallowed": "fixed scenarios: a task whose cleanup raises while unwinding from the teardown's cancellation",
    "C09_all_task_handles_returns_live_set": "the caller empties the set it was given",
    "C19_async_inject_nowait_fast_path": "NOT reported: observable only with factories outside the documented domain (see below)",
    "C16_merge_worklist_mutates_aliased_nested": "YAML anchors/aliases (one mapping under two keys) in the generated files",
}


def main():
    rows = []
    total = reported = own_reported = 0
    for d in sorted(glob.glob(os.path.join(ROOT, "seeded", "*"))):
        name = os.path.basename(d)
        m = json.load(open(os.path.join(d, "meta.json")))
        by = []
        for pid, c in m.get("checks", {}).items():
            if c.get("detected"):
                sig = c.get("signature") or ""
                sig = sig.split(":", 1)[1] if sig.startswith(("C", "merge")) and ":" in sig else sig
                by.append(f"{pid} `{sig}`" if sig and sig != "no-failing-input-found" else f"{pid} (correspondence)")
        note = NOTES.get(name, "—")
        own = m.get("checks", {}).get(m["property"], {}).get("detected")
        if not own and by and note == "—":
            note = f"not reached by the {m['property']} check; the mechanism is reported by the check(s) on the left"
        total += 1
        reported += bool(by)
        own_reported += bool(own)
        rows.append(f"| {name} | {', '.join(by) if by else '—'} | {note} |")
    table = ("| Seeded change | Reported by (signature) | What had to be strengthened first |\n|---|---|---|\n"
             + "\n".join(rows) + "\n")
    p = os.path.join(ROOT, "DESIGN.md")
    s = open(p).read()
    a, b = "<!-- seeded-table:begin -->\n", "<!-- seeded-table:end -->\n"
    if a in s:
        s = s[:s.index(a) + len(a)] + table + s[s.index(b):]
    else:
        old = s[s.index("| Seeded change | Reported by (signature)"):s.index("A further change met while seeding")]
        s = s.replace(old, a + table + b + "\n")
    import re as _re
    s = _re.sub(r"<!-- seeded-counts -->.*?<!-- /seeded-counts -->",
                f"<!-- seeded-counts -->{total} recorded changes: {reported} are reported by a check, {own_reported} of them by the "
                f"check of the property they were written against<!-- /seeded-counts -->", s, flags=_re.S)
    open(p, "w").write(s)
    print(len(rows), "rows;", reported, "reported;", own_reported, "by own property")


if __name__ == "__main__":
    main()
