#!/usr/bin/env python3
"""Re-run the quick check(s) against an already recorded seeded change and refresh the verdict in its meta.json.
usage: tools/recheck.py <seed name> [property ids...]   (default: the properties recorded in the meta)
Applies seeded/<name>/patch.diff to /repo, runs the checks, reverts /repo straight afterwards."""
import json, re, subprocess, sys
from pathlib import Path

name, pids = sys.argv[1], sys.argv[2:]
d = Path("/verif/seeded") / name
meta = json.loads((d / "meta.json").read_text())
pids = pids or list(meta.get("checks", {})) or [meta["property"]]


def sh(cmd):
    p = subprocess.run(cmd, shell=True, stdout=subprocess.PIPE, stderr=subprocess.STDOUT, text=True)
    return p.returncode, p.stdout


import os
via = os.environ.get("SEED_VIA_WORKTREE")      # see tools/seed.py
target = "/repo"
if via:
    target = f"/tmp/seedwt_{os.getpid()}"
    sh(f"git -C /repo worktree add -q --detach {target} HEAD")
else:
    assert sh("git -C /repo status --porcelain --untracked-files=no")[1].strip() == "", "/repo is dirty"
rc, out = sh(f"git -C {target} apply {d}/patch.diff")
assert rc == 0, out
try:
    for pid in pids:
        rc, out = sh(f"cd /verif && VERIF_REPO={target} timeout 1500 ./check {pid} --tier quick 2>&1 | tail -8")
        viol = [l for l in out.splitlines() if l.startswith("VIOLATION")]
        rec = {"detected": bool(viol), "lines": viol[:3], "summary": out.splitlines()[-1][-300:] if out.strip() else ""}
        if viol:
            m = re.search(r"replay=(\S+)", viol[0])
            if m and Path(m.group(1)).exists():
                try:
                    rp = json.loads(Path(m.group(1)).read_text())
                    rec["signature"] = rp.get("signature") or ("no-failing-input-found" if "no_longer_checks" in rp else None)
                    rec["what"] = (rp.get("what") or "")[:300]
                except Exception:
                    pass
        meta.setdefault("checks", {})[pid] = rec
        print(name, pid, "DETECTED" if viol else "missed", rec.get("signature", ""))
finally:
    if via:
        sh(f"git -C /repo worktree remove --force {target}")
    else:
        sh("git -C /repo checkout -- .")
(d / "meta.json").write_text(json.dumps(meta, indent=1))
