#!/usr/bin/env python3
"""Confirm a candidate property-breaking change and run our checks against it.
usage: tools/seed.py <candidate dir with patch.diff demo.py meta.json> <seed name> <property id> [more property ids]
1. in a scratch worktree of /repo (outside /repo and /verif, removed afterwards): the demo passes without the
   change, the pinned test suite still gives 287 passed with it, the demo fails with it;
2. applies the change to /repo, runs the quick check of each property, undoes it straight afterwards;
3. records everything in /verif/seeded/<name>/ (patch.diff, demo.py, meta.json)."""
import json, os, re, shutil, subprocess, sys
from pathlib import Path

cand, name, pids = Path(sys.argv[1]), sys.argv[2], sys.argv[3:]
PY = "/venv/bin/python"
wt = Path(f"/tmp/seedwt_{os.getpid()}")


def sh(cmd, **kw):
    p = subprocess.run(cmd, shell=isinstance(cmd, str), stdout=subprocess.PIPE, stderr=subprocess.STDOUT, text=True, **kw)
    return p.returncode, p.stdout


def demo(tree):
    env = dict(os.environ, PYTHONPATH=f"{tree}/src", PYTHONHASHSEED="0")
    rc, out = sh(["timeout", "120", PY, str(cand / "demo.py")], env=env, cwd="/tmp")
    return rc, out[-600:]


meta = json.loads((cand / "meta.json").read_text()) if (cand / "meta.json").exists() else {}
rec = {"property": pids[0], "also_checked": pids[1:], "summary": meta.get("summary"), "needs": meta.get("needs"),
       "origin": "independent sub-agent given only the property text and a scratch worktree", "ran": {}}
assert sh(f"git -C /repo status --porcelain --untracked-files=no")[1].strip() == "", "/repo is dirty"
sh(f"git -C /repo worktree add -q --detach {wt} HEAD")
try:
    rc0, o0 = demo(wt)
    rec["ran"]["demo_without_change"] = {"rc": rc0, "tail": o0[-200:]}
    rc, out = sh(f"git -C {wt} apply {cand}/patch.diff")
    rec["ran"]["apply"] = {"rc": rc, "out": out[-300:]}
    rc, out = sh(f"cd {wt} && PYTHONPATH={wt}/src {PY} -m pytest -q -p no:cacheprovider --timeout=900 2>&1 | tail -3")
    m = re.search(r"(\d+) failed, (\d+) passed", out)
    rec["ran"]["tests_with_change"] = {"failed": int(m.group(1)) if m else None, "passed": int(m.group(2)) if m else None,
                                       "tail": out[-300:]}
    rc1, o1 = demo(wt)
    rec["ran"]["demo_with_change"] = {"rc": rc1, "tail": o1[-400:]}
finally:
    sh(f"git -C /repo worktree remove --force {wt}")
confirmed = (rec["ran"]["demo_without_change"]["rc"] == 0 and rec["ran"]["apply"]["rc"] == 0
             and rec["ran"]["tests_with_change"]["passed"] == 287 and rec["ran"]["tests_with_change"]["failed"] == 4
             and rec["ran"]["demo_with_change"]["rc"] != 0)
rec["confirmed"] = confirmed
print("confirmed:", confirmed, json.dumps(rec["ran"])[:600])
if confirmed:
    rec["checks"] = {}
    # SEED_VIA_WORKTREE=1: the change is applied to a scratch worktree and the checks are pointed at it with
    # VERIF_REPO, so that /repo itself is not touched (needed while another pass is reading /repo)
    via = os.environ.get("SEED_VIA_WORKTREE")
    target = "/repo"
    if via:
        target = f"/tmp/seedwt_{os.getpid()}"
        sh(f"git -C /repo worktree add -q --detach {target} HEAD")
    rc, out = sh(f"git -C {target} apply {cand}/patch.diff")
    try:
        for pid in pids:
            rc, out = sh(f"cd /verif && VERIF_REPO={target} timeout 1500 ./check {pid} --tier quick 2>&1 | tail -8")
            viol = [l for l in out.splitlines() if l.startswith("VIOLATION")]
            rec["checks"][pid] = {"detected": bool(viol), "lines": viol[:3], "summary": out.splitlines()[-1][-300:]}
            if viol:
                m = re.search(r"replay=(\S+)", viol[0])
                if m and Path(m.group(1)).exists():
                    rp = json.loads(Path(m.group(1)).read_text())
                    rec["checks"][pid]["signature"] = rp.get("signature") or "no-failing-input-found"
                    rec["checks"][pid]["what"] = (rp.get("what") or "")[:300]
            print(pid, rec["checks"][pid])
    finally:
        if via:
            sh(f"git -C /repo worktree remove --force {target}")
        else:
            sh("git -C /repo checkout -- .")
    d = Path("/verif/seeded") / name
    d.mkdir(parents=True, exist_ok=True)
    shutil.copy(cand / "patch.diff", d / "patch.diff")
    shutil.copy(cand / "demo.py", d / "demo.py")
    (d / "meta.json").write_text(json.dumps(rec, indent=1))
assert sh("git -C /repo status --porcelain --untracked-files=no")[1].strip() == ""
