import sys, json, subprocess, re
sys.path.insert(0, '/verif')
from harness.core import Check
from harness import sig_common as sc
ck = Check("DEV", "quick", int(sys.argv[2]) if len(sys.argv) > 2 else 0)
n = int(sys.argv[1]) if len(sys.argv) > 1 else 200
results = sc.collect(ck, n, 22, sc.FIXED)
print("results", len(results), "broken", ck.broken[:1])
terms = [sc.case_term(r) for r in results]
bad = ck.coq_eval("sig", sc.HEADER, terms, "sig_case", "check_sig", shard=150)
print("mismatches", len(bad), bad[:10], "broken", len(ck.broken), str(ck.broken[:1])[:1500])
for name, orc in [("C10", sc.oracle_C10), ("C11", sc.oracle_C11)]:
    sigs = {}
    for r in results:
        for b in orc(r):
            sigs.setdefault(b[0], []).append(b[1])
    print(name, {k: (len(v), v[0][:300]) for k, v in sigs.items()})
print(json.dumps(sc.distribution(results))[:800])
for i in bad[:3]:
    r = results[i]
    f = "/verif/build/cases/DEV/diag1.v"
    open(f, "w").write(sc.HEADER + "Open Scope list_scope.\nDefinition c : sig_case := " + sc.case_term(r) + ".\nEval vm_compute in (first_bad_sig 0 init c).\n")
    out = subprocess.run(["coqc", "-Q", "/verif/coq/theories", "Asphalt", f], capture_output=True, text=True)
    print("CASE", i, r["backend"], r["classes"], (out.stdout + out.stderr)[-400:])
    m = re.search(r"Some\s*\((\d+)", out.stdout)
    k = int(m.group(1)) if m else 0
    for j, s in enumerate(r["steps"][:k + 1]):
        print(j, s["op"], "->", s["out"])
