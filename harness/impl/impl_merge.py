"""Runs the real asphalt.core.merge_config on the given pairs; reports the result, both
arguments as they are after the call, and whether the result is a new object."""
import collections
import copy
import json
import sys

from asphalt.core import merge_config


class Cfg(dict):
    """a dict subclass, as configuration loaders hand them out"""


def main():
    payload = json.load(sys.stdin)
    out = []
    for ci, case in enumerate(payload["cases"]):
        o, v = case[0], case[1]
        # the same dict object may sit at several places of an argument (a YAML alias, a reused variable):
        # every non-empty dict that occurs (by value) more than once in the overrides is made one object
        if len(case) > 2 and case[2]:
            seen = {}

            def share(x):
                if isinstance(x, dict):
                    for k in list(x):
                        x[k] = share(x[k])
                    key = json.dumps(x)      # same keys in the same order: dictionaries are ordered
                    if x and key in seen:
                        return seen[key]
                    seen[key] = x
                return x
            v = share(v)
        if case[3] if len(case) > 3 else ci % 2:
            # "a dictionary" is anything that IS a dict: every other nested dictionary of both arguments is an
            # OrderedDict or an instance of a plain dict subclass (aliasing preserved)
            n = [0]
            memo = {}

            def sub(x, top=False):
                if isinstance(x, dict):
                    if id(x) in memo:
                        return memo[id(x)]
                    n[0] += 1
                    y = x if (top or n[0] % 2) else (collections.OrderedDict() if n[0] % 4 else Cfg())
                    memo[id(x)] = y
                    items = [(k, sub(val)) for k, val in list(x.items())]
                    if y is not x:
                        y.update(items)
                    else:
                        for k, val in items:
                            x[k] = val
                    return y
                return x
            o, v = sub(o, True), sub(v, True)
        o0, v0 = copy.deepcopy(o), copy.deepcopy(v)
        try:
            r = merge_config(o, v)
            # values are passed through, not copied: a value of the result that is not a freshly merged dictionary IS
            # the winning argument's own object (lists and one-sided dictionaries are checked: identity matters for them)
            def passed_through(res, a, b):
                for k, val in res.items():
                    in_a, in_b = isinstance(a, dict) and k in a, isinstance(b, dict) and k in b
                    if in_a and in_b and isinstance(a[k], dict) and isinstance(b[k], dict):
                        if not isinstance(val, dict) or not passed_through(val, a[k], b[k]):
                            return False
                    else:
                        src = b[k] if in_b else a[k] if in_a else None
                        if isinstance(src, (list, dict)) and val is not src:
                            return False
                return True
            same = passed_through(r, o if isinstance(o, dict) else {}, v if isinstance(v, dict) else {}) if isinstance(r, dict) else True
            # the same two objects merged a second time, after the overrides have been given one more key: every call
            # computes the merge of what its arguments hold NOW
            again_ok = True
            if isinstance(v, dict) and isinstance(r, dict) and "zz_second_call" not in v and "zz_second_call" not in (o or {}):
                v["zz_second_call"] = 1
                try:
                    r2 = merge_config(o, v)
                    again_ok = r2.get("zz_second_call") == 1 and {k: x for k, x in r2.items() if k != "zz_second_call"} == r
                finally:
                    del v["zz_second_call"]
            # the result is a NEW dictionary (and so is every sub-dictionary merged from two): it is the caller's to
            # write into, and a later call returns another one that knows nothing of what the caller wrote
            own_ok = True
            if isinstance(r, dict):
                clean = copy.deepcopy(r)

                def scribble(res, a, b):
                    for k in list(res):
                        if isinstance(a, dict) and isinstance(b, dict) and k in a and k in b \
                                and isinstance(a[k], dict) and isinstance(b[k], dict) and isinstance(res[k], dict):
                            scribble(res[k], a[k], b[k])
                    res["zz_written_by_the_caller"] = 1
                scribble(r, o if isinstance(o, dict) else {}, v if isinstance(v, dict) else {})
                r3 = merge_config(o, v)
                own_ok = r3 is not r and r3 == clean and o == o0 and v == v0
                r = clean
            # an earlier result handed in again as `original` is an argument like any other: a further merge (with
            # overrides that collide with every section the first merge built) returns a new dictionary and leaves the
            # earlier result as it was -- base + site, then (base + site) + local
            chain_ok = True
            if isinstance(r, dict) and isinstance(v, dict):
                def deeper(x):
                    if isinstance(x, dict):
                        y = {k: deeper(val) for k, val in x.items()}
                        y["zz_next_layer"] = 1
                        return y
                    return x
                v2 = deeper(copy.deepcopy(v))
                before = copy.deepcopy(r)
                r4 = merge_config(r, v2)
                chain_ok = r == before and r4 is not r and r4.get("zz_next_layer") == 1
            rec = {"result": r, "o_after": o, "v_after": v, "passed_through": same, "second_call_ok": again_ok,
                   "result_is_the_callers": own_ok, "chain_ok": chain_ok,
                   "fresh": isinstance(r, dict) and r is not o and r is not v,
                   "o_unchanged": o == o0, "v_unchanged": v == v0}
            json.dumps(rec)
        except Exception as e:  # noqa
            rec = {"exc": type(e).__name__ + ": " + str(e)[:200]}
        out.append(rec)
    print("@@" + json.dumps({"obs": out}))


main()
