"""Runs the real asphalt.core.merge_config on the given pairs; reports the result, both
arguments as they are after the call, and whether the result is a new object."""
import copy
import json
import sys

from asphalt.core import merge_config


def main():
    payload = json.load(sys.stdin)
    out = []
    for case in payload["cases"]:
        o, v = case[0], case[1]
        # the same dict object may sit at several places of an argument (a YAML alias, a reused variable):
        # every non-empty dict that occurs (by value) more than once in the overrides is made one object
        if len(case) > 2 and case[2]:
            seen = {}

            def share(x):
                if isinstance(x, dict):
                    for k in list(x):
                        x[k] = share(x[k])
                    key = json.dumps(x, sort_keys=True)
                    if x and key in seen:
                        return seen[key]
                    seen[key] = x
                return x
            v = share(v)
        o0, v0 = copy.deepcopy(o), copy.deepcopy(v)
        try:
            r = merge_config(o, v)
            rec = {"result": r, "o_after": o, "v_after": v,
                   "fresh": isinstance(r, dict) and r is not o and r is not v,
                   "o_unchanged": o == o0, "v_unchanged": v == v0}
            json.dumps(rec)
        except Exception as e:  # noqa
            rec = {"exc": type(e).__name__ + ": " + str(e)[:200]}
        out.append(rec)
    print("@@" + json.dumps({"obs": out}))


main()
