"""Runs the real asphalt.core.merge_config on the given pairs; reports the result, both
arguments as they are after the call, and whether the result is a new object."""
import copy
import json
import sys

from asphalt.core import merge_config


def main():
    payload = json.load(sys.stdin)
    out = []
    for o, v in payload["cases"]:
        o0, v0 = copy.deepcopy(o), copy.deepcopy(v)
        try:
            r = merge_config(o, v)
            rec = {"result": r, "o_after": o, "v_after": v,
                   "fresh": isinstance(r, dict) and r is not o and r is not v,
                   "o_unchanged": o == o0, "v_unchanged": v == v0}
            json.dumps(rec)
        except Exception as e:  # noqa
            rec = {"exc": type(e).__name__ + ": " + str(e)[:200]}
        out.append(rec)
    print("@@" + json.dumps({"obs": out}))


main()
