"""Runs the real asphalt.core.merge_config on the given pairs; reports the result, both
arguments as they are after the call, and whether the result is a new object."""
import collections
import copy
import json
import sys

from asphalt.core import merge_config


class Cfg(dict):
    """a dict subclass, as configuration loaders hand them out"""


def main():
    payload = json.load(sys.stdin)
    out = []
    for ci, case in enumerate(payload["cases"]):
        o, v = case[0], case[1]
        # the same dict object may sit at several places of an argument (a YAML alias, a reused variable):
        # every non-empty dict that occurs (by value) more than once in the overrides is made one object
        if len(case) > 2 and case[2]:
            seen = {}

            def share(x):
                if isinstance(x, dict):
                    for k in list(x):
                        x[k] = share(x[k])
                    key = json.dumps(x)      # same keys in the same order: dictionaries are ordered
                    if x and key in seen:
                        return seen[key]
                    seen[key] = x
                return x
            v = share(v)
        if case[3] if len(case) > 3 else ci % 2:
            # "a dictionary" is anything that IS a dict: every other nested dictionary of both arguments is an
            # OrderedDict or an instance of a plain dict subclass (aliasing preserved)
            n = [0]
            memo = {}

            def sub(x, top=False):
                if isinstance(x, dict):
                    if id(x) in memo:
                        return memo[id(x)]
                    n[0] += 1
                    y = x if (top or n[0] % 2) else (collections.OrderedDict() if n[0] % 4 else Cfg())
                    memo[id(x)] = y
                    items = [(k, sub(val)) for k, val in list(x.items())]
                    if y is not x:
                        y.update(items)
                    else:
                        for k, val in items:
                            x[k] = val
                    return y
                return x
            o, v = sub(o, True), sub(v, True)
        o0, v0 = copy.deepcopy(o), copy.deepcopy(v)
        try:
            r = merge_config(o, v)
            rec = {"result": r, "o_after": o, "v_after": v,
                   "fresh": isinstance(r, dict) and r is not o and r is not v,
                   "o_unchanged": o == o0, "v_unchanged": v == v0}
            json.dumps(rec)
        except Exception as e:  # noqa
            rec = {"exc": type(e).__name__ + ": " + str(e)[:200]}
        out.append(rec)
    print("@@" + json.dumps({"obs": out}))


main()
