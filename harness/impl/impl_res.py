"""Generates and executes histories of context operations against real asphalt Context objects
(public API only) and records, after every operation, its outcome and a probe of every context.

payload: {"cases": [{"seed": str, "n": int, "backend": "asyncio"|"trio"} | {"ops": [...], "backend": ...}]}
"""
from __future__ import annotations

import json
import random
import sys

import warnings

import anyio
from guard import guarded_run  # noqa: E402
import sniffio
from asphalt.core import (
    AsyncResourceError,
    Context,
    ResourceConflict,
    ResourceNotFound,
    stream_events,
)
from asphalt.core._context import ResourceEvent  # public class (re-exported in asphalt.core too)

def make_cb(h, i):
    """a teardown callback; every fifth one fails after it has run (the model does not care)"""
    def cb():
        h.cb_log.append(i)
        if i % 5 == 4:
            raise ValueError(f"teardown callback {i} failed")
    return cb


NAMES_OK = ["default", "x", "y_2", "Z9"]
NAMES_BAD = ["", "a b", "a.b", "x-y", "x\n"]
N_CLASSES = 4
NONCLASS = {90: 5, 91: 7.5}   # objects that are not classes


class Base:
    def __init__(self, n):
        self.n = n

    def __len__(self):
        # every other resource object is an empty container: a resource is a resource whatever its truth value
        return self.n % 2


CLASSES = [type(f"V{i}", (Base,), {}) for i in range(N_CLASSES)]


class GenObj:
    def __init__(self, c, fid, k):
        self.c, self.fid, self.k = c, fid, k

    def __len__(self):
        return self.fid % 2


class Sentinel:
    pass


def ty_obj(t):
    if t == 99:
        return None
    if t in NONCLASS:
        return NONCLASS[t]
    if t == 89:
        return type(None)
    return CLASSES[t]


def ty_id(o):
    if o is None:
        return 99
    for i, c in enumerate(CLASSES):
        if o is c:
            return i
    for i, x in NONCLASS.items():
        if o is x or o == x:
            return i
    if o is type(None):
        return 89
    return 77


def val_json(v):
    if v is None:
        return None
    if isinstance(v, GenObj):
        return ["gen", v.c, v.fid, v.k]
    if isinstance(v, Base):
        return ["static", v.n]
    return ["other", repr(v)[:40]]


def err_name(e: BaseException) -> str:
    if isinstance(e, ResourceConflict):
        return "Conflict"
    if isinstance(e, ResourceNotFound):
        return "NotFound"
    if isinstance(e, AsyncResourceError):
        return "AsyncErr"
    if isinstance(e, RuntimeError):
        return "RuntimeErr"
    if isinstance(e, ValueError):
        return "ValueErr"
    if isinstance(e, TypeError):
        return "TypeErr"
    return "Other:" + type(e).__name__


async def settle():
    """Return when every other task is blocked (exact quiescence)."""
    if sniffio.current_async_library() == "trio":
        import trio.testing
        await trio.testing.wait_all_tasks_blocked()
    else:
        import asyncio
        loop = asyncio.get_running_loop()
        n = 0
        while n < 2:
            await asyncio.sleep(0)
            n = n + 1 if len(loop._ready) == 0 else 0


class H:
    """Harness-side handle of one context."""

    def __init__(self, idx, ctx, parent):
        self.idx, self.ctx, self.parent = idx, ctx, parent
        self.state = "inactive"      # what the harness has done to it (not read from asphalt)
        self.entered = anyio.Event()
        self.leave = anyio.Event()
        self.leave_exc = None
        self.in_teardown = anyio.Event()
        self.finish = anyio.Event()
        self.done = anyio.Event()
        self.outcome = None
        self.cb_log = []
        self.events = []
        self.pending = {}            # tok -> record
        self.cm = None
        self.it = None
        self.job = None
        self.job_result = None
        self.job_done = anyio.Event()


class Env:
    def __init__(self, tg, rng):
        self.tg, self.r = tg, rng
        self.hs: list[H] = []
        self.calls = {}              # (ctx, fid) -> n
        self.fkeys = {}              # fid -> (first type, name) it was registered with
        self.ftypes = {}             # fid -> all types it was registered with
        self.current_rec = None
        self.plan = None
        self.local = {}              # ctx -> next local counter
        self.current_ctx = None
        self.current_gate = None
        self.progress = None
        self.next_static = 0
        self.next_cb = 0
        self.next_fid = 0
        self.next_tok = 0
        self.keys_used = []
        self.types_used = set(range(N_CLASSES))

    # ---------- factories
    def make_gen(self, fid):
        c = self.current_ctx
        k = self.local.get(c, 0)
        self.local[c] = k + 1
        self.calls[(c, fid)] = self.calls.get((c, fid), 0) + 1
        if self.current_rec is not None:
            self.current_rec["in_factory"] = True
            self.current_rec["fac_types"] = self.ftypes.get(fid, self.current_rec["fac_types"])
        return GenObj(c, fid, k)

    def make_factory(self, fid, kind):
        env = self
        if kind == "FSync":
            def f():
                return env.make_gen(fid)
        elif kind == "FAsyncImm":
            async def f():
                return env.make_gen(fid)
        else:
            async def f():
                obj = env.make_gen(fid)
                gate = env.current_gate
                await gate.wait()
                return obj
        if kind != "FSync" and fid % 3 == 1:
            # an asynchronous factory need not be an `async def` function: a plain callable
            # returning a coroutine
            inner = f

            def f():          # noqa: F811
                return inner()
        if fid % 5 == 2:
            # a factory callback may be any callable -- a callable dataclass / attrs instance defines __eq__ and
            # is therefore not hashable
            inner2 = f

            class UnhashableFactory:
                __hash__ = None
                plain = staticmethod(inner2)

                def __eq__(self, other):
                    return self is other

                def __call__(self):
                    return inner2()
            f = UnhashableFactory()
        return f

    # ---------- context tasks
    async def ctx_task(self, h: H):
        async def gate_cb():
            h.in_teardown.set()
            await h.finish.wait()
        try:
            async with h.ctx:
                h.ctx.add_teardown_callback(gate_cb)
                h.entered.set()
                while True:
                    await h.leave.wait()
                    if h.job is None:
                        break
                    # run something inside this context's own task (current_context() is h.ctx)
                    h.leave = anyio.Event()
                    job, h.job = h.job, None
                    try:
                        h.job_result = ("ok", await job())
                    except BaseException as e:  # noqa
                        h.job_result = ("exc", e)
                    h.job_done.set()
                if h.leave_exc is not None:
                    raise h.leave_exc
        except BaseException as e:  # noqa
            h.outcome = e
        finally:
            h.done.set()
            h.entered.set()
            h.in_teardown.set()

    # ---------- executing one op
    async def exec(self, op):
        k = op["op"]
        if k == "New":
            p = op["p"]
            try:
                ctx = Context(self.hs[p].ctx) if p is not None else Context()
            except BaseException as e:  # noqa
                return {"k": "Err", "e": err_name(e)}
            h = H(len(self.hs), ctx, p)
            if h.idx % 2 == 0:
                # somebody else listens with a tiny queue and never reads it: their problem alone
                h.by_cm = ctx.resource_added.stream_events(max_queue_size=1)
                h.by_it = await h.by_cm.__aenter__()
            if h.idx % 3 == 0:
                # ... and somebody gave up waiting for an event: they are gone, nothing else
                with anyio.move_on_after(0):
                    await ctx.resource_added.wait_event()
            if h.idx % 3 == 1:
                # ... and somebody's filter is broken (it raises for every event): that listener fails when it
                # looks at what it received, the publisher and the other listeners notice nothing.  It subscribes
                # BEFORE the listeners whose events are compared
                def broken_filter(ev):
                    raise ZeroDivisionError("broken filter")
                h.bf_cm = ctx.resource_added.stream_events(broken_filter, max_queue_size=100000)
                h.bf_it = await h.bf_cm.__aenter__()
            if len(self.hs) >= 2 and h.idx % 3 == 2:
                # ... and somebody followed several contexts at once through ONE stream and has left it again, in
                # the ordinary way: nothing of that listener is left behind in any of them
                async with stream_events([self.hs[0].ctx.resource_added, self.hs[1].ctx.resource_added, ctx.resource_added]):
                    pass
            early_cm = None
            if h.idx % 4 == 1:
                # ... and somebody who subscribed BEFORE the observed listeners leaves while they are still there
                # (listeners come and go in any order, not last-in first-out): they stay subscribed, he is gone
                early_cm = ctx.resource_added.stream_events(max_queue_size=3)
                await early_cm.__aenter__()
            if h.idx % 2:
                # the observed listener subscribes through a signal object it obtained earlier, after an earlier
                # subscription through that very object has come and gone: still the context's channel
                held = ctx.resource_added
                async with held.stream_events():
                    pass
                h.cm = held.stream_events(max_queue_size=100000)
            else:
                h.cm = ctx.resource_added.stream_events(max_queue_size=100000)
            h.it = await h.cm.__aenter__()
            # a listener that reads what it has received only at the very end
            h.lazy_cm = ctx.resource_added.stream_events(max_queue_size=100000)
            h.lazy_it = await h.lazy_cm.__aenter__()
            if early_cm is not None:
                await early_cm.__aexit__(None, None, None)
            self.hs.append(h)
            return {"k": "OK"}
        h = self.hs[op["c"]]
        ctx = h.ctx
        try:
            if k == "Enter":
                if h.state != "inactive":
                    await ctx.__aenter__()     # expected to raise
                    return {"k": "OK"}
                self.tg.start_soon(self.ctx_task, h)
                await h.entered.wait()
                if h.done.is_set():
                    raise h.outcome
                h.state = "open"
                return {"k": "OK"}
            if k == "ExitBegin":
                h.leave_exc = KeyError("block failed") if op.get("exc") else None
                h.leave.set()
                await h.in_teardown.wait()
                h.state = "closing"
                ran, h.cb_log = h.cb_log, []
                return {"k": "Began", "ran": ran}
            if k == "ExitEnd":
                h.finish.set()
                await h.done.wait()
                h.state = "closed"
                ran, h.cb_log = h.cb_log, []
                return {"k": "Exited", "ran": ran, "corrupt": isinstance(h.outcome, RuntimeError),
                        "outcome": type(h.outcome).__name__ if h.outcome is not None else None}
            if k == "AddResource":
                # one object per value number: an operation issued twice registers the very same object again
                vals = self.__dict__.setdefault("vals", {})
                v = None if op["v"] is None else vals.setdefault((op["vty"], op["v"]), CLASSES[op["vty"]](op["v"]))
                kw = {}
                if op["desc"] is not None:
                    kw["description"] = f"d{op['desc']}"
                cb = op["cb"]
                if cb == "bad":
                    kw["teardown_callback"] = 5
                elif cb is not None:
                    kw["teardown_callback"] = make_cb(h, cb)
                types = op["types"]
                if op.get("single") and len(types) == 1:
                    tarr = ty_obj(types[0])
                else:
                    tarr = [ty_obj(t) for t in types]
                args = [v]
                if op["name"] != "default" or op.get("explicit_name") or types:
                    args.append(op["name"])
                if types:
                    args.append(tarr)
                ctx.add_resource(*args, **kw)
                if types and isinstance(tarr, list):
                    tarr.clear()
                return {"k": "OK"}
            if k == "AddFactory":
                facs = self.__dict__.setdefault("facs", {})
                if op["f"] not in facs:
                    facs[op["f"]] = self.make_factory(op["f"], op["kind"])
                f = facs[op["f"]]
                if op["types"]:
                    self.fkeys[op["f"]] = (op["types"][0], op["name"])
                    self.ftypes[op["f"]] = list(op["types"])
                kw = {}
                if op["desc"] is not None:
                    kw["description"] = f"d{op['desc']}"
                types = op["types"]
                if types:
                    kw["types"] = ty_obj(types[0]) if (op.get("single") and len(types) == 1) \
                        else [ty_obj(t) for t in types]
                if not types and hasattr(f, "plain"):
                    f = f.plain      # without `types` the return annotation is consulted: that needs a function
                ctx.add_resource_factory(f, op["name"], **kw)
                if isinstance(kw.get("types"), list):
                    # the caller's list is the caller's: it is emptied (and reused) right after the call
                    kw["types"].clear()
                return {"k": "OK"}
            if k == "GetNowait":
                self.current_ctx = h.idx
                kw = {"optional": True} if op["optional"] else {}
                v = ctx.get_resource_nowait(ty_obj(op["t"]), op["name"], **kw)
                return {"k": "NoneVal"} if v is None else {"k": "Val", "v": val_json(v)}
            if k == "GetBegin":
                self.current_ctx = h.idx
                rec = {"gate": anyio.Event(), "done": anyio.Event(), "result": None, "in_factory": False,
                       "key": (op["t"], op["name"]), "fac_types": [op["t"]]}
                self.current_gate = rec["gate"]
                self.current_rec = rec
                h.pending[op["tok"]] = rec

                async def lookup():
                    try:
                        kw = {"optional": True} if op["optional"] else {}
                        rec["result"] = ("val", await ctx.get_resource(ty_obj(op["t"]), op["name"], **kw))
                    except BaseException as e:  # noqa
                        rec["result"] = ("exc", e)
                    finally:
                        rec["done"].set()
                self.tg.start_soon(lookup)
                await settle()
                self.current_rec = None
                if rec["done"].is_set():
                    del h.pending[op["tok"]]
                    return self.lookup_result(rec)
                return {"k": "Pending"}
            if k == "GetEnd":
                rec = h.pending.pop(op["tok"])
                rec["gate"].set()
                await rec["done"].wait()
                await settle()       # lookups that waited for this generation finish now
                return self.lookup_result(rec)
            if k == "GetResources":
                m = ctx.get_resources(ty_obj(op["t"]))
                return {"k": "Map", "m": [[n, val_json(v)] for n, v in m.items()]}
            if k == "AddTeardown":
                cb = op["cb"]
                if cb == "bad":
                    ctx.add_teardown_callback(5)
                else:
                    ctx.add_teardown_callback(make_cb(h, cb))
                return {"k": "OK"}
        except BaseException as e:  # noqa
            if isinstance(e, (KeyboardInterrupt, SystemExit)):
                raise
            return {"k": "Err", "e": err_name(e)}
        raise AssertionError(k)

    def lookup_result(self, rec):
        kind, x = rec["result"]
        if kind == "exc":
            return {"k": "Err", "e": err_name(x)}
        return {"k": "NoneVal"} if x is None else {"k": "Val", "v": val_json(x)}

    # ---------- probe
    async def probe(self):
        out = []
        for h in self.hs:
            h.ctx.resource_added.dispatch(ResourceEvent((Sentinel,), "sentinel", None, False))
            while True:
                ev = await h.it.__anext__()
                if ev.resource_types == (Sentinel,):
                    break
                h.events.append({"types": [ty_id(t) for t in ev.resource_types], "name": ev.resource_name,
                                 "desc": None if ev.resource_description is None else int(ev.resource_description[1:]),
                                 "is_factory": bool(ev.is_factory),
                                 "source_ok": ev.source is h.ctx and ev.topic == "resource_added"})
            maps = []
            for t in sorted(self.types_used):
                m = h.ctx.get_resources(ty_obj(t))
                maps.append([t, [[n, val_json(v)] for n, v in m.items()]])
            out.append({"closed": bool(h.ctx.closed), "maps": maps, "events": list(h.events),
                        "calls": sorted([self.fkeys[f][0], self.fkeys[f][1], n]
                                        for (c, f), n in self.calls.items() if c == h.idx)})
        return out

    # ---------- generation
    def gen_types(self, r, for_factory):
        k = r.random()
        if k < 0.07:
            bad = r.choice([90, 91] if not for_factory else [99])
            ts = [bad] if r.random() < 0.5 else [r.randrange(N_CLASSES), bad]
        elif k < 0.12 and for_factory:
            ts = [r.choice([90, 91])]
        elif k < 0.6:
            ts = [r.randrange(N_CLASSES)]
        else:
            ts = r.sample(range(N_CLASSES), r.choice([2, 2, 3]))
        return ts

    def gen_name(self, r):
        k = r.random()
        if k < 0.08:
            return r.choice(NAMES_BAD)
        if k < 0.5:
            return "default"
        return r.choice(NAMES_OK)

    def make_plan_shadowed(self, r):
        """A multi-type asynchronous factory whose FIRST type is already taken (here or in the parent) by a regular
        resource of the same name; two lookups of another of its types overlap: the one that waits for the other's
        generation gets the generated object too."""
        t0, t1 = r.sample(range(N_CLASSES), 2)
        name = r.choice(NAMES_OK)
        plan = [{"op": "New", "p": None}, {"op": "Enter", "c": 0},
                {"op": "AddResource", "c": 0, "v": self.next_static, "vty": t0, "name": name, "types": [t0],
                 "single": False, "desc": None, "cb": None}]
        self.next_static += 1
        c = 0
        if r.random() < 0.5:
            plan += [{"op": "New", "p": 0}, {"op": "Enter", "c": 1}]
            c = 1
        plan.append({"op": "AddFactory", "c": c, "f": self.next_fid, "kind": "FAsyncSusp", "name": name,
                     "types": [t0, t1], "single": False, "desc": None})
        self.next_fid += 1
        toks = []
        for _ in range(r.choice([2, 3])):
            plan.append({"op": "GetBegin", "c": c, "tok": self.next_tok, "t": t1, "name": name, "optional": False})
            toks.append(self.next_tok)
            self.next_tok += 1
        plan += [{"op": "GetEnd", "c": c, "tok": t} for t in toks]
        plan.append({"op": "GetNowait", "c": c, "t": t1, "name": name, "optional": False})
        for t in (t0, t1):
            self.note_key(t, name)
        return plan

    def make_plan(self, r):
        """A structured history: build a tree of depth up to 4, enter and leave some leaves, then
        register resources / factories on inner nodes and look every used pair up from EVERY live
        context (and from contexts created afterwards)."""
        plan = [{"op": "New", "p": None}, {"op": "Enter", "c": 0}]
        parents, depth, live = {0: None}, {0: 0}, [0]
        n = 1
        for _ in range(r.choice([2, 3, 4, 5])):
            p = r.choice([c for c in live if depth[c] < 3])
            plan += [{"op": "New", "p": p}, {"op": "Enter", "c": n}]
            parents[n], depth[n] = p, depth[p] + 1
            live.append(n)
            n += 1
        leaves = [c for c in live if c not in parents.values()]
        for c in r.sample(leaves, r.randrange(0, len(leaves) + 1)):
            plan += [{"op": "ExitBegin", "c": c, "exc": r.random() < 0.2}, {"op": "ExitEnd", "c": c}]
            live.remove(c)
        keys = []
        for _ in range(r.choice([1, 2, 3])):
            c = r.choice(live)
            name = r.choice(NAMES_OK)
            if r.random() < 0.6:
                types = r.sample(range(N_CLASSES), r.choice([1, 1, 2]))
                plan.append({"op": "AddFactory", "c": c, "f": self.next_fid, "kind": r.choice(["FSync", "FAsyncImm"]),
                             "name": name, "types": types, "single": False, "desc": None})
                self.next_fid += 1
            else:
                types = r.sample(range(N_CLASSES), r.choice([1, 2]))
                plan.append({"op": "AddResource", "c": c, "v": self.next_static, "vty": types[0], "name": name,
                             "types": types, "single": False, "desc": None, "cb": None})
                self.next_static += 1
            for t in types:
                self.note_key(t, name)
                keys.append((t, name))
            if r.random() < 0.4:
                plan += [{"op": "New", "p": r.choice(live)}]
                live_new = n
                n += 1
                if r.random() < 0.7:
                    plan.append({"op": "Enter", "c": live_new})
                    live.append(live_new)
        for (t, name) in keys:
            for c in live:
                if r.random() < 0.8:
                    k1 = r.random()
                    if k1 < 0.25:
                        # first the synchronous optional lookup, then the asynchronous one: they agree on what is there
                        plan.append({"op": "GetNowait", "c": c, "t": t, "name": name, "optional": True})
                        plan.append({"op": "GetBegin", "c": c, "tok": self.next_tok, "t": t, "name": name,
                                     "optional": r.random() < 0.5})
                        self.next_tok += 1
                    elif k1 < 0.6:
                        plan.append({"op": "GetNowait", "c": c, "t": t, "name": name, "optional": r.random() < 0.5})
                    else:
                        plan.append({"op": "GetBegin", "c": c, "tok": self.next_tok, "t": t, "name": name,
                                     "optional": r.random() < 0.5})
                        self.next_tok += 1
        return plan

    def next_op(self):
        r = self.r
        hs = self.hs
        if self.plan is None:
            k0 = r.random()
            self.plan = self.make_plan_shadowed(r) if k0 < 0.05 else self.make_plan(r) if k0 < 0.38 else []
        if self.plan:
            return self.plan.pop(0)
        if not hs:
            return {"op": "New", "p": None}
        h = r.choice(hs)
        # steer towards useful states
        live = [x for x in hs if x.state in ("open", "closing")]
        if not live and r.random() < 0.75:
            inact = [x for x in hs if x.state == "inactive"]
            if inact:
                return {"op": "Enter", "c": r.choice(inact).idx}
            return {"op": "New", "p": None}
        k = r.random()
        if k < 0.10:
            cands = [x.idx for x in hs if self.root_entered(x)]
            if r.random() < 0.2 or not cands:
                return {"op": "New", "p": None}
            return {"op": "New", "p": r.choice(cands)}
        if k < 0.20:
            inact = [x for x in hs if x.state == "inactive"]
            if inact and r.random() < 0.85:
                return {"op": "Enter", "c": r.choice(inact).idx}
            if r.random() < 0.3:
                return {"op": "Enter", "c": h.idx}
        if k < 0.25:
            op_ = [x for x in hs if x.state == "open"]
            if op_:
                return {"op": "ExitBegin", "c": r.choice(op_).idx, "exc": r.random() < 0.3}
        if k < 0.30:
            cl = [x for x in hs if x.state == "closing"]
            if cl:
                return {"op": "ExitEnd", "c": r.choice(cl).idx}
        if live and r.random() < 0.9:
            h = r.choice(live)
        infac = [(x, t, rec) for x in hs for t, rec in x.pending.items() if rec["in_factory"]]
        if infac and r.random() < 0.12:
            # take, while the factory is running, the pairs its product would be registered under
            x, t, rec = r.choice(infac)
            ftypes, fname = rec["fac_types"], rec["key"][1]
            types = list(ftypes) if r.random() < 0.6 else [rec["key"][0]]
            v = self.next_static
            self.next_static += 1
            vty = next((t_ for t_ in types if t_ < N_CLASSES), r.randrange(N_CLASSES))
            return {"op": "AddResource", "c": x.idx, "v": v, "vty": vty, "name": fname, "types": types,
                    "single": False, "desc": None, "cb": None}
        pend = self.completable()
        if pend and r.random() < 0.25:
            c, t = r.choice(pend)
            return {"op": "GetEnd", "c": c, "tok": t}
        k = r.random()
        if k < 0.27:
            types = [] if r.random() < 0.3 else self.gen_types(r, False)
            vty = r.randrange(N_CLASSES)
            if types and r.random() < 0.6:
                vty = types[0] if types[0] < N_CLASSES else vty
            v = None
            if r.random() > 0.05:
                v = self.next_static
                self.next_static += 1
            else:
                vty = 89
            cbk = r.random()
            cb = None
            if cbk < 0.3:
                cb = self.next_cb
                self.next_cb += 1
            elif cbk < 0.38:
                cb = "bad"
            name = self.gen_name(r)
            for t in (types or [vty]):
                self.note_key(t, name)
            op = {"op": "AddResource", "c": h.idx, "v": v, "vty": vty, "name": name, "types": types,
                  "single": r.random() < 0.5, "desc": r.choice([None, None, 1, 2]), "cb": cb}
            if v is not None and cb is None and r.random() < 0.12:
                # the identical call once more (same object, same types, name and description): a conflict like
                # any other
                self.plan = [dict(op)]
            return op
        if k < 0.45:
            types = self.gen_types(r, True)
            if r.random() < 0.04:
                types = []
            name = self.gen_name(r)
            for t in types:
                self.note_key(t, name)
            f = self.next_fid
            self.next_fid += 1
            op = {"op": "AddFactory", "c": h.idx, "f": f, "kind": r.choice(["FSync", "FSync", "FAsyncImm", "FAsyncSusp"]),
                  "name": name, "types": types, "single": r.random() < 0.5 and types != [99],
                  "desc": r.choice([None, None, 1, 2])}
            if types and types != [99] and r.random() < 0.08:
                self.plan = [dict(op)]          # the same factory callable registered a second time, identically
            return op
        if k < 0.63:
            t, n = self.pick_key(r)
            return {"op": "GetNowait", "c": h.idx, "t": t, "name": n, "optional": r.random() < 0.3}
        if k < 0.82:
            t, n = self.pick_key(r)
            # a lookup that is suspended in its factory in ANOTHER context: ask for the same thing here meanwhile
            # (each context generates its own)
            elsewhere = [rec["key"] for h2 in self.hs if h2 is not h for rec in h2.pending.values() if "key" in rec]
            if elsewhere and r.random() < 0.5:
                t, n = r.choice(elsewhere)
            tok = self.next_tok
            self.next_tok += 1
            return {"op": "GetBegin", "c": h.idx, "tok": tok, "t": t, "name": n, "optional": r.random() < 0.3}
        if k < 0.88:
            return {"op": "GetResources", "c": h.idx, "t": r.choice(sorted(self.types_used))}
        cb = "bad" if r.random() < 0.15 else self.next_cb
        if cb != "bad":
            self.next_cb += 1
        return {"op": "AddTeardown", "c": h.idx, "cb": cb}

    def completable(self):
        """suspended lookups that can be completed now: those inside their factory, and those
        that waited for another task's generation which has finished meanwhile"""
        return [(x.idx, t) for x in self.hs for t, rec in x.pending.items()
                if rec["in_factory"] or rec["done"].is_set()]

    def root_entered(self, h):
        while h.parent is not None:
            h = self.hs[h.parent]
        return h.state != "inactive"

    def note_key(self, t, name):
        if t != 99:
            self.types_used.add(t)
        self.keys_used.append((t, name))

    def pick_key(self, r):
        if self.keys_used and r.random() < 0.85:
            t, n = r.choice(self.keys_used)
            if t == 99:
                t = 0
            return t, n
        return r.randrange(N_CLASSES), r.choice(NAMES_OK)


async def run_case(case):
    steps = []
    async with anyio.create_task_group() as tg:
        env = Env(tg, random.Random(case.get("seed", "0")))
        fixed = case.get("ops")
        if fixed is not None:
            for op in fixed:
                for key in ("t",):
                    if key in op and op[key] != 99:
                        env.types_used.add(op[key])
                for t in op.get("types", []) or []:
                    if t != 99:
                        env.types_used.add(t)
        n = len(fixed) if fixed is not None else case["n"]
        i = 0
        while True:
            if fixed is not None:
                if i >= n:
                    break
                op = fixed[i]
            else:
                if i >= n:
                    # flush suspended lookups so that every task can finish
                    pend = env.completable()
                    if not pend:
                        break
                    op = {"op": "GetEnd", "c": pend[0][0], "tok": pend[0][1]}
                else:
                    op = env.next_op()
            i += 1
            case.setdefault("_trace", []).append(op)
            with anyio.fail_after(20):
                out = await env.exec(op)
                probe = await env.probe()
            steps.append({"op": op, "out": out, "probe": probe})
        # what the late readers have received: the same events, each still saying where it happened
        lazy = []
        for h in env.hs:
            got = []
            with warnings.catch_warnings():
                warnings.simplefilter("ignore")
                h.ctx.resource_added.dispatch(ResourceEvent((Sentinel,), "lazy-end", None, False))
            while True:
                with anyio.fail_after(5):
                    ev = await h.lazy_it.__anext__()
                if ev.resource_types == (Sentinel,):
                    if ev.resource_name == "lazy-end":
                        break
                    continue
                got.append({"types": [ty_id(t) for t in ev.resource_types], "name": ev.resource_name,
                            "is_factory": bool(ev.is_factory),
                            "source_ok": ev.source is h.ctx and ev.topic == "resource_added"})
            lazy.append(got)
        # release everything that is still blocked (not part of the recorded history)
        for h in env.hs:
            for rec in h.pending.values():
                rec["gate"].set()
            h.leave.set()
            h.finish.set()
        tg.cancel_scope.cancel()
    return {"backend": case["backend"], "seed": case.get("seed"), "steps": steps,
            "types_used": sorted(env.types_used), "lazy": lazy}


def main():
    payload = json.load(sys.stdin)
    res = []
    hangs = 0
    for case in payload["cases"]:
        if hangs >= 2:
            # enough: histories do not come to an end any more; do not spend the whole budget on the watchdog
            res.append({"backend": case["backend"], "seed": case.get("seed"), "steps": [], "skipped": True})
            continue
        import time
        t0 = time.time()
        try:
            res.append(guarded_run(run_case, case, backend=case["backend"], seconds=25))
        except BaseException as e:  # noqa
            import traceback
            # an operation that did not return within its 20 s (or the watchdog's 25 s): something waits for ever
            hung = type(e).__name__ == "HarnessHang" or time.time() - t0 > 15
            hangs += hung
            res.append({"backend": case["backend"], "seed": case.get("seed"), "steps": [],
                        "ops": case.get("_trace", []), "crash": traceback.format_exc()[-2000:], "hang": hung})
    print("@@" + json.dumps({"results": res}))


if __name__ == "__main__":
    main()
