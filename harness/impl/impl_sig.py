"""Executes generated signal programs (descriptor access, stream_events / wait_event consumers,
bursts of dispatches, consumers leaving) against the real asphalt.core signals under a lock-step
director, and records the outcome of every operation.  Public API only.

payload: {"cases": [{"seed": str, "n": int, "backend": ...} | {"ops": [...], "backend": ...}]}
op kinds: Access i a | Subscribe [chan] f cap | Wait [chan] f | Burst [[chan, eid, cls]] | Recv sid | Leave sid
          | ClassUse a how | Drop i
"""
from __future__ import annotations

import gc
import json
import random
import sys
import warnings
import weakref
from dataclasses import dataclass

import anyio
from guard import guarded_run  # noqa: E402
import sniffio
from asphalt.core import Event, Signal, SignalQueueFull, UnboundSignal, stream_events, wait_event


class E0(Event):
    def __init__(self, eid):
        self.eid = eid


class E1(E0):
    pass


class E2(E0):
    pass


class E3(E1):
    pass


ECLS = [E0, E1, E2, E3]
ATTRS = ["sig0", "sig1", "sig2"]
ATTR_CLS = [E0, E1, E2]


class OwnerA:
    sig0 = Signal(E0)
    sig1 = Signal(E1)


class OwnerB(OwnerA):          # inherits sig0, sig1
    sig2 = Signal(E2)


@dataclass(frozen=True)
class OwnerV:                  # value-equal, hashable instances
    n: int
    sig0 = Signal(E0)
    sig1 = Signal(E1)
    sig2 = Signal(E2)


class OwnerS:                  # slotted, weak-referenceable
    __slots__ = ("__weakref__",)
    sig0 = Signal(E0)
    sig2 = Signal(E2)


class OwnerF:                  # instances are falsy (an empty container) ...
    sig0 = Signal(E0)
    sig1 = Signal(E1)

    def __len__(self):
        return 0

    # ... and not even equal to themselves (a value object holding a NaN reading): the bound signal belongs to
    # the instance by IDENTITY
    __hash__ = object.__hash__

    def __eq__(self, other):
        return False


class OwnerC(OwnerA):          # instances are made by copy.copy() of another instance whose signals are bound
    pass


class OwnerP:                  # a base class and a subclass each declare a private signal of the same spelling:
    __changed = Signal(E0)     # two different attributes (_OwnerP__changed, _OwnerQ__changed) of one instance


class OwnerQ(OwnerP):
    __changed = Signal(E1)


PRIVATE = {0: "_OwnerP__changed", 1: "_OwnerQ__changed"}
OWNERS = [OwnerA, OwnerB, OwnerV, OwnerS, OwnerF, OwnerC, OwnerQ]


def attr_name(k, a):
    return PRIVATE[a] if k == 6 else ATTRS[a]


def topic_index(topic):
    if topic in ATTRS:
        return ATTRS.index(topic)
    return next((a for a, n in PRIVATE.items() if n == topic), -1)
KEEP = []                      # the originals of copied instances stay alive


def owner_attrs(k):
    if k == 6:
        return [0, 1]
    return [a for a in range(3) if hasattr(OWNERS[k], ATTRS[a])]


def make_owner(k):
    if k == 5:
        import copy
        base = OwnerC()
        base.sig0, base.sig1     # bind the original's signals first
        KEEP.append(base)
        return copy.copy(base)
    return OwnerV(1) if k == 2 else OWNERS[k]()


class FalsyFilter:
    """a callable filter object that is falsy (an empty container of accepted values, say): still a filter"""

    def __init__(self, fn):
        self.fn = fn

    def __call__(self, e):
        return self.fn(e)

    def __len__(self):
        return 0


FILTERS = [None, FalsyFilter(lambda e: e.eid % 2 == 0), lambda e: type(e) in (E1, E3),
           FalsyFilter(lambda e: topic_index(e.topic) == 0)]


async def settle():
    if sniffio.current_async_library() == "trio":
        import trio.testing
        await trio.testing.wait_all_tasks_blocked()
    else:
        import asyncio
        loop = asyncio.get_running_loop()
        n = 0
        while n < 2:
            await asyncio.sleep(0)
            n = n + 1 if len(loop._ready) == 0 else 0


class Consumer:
    def __init__(self, sid):
        self.sid = sid
        self.cmd = None
        self.cmd_ev = anyio.Event()
        self.state = "starting"      # idle | in_next | done
        self.new = []                # events yielded since last collected
        self.done = anyio.Event()
        self.scope = anyio.CancelScope()
        self.error = None


class Env:
    def __init__(self, tg, rng, classes):
        self.tg, self.r = tg, rng
        self.classes = classes                       # owner class index per instance id
        self.insts = [make_owner(k) for k in classes]
        self.refs = [weakref.ref(o) for o in self.insts]
        self.chans = []                              # bound signal objects, in order of first sight
        self.chan_owner = []                         # (inst, attr) per chan (harness bookkeeping for generation)
        self.cons: list[Consumer] = []
        self.next_eid = 0
        self.dropped = set()
        self.dispatched = set()      # instances whose events may still be referenced by queues
        self.ever_subscribed = set()  # channels some stream was ever subscribed to

    def obs_event(self, e):
        src = next((i for i, o in enumerate(self.insts) if o is not None and e.source is o), -1)
        return {"id": e.eid, "cls": ECLS.index(type(e)), "src": src,
                "topic": topic_index(e.topic),
                "time_ok": isinstance(e.time, float)}

    def chan_index(self, sig):
        for i, c in enumerate(self.chans):
            if c is sig:
                return i
        self.chans.append(sig)
        return len(self.chans) - 1

    async def consumer_task(self, c: Consumer, chans, f, cap, oneshot):
        sigs = [self.chans[x] for x in chans]
        flt = FILTERS[f]
        try:
            with c.scope:
                if oneshot:
                    c.state = "in_next"
                    if len(sigs) == 1 and self.r.random() < 0.5:
                        ev = await sigs[0].wait_event(flt)
                    else:
                        ev = await wait_event(sigs, flt)
                    c.new.append(self.obs_event(ev))
                    del ev
                else:
                    if len(sigs) == 1 and self.r.random() < 0.5:
                        cm = sigs[0].stream_events(flt, max_queue_size=cap)
                    else:
                        cm = stream_events(sigs, flt, max_queue_size=cap)
                    async with cm as it:
                        if c.sid % 2 == 1:
                            # the list handed over belongs to the caller, who recycles it while the stream is open:
                            # what the stream subscribed to (and unsubscribes from) was decided when it was entered
                            sigs.clear()
                        c.state = "idle"
                        while True:
                            await c.cmd_ev.wait()
                            c.cmd_ev = anyio.Event()
                            if c.cmd == "exit":
                                break
                            c.state = "in_next"
                            ev = await it.__anext__()
                            c.new.append(self.obs_event(ev))
                            del ev
                            c.state = "idle"
        except BaseException as e:  # noqa
            if not isinstance(e, anyio.get_cancelled_exc_class()):
                c.error = type(e).__name__
            raise
        finally:
            c.state = "done"
            c.done.set()

    def collect(self):
        out = []
        for c in self.cons:
            for e in c.new:
                out.append([c.sid, e])
            c.new = []
        return out

    async def exec(self, op):
        k = op["op"]
        if k == "Access":
            o = self.insts[op["i"]]
            sig = getattr(o, attr_name(self.classes[op["i"]], op["a"]))
            again = getattr(o, attr_name(self.classes[op["i"]], op["a"]))
            idx = self.chan_index(sig)
            if again is not sig:
                return {"k": "Chan", "c": idx, "unstable": True}
            if len(self.chan_owner) <= idx:
                self.chan_owner.append((op["i"], op["a"]))
                if idx % 3 == 0:
                    # somebody subscribed first whose filter is broken (raises for every event): that listener
                    # fails when it looks at its first event; the dispatcher and the other listeners notice nothing
                    async def broken_listener(sig=sig):
                        def broken(ev):
                            raise ZeroDivisionError("broken filter")
                        try:
                            async with sig.stream_events(broken, max_queue_size=100000) as st:
                                async for _ in st:
                                    pass
                        except ZeroDivisionError:
                            pass
                    self.tg.start_soon(broken_listener)
                    await settle()
            return {"k": "Chan", "c": idx}
        if k in ("Subscribe", "Wait"):
            c = Consumer(len(self.cons))
            self.cons.append(c)
            c.chans = list(op["chans"])
            self.tg.start_soon(self.consumer_task, c, op["chans"], op["f"], op.get("cap", 0), k == "Wait")
            await settle()
            if c.error:
                return {"k": "Err", "e": c.error}
            return {"k": "Sub", "sid": c.sid}
        if k == "Burst":
            res = []
            for ch, eid, cls in op["l"]:
                ev = ECLS[cls](eid)
                with warnings.catch_warnings(record=True) as w:
                    warnings.simplefilter("always")
                    try:
                        self.chans[ch].dispatch(ev)
                        n = sum(1 for x in w if issubclass(x.category, SignalQueueFull))
                        other = [x for x in w if not issubclass(x.category, SignalQueueFull)]
                        res.append(["ok", n] if not other else ["exc", "Warning:" + other[0].category.__name__])
                    except TypeError:
                        res.append(["type"])
                    except BaseException as e:  # noqa
                        res.append(["exc", type(e).__name__])
                del ev
            await settle()
            return {"k": "Burst", "r": res, "done": self.collect()}
        if k == "Recv":
            c = self.cons[op["sid"]]
            c.cmd = "next"
            c.cmd_ev.set()
            await settle()
            got = self.collect()
            if got:
                return {"k": "Yield", "e": got[0][1], "extra": got[1:]}
            return {"k": "Blocked"}
        if k == "Leave":
            c = self.cons[op["sid"]]
            if c.state == "idle":
                c.cmd = "exit"
                c.cmd_ev.set()
            else:
                c.scope.cancel()
            with anyio.fail_after(5):
                await c.done.wait()
            await settle()
            return {"k": "Left", "stray": self.collect()}
        if k == "ClassUse":
            decl = getattr(OwnerV, ATTRS[op["a"]])
            try:
                if op["how"] == "HDispatch":
                    decl.dispatch(ATTR_CLS[op["a"]](0))
                elif op["how"] == "HStream":
                    async with decl.stream_events():
                        pass
                else:
                    with anyio.fail_after(2):
                        await decl.wait_event()
                return {"k": "NoError"}
            except UnboundSignal:
                return {"k": "Unbound"}
            except BaseException as e:  # noqa
                return {"k": "Err", "e": type(e).__name__}
        if k == "Drop":
            # the owner must be collectable although its signals were bound (and maybe subscribed)
            i = op["i"]
            cls = type(self.insts[i])
            self.insts[i] = None
            if self.refs[i]() is not None:
                gc.collect()                 # only reference cycles need the collector
            collected = self.refs[i]() is None
            # new instances (one of them very likely at the address of the dead one) have bound signals of
            # their own: none of the channels seen so far, and their events name them as source
            stale = False
            if collected and cls is not OwnerC:
                fresh = []
                for _ in range(60):
                    try:
                        o = cls(1) if cls is OwnerV else cls()
                    except TypeError:
                        break
                    fresh.append(o)
                    for a in range(3):
                        name = attr_name(self.classes[i], a) if a in owner_attrs(self.classes[i]) else None
                        if name is None:
                            continue
                        sig = getattr(o, name)
                        if any(sig is old for old in self.chans):
                            stale = True
                del fresh
            return {"k": "Dropped", "collected": collected, "stale": stale}
        raise AssertionError(k)

    # ---------- generation
    def next_op(self):
        r = self.r
        live = [i for i in range(len(self.insts)) if i not in self.dropped]
        chans_live = [c for c, (i, a) in enumerate(self.chan_owner) if i not in self.dropped]
        active = [c for c in self.cons if c.state in ("idle", "in_next")]
        k = r.random()
        if not chans_live or k < 0.14:
            i = r.choice(live)
            a = r.choice(owner_attrs(self.classes[i]))
            return {"op": "Access", "i": i, "a": a}
        if k < 0.26 and len(self.cons) < 6:
            cs = r.sample(chans_live, min(len(chans_live), r.choice([1, 1, 2, 3])))
            self.ever_subscribed.update(cs)
            return {"op": "Subscribe", "chans": cs, "f": r.choice([0, 0, 1, 2, 3]), "cap": r.choice([0, 1, 1, 2, 3])}
        if k < 0.32 and len(self.cons) < 6:
            cs = r.sample(chans_live, min(len(chans_live), r.choice([1, 1, 2])))
            self.ever_subscribed.update(cs)
            return {"op": "Wait", "chans": cs, "f": r.choice([0, 1, 2, 3])}
        if k < 0.62:
            n = r.choice([1, 1, 1, 2, 3, 5]) if r.random() > 0.04 else r.choice([55, 70])
            l = []
            for _ in range(n):
                ch = r.choice(chans_live)
                a = self.chan_owner[ch][1]
                ok_cls = [c for c in range(4) if issubclass(ECLS[c], ATTR_CLS[a])]
                cls = r.choice(ok_cls) if r.random() > 0.08 else r.randrange(4)
                if ch in self.ever_subscribed:
                    self.dispatched.add(self.chan_owner[ch][0])
                l.append([ch, self.next_eid, cls])
                self.next_eid += 1
            return {"op": "Burst", "l": l}
        if k < 0.84:
            idle = [c for c in active if c.state == "idle"]
            if idle:
                return {"op": "Recv", "sid": r.choice(idle).sid}
        if k < 0.92 and active:
            return {"op": "Leave", "sid": r.choice(active).sid}
        if 0.92 <= k < 0.95:
            return {"op": "ClassUse", "a": r.randrange(3), "how": r.choice(["HDispatch", "HStream", "HWait"])}
        # events hold their source strongly: an owner whose events may still sit in the queue or the frame of a
        # LIVE listener is not expected to go away; once every listener of its channels has left, nothing of
        # them is left behind (unread events included)
        def listeners_gone(i):
            chs = {c for c, (j, a) in enumerate(self.chan_owner) if j == i}
            return all(c.state == "done" for c in self.cons if chs & set(getattr(c, "chans", ())))
        quiet = [i for i in live if i not in self.dispatched or listeners_gone(i)]
        if k < 0.97 and len(live) > 1 and quiet:
            i = r.choice(quiet)
            self.dropped.add(i)
            return {"op": "Drop", "i": i}
        if r.random() < 0.3:
            i = r.choice(live)
            return {"op": "Access", "i": i, "a": r.choice(owner_attrs(self.classes[i]))}
        ch = r.choice(chans_live)
        a = self.chan_owner[ch][1]
        cls = r.choice([c for c in range(4) if issubclass(ECLS[c], ATTR_CLS[a])])
        if ch in self.ever_subscribed:
            self.dispatched.add(self.chan_owner[ch][0])
        self.next_eid += 1
        return {"op": "Burst", "l": [[ch, self.next_eid - 1, cls]]}


async def run_case(case):
    steps = []
    rng = random.Random(case.get("seed", "0"))
    classes = case.get("classes") or [rng.randrange(7) for _ in range(rng.choice([1, 2, 3, 4]))]
    async with anyio.create_task_group() as tg:
        env = Env(tg, rng, classes)
        fixed = case.get("ops")
        n = len(fixed) if fixed is not None else case["n"]
        for i in range(n):
            op = fixed[i] if fixed is not None else env.next_op()
            if op["op"] == "Drop":
                env.dropped.add(op["i"])
            with anyio.fail_after(20):
                out = await env.exec(op)
            steps.append({"op": op, "out": out})
        for c in env.cons:
            c.scope.cancel()
        tg.cancel_scope.cancel()
    return {"backend": case["backend"], "seed": case.get("seed"), "classes": classes, "steps": steps}


def main():
    payload = json.load(sys.stdin)
    res = []
    for case in payload["cases"]:
        try:
            res.append(guarded_run(run_case, case, backend=case["backend"]))
        except BaseException:  # noqa
            import traceback
            res.append({"backend": case["backend"], "seed": case.get("seed"), "steps": [],
                        "crash": traceback.format_exc()[-2000:]})
    print("@@" + json.dumps({"results": res}))


main()
