"""Runs generated teardown programs against real asphalt contexts: callbacks registered through
all four routes (add_teardown_callback method / shortcut, add_resource(teardown_callback=),
@context_teardown, start_service_task finalizers), sync / async / awaitable-returning, with and
without pass_exception, raising Exception / BaseException / groups, registering further
callbacks while they run; the block ends by return, by an exception or by cancellation of an
enclosing scope; root and nested contexts; optionally while an unrelated exception is being
handled.  Records the begin/end trace, the outcome at the `async with` and Context.closed.

payload: {"cases": [{"prog": {...}, "backend": ...}]}"""
from __future__ import annotations

import json
import sys

import anyio
from guard import guarded_run  # noqa: E402
from asphalt.core import Context, add_teardown_callback, context_teardown

EXC_CLASSES, BASE_CLASSES = {}, {}


def exc_class(i, is_exc):
    table = EXC_CLASSES if is_exc else BASE_CLASSES
    if i not in table:
        # every third Exception class is a TypeError (what a wrong call would raise too): what a callback
        # raises is never taken for a sign that it was called wrongly
        base = (TypeError if i % 3 == 0 else Exception) if is_exc else BaseException
        table[i] = type(f"{'E' if is_exc else 'B'}{i}", (base,), {})
    return table[i]


class Awaitable:
    """awaitable, but neither a coroutine nor a future"""

    def __init__(self, coro):
        self.coro = coro

    def __await__(self):
        return self.coro.__await__()


class ResA:
    pass


class ResB:
    pass


class ResAB(ResA, ResB):
    pass


class Run:
    def __init__(self, prog):
        self.prog = prog
        self.trace = []
        self.objs = {}          # id(exception object) -> description

    def make_exc(self, d):
        if "group" in d:
            members = [self.make_exc(x) for x in d["group"]]
            e = BaseExceptionGroup("generated group", members)
        else:
            e = exc_class(d["leaf"], d["is_exc"])(f"exc {d['leaf']}")
        self.objs[id(e)] = (d, e)
        return e

    def describe(self, e):
        if e is None:
            return None
        if id(e) in self.objs and self.objs[id(e)][1] is e:
            return self.objs[id(e)][0]
        if isinstance(e, anyio.get_cancelled_exc_class()):
            return {"leaf": 999, "is_exc": False}
        if isinstance(e, BaseExceptionGroup):
            return {"group": [self.describe(x) for x in e.exceptions]}
        return {"leaf": 998, "is_exc": isinstance(e, Exception), "other": type(e).__name__ + ":" + str(e)[:80]}

    # ---- registration of one callback through its route
    async def register_all(self, ctx, cbs):
        """registers in order; entries marked inside_next are registered from inside the next @context_teardown
        generator, before its yield (they are registered BEFORE it: the generator's own callback is added when
        it yields)"""
        pre = []
        for cb in cbs:
            if cb.get("inside_next"):
                pre.append(cb)
                continue
            await self.register(ctx, cb, pre=pre)
            pre = []
        for cb in pre:
            await self.register(ctx, cb)

    async def register(self, ctx, cb, from_async=True, pre=()):
        route = cb["route"]
        if route != "ctxtd":
            for p in pre:
                await self.register(ctx, p)
        if route == "service":
            await self.register_service(ctx, cb)
            return
        if route == "ctxtd":
            run = self
            if not hasattr(self, "ctxtd_fn"):
                # ONE decorated function, started once per registration with different arguments (as two
                # instances of a component class share one decorated start()): every start has its own second half
                @context_teardown
                async def gen(ctx, cb, pre):
                    for p in pre:
                        await run.register(ctx, p)
                    exc = yield
                    await run.body_async(ctx, cb, True, exc)
                self.ctxtd_fn = gen
            await self.ctxtd_fn(ctx, cb, list(pre))
            return
        fn = self.make_fn(ctx, cb)
        if route == "method":
            if cb["pass"]:
                ctx.add_teardown_callback(fn, pass_exception=True)
            else:
                ctx.add_teardown_callback(fn)
        elif route == "shortcut":
            add_teardown_callback(fn, cb["pass"])
        elif route == "resource":
            if cb["id"] % 2:
                # a resource published under two types has ONE teardown callback
                ctx.add_resource(ResAB(), f"res{cb['id']}", [ResA, ResB], teardown_callback=fn)
            else:
                ctx.add_resource(object(), f"res{cb['id']}", teardown_callback=fn)
        else:
            raise AssertionError(route)

    def register_sync(self, ctx, cb):
        fn = self.make_fn(ctx, cb)
        route = cb["route"]
        if route == "method":
            ctx.add_teardown_callback(fn, cb["pass"])
        elif route == "shortcut":
            add_teardown_callback(fn, cb["pass"])
        elif route == "resource":
            if cb["id"] % 2:
                # a resource published under two types has ONE teardown callback
                ctx.add_resource(ResAB(), f"res{cb['id']}", [ResA, ResB], teardown_callback=fn)
            else:
                ctx.add_resource(object(), f"res{cb['id']}", teardown_callback=fn)
        else:
            raise AssertionError(route)

    async def register_service(self, ctx, cb):
        stop = anyio.Event()
        run = self

        async def service():
            await stop.wait()
            for _ in range(cb["susp"]):
                await anyio.sleep(0)
            run.trace.append({"ev": "End", "id": cb["id"], "how": "ok"})

        if cb["kind"] == "sync":
            def action(*args):
                run.trace.append({"ev": "Begin", "id": cb["id"], "given": len(args) > 0, "arg": None})
                for c in cb["adds"]:
                    run.register_sync(ctx, c)
                stop.set()
        else:
            async def action(*args):
                run.trace.append({"ev": "Begin", "id": cb["id"], "given": len(args) > 0, "arg": None})
                await run.register_all(ctx, cb["adds"])
                stop.set()
        await ctx.start_service_task(service, f"svc{cb['id']}", teardown_action=action)

    def begin(self, cb, args):
        self.trace.append({"ev": "Begin", "id": cb["id"], "given": len(args) > 0,
                           "arg": self.describe(args[0]) if args else None})

    def finish(self, cb, args=()):
        if cb["raises"] is not None:
            if cb.get("raises_same") and args and isinstance(args[0], BaseException):
                e = args[0]            # the callback re-raises the very exception it was handed
            else:
                e = self.make_exc(cb["raises"])
            self.trace.append({"ev": "End", "id": cb["id"], "how": "raised", "exc": cb["raises"]})
            raise e
        self.trace.append({"ev": "End", "id": cb["id"], "how": "ok"})

    async def body_async(self, ctx, cb, given, *args):
        if given:
            self.begin(cb, args)
        else:
            self.begin(cb, ())
        await self.register_all(ctx, cb["adds"])
        try:
            for _ in range(cb["susp"]):
                await anyio.sleep(0)
        except anyio.get_cancelled_exc_class():
            self.trace.append({"ev": "End", "id": cb["id"], "how": "cancelled"})
            raise
        self.finish(cb, args if given else ())

    def make_fn(self, ctx, cb):
        cache = self.__dict__.setdefault("fn_cache", {})
        if cb.get("twin") and cb["id"] in cache:
            return cache[cb["id"]]          # the very same callable object, registered a second time
        fn = self.make_fn_(ctx, cb)
        cache[cb["id"]] = fn
        return fn

    def make_fn_(self, ctx, cb):
        run = self
        if cb["kind"] == "sync":
            def fn(*args):
                run.begin(cb, args)
                for c in cb["adds"]:
                    run.register_sync(ctx, c)
                run.finish(cb, args)
        elif cb["kind"] == "async":
            async def fn(*args):
                await run.body_async(ctx, cb, len(args) > 0, *args)
        if cb["kind"] in ("sync", "async") and cb["id"] % 4 == 3:
            # a callable object (no __name__ / __qualname__, and falsy: an empty container with __call__) is a
            # callback like any other
            inner = fn

            if cb["kind"] == "sync":
                class CallableObject:
                    def __call__(self, *args):
                        return inner(*args)

                    def __len__(self):
                        return 0
            else:
                class CallableObject:
                    async def __call__(self, *args):
                        return await inner(*args)

                    def __bool__(self):
                        return False
            return CallableObject()
        if cb["kind"] in ("sync", "async"):
            return fn
        else:   # a plain function returning an awaitable: a coroutine object, or (odd ids) an object that is
                # awaitable without being a coroutine
            def fn(*args):
                coro = run.body_async(ctx, cb, len(args) > 0, *args)
                return Awaitable(coro) if cb["id"] % 2 else coro
        return fn

    # ---- the block
    async def block(self, ctx):
        await self.register_all(ctx, self.prog["cbs"])
        end = self.prog["ending"]
        if end["k"] == "raise":
            raise self.make_exc(end["exc"])
        if end["k"] == "cancel":
            self.scope.cancel()
            await anyio.sleep_forever()

    async def enter_and_leave(self, make_ctx):
        ctx = make_ctx()
        self.ctx = ctx
        with anyio.CancelScope() as self.scope:
            async with ctx:
                await self.block(ctx)

    async def main(self):
        outcome = None

        async def go():
            if self.prog["root"]:
                await self.enter_and_leave(lambda: Context())
            else:
                async with Context():
                    try:
                        await self.enter_and_leave(lambda: Context())
                    except BaseException as e:  # noqa
                        # do not let it reach the harness's own root context
                        nonlocal outcome
                        outcome = e
        try:
            if self.prog["outer_exc"]:
                try:
                    raise LookupError("unrelated, being handled")
                except LookupError:
                    await go()
            else:
                await go()
        except BaseException as e:  # noqa
            outcome = e
        if self.prog["ending"]["k"] == "cancel":
            out = {"k": "cancelled"}
        elif outcome is None:
            out = {"k": "normal"}
        else:
            # the cause of the group that holds the callbacks' exceptions (one level down in a root)
            cause = outcome.__cause__
            if cause is None and isinstance(outcome, BaseExceptionGroup) and len(outcome.exceptions) == 1:
                cause = outcome.exceptions[0].__cause__
            out = {"k": "raise", "exc": self.describe(outcome), "cause": self.describe(cause)}
        return {"trace": self.trace, "outcome": out, "closed": bool(self.ctx.closed)}


def main():
    payload = json.load(sys.stdin)
    res = []
    for case in payload["cases"]:
        try:
            async def runner():
                with anyio.fail_after(20):
                    return await Run(case["prog"]).main()
            r = guarded_run(runner, backend=case["backend"])
            r["backend"] = case["backend"]
            r["prog"] = case["prog"]
            res.append(r)
        except BaseException:  # noqa
            import traceback
            res.append({"backend": case["backend"], "prog": case["prog"], "crash": traceback.format_exc()[-2000:]})
    print("@@" + json.dumps({"results": res}))


main()
