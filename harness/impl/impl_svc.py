"""Runs generated owner-context programs (teardown callbacks and service tasks with every kind of
teardown action and behaviour, in a root or a nested context) under the lock-step director and
records, per step, the enabled gates and the batch of observations.

payload: {"cases": [{"svcs": [...], "prog": [...], "nested": bool, "choices": [...], "backend": ...}]}"""
from __future__ import annotations

import json
import os
import sys

sys.path.insert(0, os.path.dirname(os.path.abspath(__file__)))
import anyio  # noqa: E402
from guard import guarded_run  # noqa: E402
from asphalt.core import Context, add_teardown_callback, get_resource_nowait, start_service_task  # noqa: E402
from director import Director, backend_options, settle  # noqa: E402


class Crash(Exception):
    pass


class BlockError(Exception):
    """the owner's block ends with this exception instead of falling off its end"""


class Marker:
    def __init__(self, tag):
        self.tag = tag


class CallableAction:
    """A teardown action that is neither a function nor a partial: an object with __call__."""

    def __init__(self, fn):
        self.fn = fn

    def __call__(self):
        return self.fn()

    def __bool__(self):
        # ... and falsy (a stop switch whose truth value means "stop requested"): still the action to call
        return False


def make_task(d, sid, sv, stop, snapshot_bad):
    async def cleanup():
        with anyio.CancelScope(shield=True):
            for _ in range(sv["cleanup"]):
                await d.gate(f"T{sid}")
                d.obs("Clean", sid)

    async def task():
        d.obs("Started", sid)
        # the task's own context is a snapshot taken when the task was started: what the owner registered before
        # the call is there, what it registers after the call has returned (even without a checkpoint) is not
        before = get_resource_nowait(Marker, f"before{sid}", optional=True)
        after = get_resource_nowait(Marker, f"after{sid}", optional=True)
        if before is None or after is not None:
            snapshot_bad.append([sid, before is not None, after is not None])

        async def own_context_teardown():
            # runs when the task's own context is torn down, after the task function is over;
            # only then has the task finished
            with anyio.CancelScope(shield=True):
                for _ in range(sv.get("ctx", 0)):
                    await d.gate(f"T{sid}")
                    d.obs("CtxSeg", sid)
            d.obs("Finished", sid)
        if sv.get("ctx", 0):
            add_teardown_callback(own_context_teardown)
        else:
            add_teardown_callback(lambda: d.obs("Finished", sid))
        try:
            for i in range(sv["run"]):
                await d.gate(f"T{sid}")
                d.obs("Seg", sid)
                if sv.get("crash") == i + 1:
                    raise Crash(sid)
            if stop.is_set():
                d.obs("StopSeen", sid)
                await cleanup()
            elif sv["ends"]:
                return
            else:
                await stop.wait()
                d.obs("StopSeen", sid)
                await cleanup()
        except anyio.get_cancelled_exc_class():
            d.obs("CancelSeen", sid)
            await cleanup()
            if sv.get("crash_on_cancel"):
                raise Crash(sid)      # its cleanup fails: the exception must not vanish
            raise
        finally:
            # ... and it is still that snapshot when the task ends, however much later: neither the resources nor the
            # resource FACTORIES the owner registered after the call have become visible; the factories registered
            # before it work
            late = [get_resource_nowait(Marker, f"after{sid}", optional=True),
                    get_resource_nowait(Marker, f"afterfac{sid}", optional=True)]
            early = get_resource_nowait(Marker, f"beforefac{sid}", optional=True)
            if early is None or any(x is not None for x in late):
                snapshot_bad.append([sid, early is not None, any(x is not None for x in late)])
    return task


async def run_case(case):
    d = Director()
    svcs, prog = case["svcs"], case["prog"]
    choices = list(case["choices"])
    steps = []
    result = {"left": False, "outcome": None}
    snapshot_bad = []
    done = anyio.Event()

    async def owner_body(ctx):
        deferred = None
        for bi, b in enumerate(prog):
            await d.gate("B")
            if b[0] == "RegCb" and b[1] % 3 == 0 and bi + 1 < len(prog) and prog[bi + 1][0] == "StartSvc":
                # this callback is registered (by another task) while the next service task is still coming
                # up: it is registered BEFORE the task has started, so it is torn down after it
                deferred = b[1]
            elif b[0] == "RegCb":
                if b[1] % 2:
                    ctx.add_teardown_callback(lambda i=b[1]: d.obs("TdBegin", i))
                else:
                    add_teardown_callback(lambda i=b[1]: d.obs("TdBegin", i))
            elif b[0] == "StartSvc":
                sid = b[1]
                sv = svcs[sid]
                stop = anyio.Event()
                ctx.add_resource(Marker("before"), f"before{sid}")
                ctx.add_resource_factory(lambda: Marker("beforefac"), f"beforefac{sid}", types=[Marker])
                act = sv["action"]
                if act == "ACancel":
                    ta = "cancel"
                elif act == "ANone":
                    ta = None
                else:
                    raises = act == "ACallRaises"
                    if sv.get("async_action"):
                        async def ta(sid=sid, stop=stop, raises=raises):
                            d.obs("ActionInvoked", sid)
                            if raises:
                                raise RuntimeError("teardown action failed")
                            stop.set()
                    else:
                        def ta(sid=sid, stop=stop, raises=raises):
                            d.obs("ActionInvoked", sid)
                            if raises:
                                raise RuntimeError("teardown action failed")
                            stop.set()
                            # a synchronous action may hand back anything (`Event.set` style functions return None,
                            # others a count or a flag): only an awaitable is awaited
                            return [None, True, 0, "stopping"][sid % 4]
                if callable(ta) and sv.get("async_action") and sid % 2 == 0:
                    # an asynchronous teardown action need not be a coroutine function: a plain callable
                    # handing back a coroutine
                    inner_ta = ta

                    def ta(inner_ta=inner_ta):
                        return inner_ta()
                elif callable(ta) and sid % 3 == 1:
                    # "(function, or any callable ...)": an instance with __call__ (sync or async as above)
                    ta = CallableAction(ta)
                if deferred is not None:
                    x, deferred = deferred, None
                    window = anyio.Event()
                    inner_task = make_task(d, sid, sv, stop, snapshot_bad)

                    async def slow_start(*, task_status, inner_task=inner_task, window=window):
                        await window.wait()
                        task_status.started()
                        await inner_task()

                    async def registrar(x=x, window=window):
                        ctx.add_teardown_callback(lambda i=x: d.obs("TdBegin", i))
                        window.set()
                    async with anyio.create_task_group() as ltg:
                        ltg.start_soon(registrar)
                        await ctx.start_service_task(slow_start, "service", teardown_action=ta)
                elif sid % 2 and helper.get("ready"):
                    # the call is made on the owning context by a task whose current context is another
                    # one (the outer context): the task belongs to the context whose method was called
                    helper["job"] = (ctx, make_task(d, sid, sv, stop, snapshot_bad), "service", ta)
                    helper["done"] = anyio.Event()
                    helper["go"].set()
                    await helper["done"].wait()
                    if helper.get("error"):
                        raise helper["error"]
                elif sid % 2:
                    await ctx.start_service_task(make_task(d, sid, sv, stop, snapshot_bad), "service", teardown_action=ta)
                else:
                    await start_service_task(make_task(d, sid, sv, stop, snapshot_bad), "service", teardown_action=ta)
                ctx.add_resource(Marker("after"), f"after{sid}")       # straight after the call, no checkpoint
                ctx.add_resource_factory(lambda: Marker("afterfac"), f"afterfac{sid}", types=[Marker])
            # EndBlock: fall out of the loop body -> the block ends
        if case.get("block_raises"):
            raise BlockError()

    helper = {}

    async def helper_task():
        helper["go"] = anyio.Event()
        helper["ready"] = True
        while True:
            await helper["go"].wait()
            helper["go"] = anyio.Event()
            c, fn, name, ta = helper["job"]
            try:
                await c.start_service_task(fn, name, teardown_action=ta)
            except BaseException as e:  # noqa
                helper["error"] = e
            helper["done"].set()

    async def owner():
        try:
            if case["nested"]:
                async with Context():
                    async with anyio.create_task_group() as htg:
                        htg.start_soon(helper_task)          # its current context is the outer one
                        await anyio.sleep(0)
                        await anyio.sleep(0)
                        try:
                            try:
                                async with Context() as ctx:
                                    await owner_body(ctx)
                            except BlockError:
                                pass       # the block's own exception came out, as itself, after the teardown
                            d.obs("Left")
                            result["left"] = True
                        finally:
                            htg.cancel_scope.cancel()
            elif False:
                async with Context():
                    async with Context() as ctx:
                        await owner_body(ctx)
                    d.obs("Left")
                    result["left"] = True
            else:
                try:
                    async with Context() as ctx:
                        await owner_body(ctx)
                except BlockError:
                    pass
                d.obs("Left")
                result["left"] = True
        except BaseException as e:  # noqa
            result["outcome"] = describe(e)
            if isinstance(e, anyio.get_cancelled_exc_class()):
                raise
        finally:
            done.set()

    async with anyio.create_task_group() as tg:
        tg.start_soon(owner)
        await settle()
        first = d.drain()
        gates = list(case.get("gates") or [])
        while choices or gates:
            en = sorted(d.waiting, key=lambda g: (g != "B", int(g[1:]) if g != "B" else 0))
            if not en:
                break
            if gates:
                g = gates.pop(0)
                if g not in en:
                    continue
            else:
                g = en[choices.pop(0) % len(en)]
            d.open(g)
            await settle()
            steps.append({"enabled": en, "fired": g, "obs": d.drain()})
        await settle()
        late = d.drain()
        still = sorted(d.waiting)
        if not done.is_set():
            tg.cancel_scope.cancel()
    return {"backend": case["backend"], "svcs": svcs, "prog": prog, "nested": case["nested"],
            "choices": case["choices"], "first": first, "steps": steps, "left": result["left"],
            "outcome": result["outcome"], "late": late, "still_waiting": still, "snapshot_bad": snapshot_bad,
            "block_raises": bool(case.get("block_raises"))}


def describe(e):
    if isinstance(e, BaseExceptionGroup):
        return {"group": [describe(x) for x in e.exceptions]}
    if isinstance(e, Crash):
        return {"crash": e.args[0]}
    return {"other": type(e).__name__}


def main():
    payload = json.load(sys.stdin)
    res = []
    for case in payload["cases"]:
        try:
            async def runner():
                with anyio.fail_after(30):
                    return await run_case(case)
            res.append(guarded_run(runner, backend=case["backend"], backend_options=backend_options(case["backend"])))
        except BaseException:  # noqa
            import traceback
            res.append({"backend": case["backend"], "svcs": case["svcs"], "prog": case["prog"],
                        "nested": case["nested"], "choices": case["choices"], "crash": traceback.format_exc()[-2500:]})
    print("@@" + json.dumps({"results": res}))


if __name__ == "__main__":
    main()
