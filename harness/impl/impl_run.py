"""Runs generated applications through the real run_application(): a tree of components whose
prepare()/start() execute scripted actions (register teardown callbacks on the root context, start
service tasks, fail, hang until the startup timeout, raise a termination signal), followed by an
after-startup script (run() of a CLI root component, or a driver task for a plain application) that
ends the application one way or another.  Records the order in which the actions really executed,
what every teardown callback saw, and how run_application() ended.

payload: {"cases": [{"backend":..., "cli": bool, "tree": {...}, "after": [...], "ending": [...]}]}"""
from __future__ import annotations

import json
import logging
import os
import signal
import sys
import warnings

sys.path.insert(0, os.path.dirname(os.path.abspath(__file__)))
import anyio  # noqa: E402
from asphalt.core import (  # noqa: E402
    CLIApplicationComponent,
    Component,
    context_teardown,
    current_context,
    run_application,
    start_service_task,
)

SIGNALS = {"INT": signal.SIGINT, "TERM": signal.SIGTERM}


class Boom(Exception):
    """raised by a component during startup"""


class Doom(BaseException):
    """raised by a component during startup; not an Exception"""


class Crash(Exception):
    """raised by a service task"""


class RunError(Exception):
    """raised by run()"""


class NotAnInt:
    pass


class CallableObject:
    """a callback may be any callable: this one is an (empty) container too, hence falsy"""
    def __init__(self, ran, pass_exc):
        self.ran, self.pass_exc = ran, pass_exc

    def __len__(self):
        return 0

    def __call__(self, *args):
        if self.pass_exc:
            self.ran("none" if args[0] is None else describe(args[0]))
        else:
            self.ran("noarg")


class TdA:
    pass


class TdB:
    pass


class TdRes(TdA, TdB):
    pass


@context_teardown
async def shared_second_half(ran):
    exc = yield
    ran("none" if exc is None else describe(exc))


class TdErr(TypeError):
    """raised by a teardown callback AFTER it has done its work -- a TypeError, as a bug like `time() - None` in its
    last line would be: an exception like any other"""


class Lease:
    """an object nobody but the teardown stack refers to: its bound method is the callback"""
    def __init__(self, ran, pass_exc):
        self.ran, self.pass_exc = ran, pass_exc

    def release(self, exception=None):
        self.ran(("none" if exception is None else describe(exception)) if self.pass_exc else "noarg")


class Awaitable:
    """awaitable, but neither a coroutine nor a future"""

    def __init__(self, coro):
        self.coro = coro

    def __await__(self):
        return self.coro.__await__()


def describe(e):
    if isinstance(e, BaseExceptionGroup):
        return {"group": [describe(x) for x in e.exceptions]}
    if isinstance(e, Crash):
        return {"crash": e.args[0]}
    if isinstance(e, RunError):
        return {"runerror": e.args[0]}
    if isinstance(e, TdErr):
        return {"td": e.args[0]}
    if isinstance(e, (Boom, Doom)):
        return {"boom": e.args[0]}
    if isinstance(e, SystemExit):
        return {"exit": e.code}
    return {"other": type(e).__name__, "text": str(e)[:200]}


class World:
    """everything one application run shares"""

    def __init__(self, case):
        self.case = case
        self.log = []
        self.started = False
        self.go = {}            # sid -> Event telling the service task to crash
        self.svc_started = set()
        self.root_ctx = None

    def obs(self, *o):
        self.log.append(list(o))


WORLD: World = None  # type: ignore[assignment]


class StartedHandler(logging.Handler):
    def emit(self, record):
        if record.getMessage() == "Application started" and WORLD is not None and not WORLD.started:
            WORLD.started = True
            WORLD.obs("Started")


async def do_action(a, who):
    w = WORLD
    k = a[0]
    if k == "Reg":
        cid, pass_exc = a[1], a[2]
        kids = a[3] if len(a) > 3 else []
        ctx = current_context() if who != "driver" else w.root_ctx

        def register(ctx, cid, pass_exc, kids, top=False):
            def ran(arg):
                w.obs("Td", cid, arg)
                for kid, kpass in kids:          # registered while the teardown is running
                    register(ctx, kid, kpass, [])
                if cid in (w.case.get("raisers") or []):
                    raise TdErr(cid)             # the callback fails: the others still run, and this comes out
            if cid % 7 == 3 and not pass_exc and cid % 3 != 2 and cid % 5 != 4 and cid % 4 != 1:
                # the callback comes with a resource published under two types: ONE callback, called once
                ctx.add_resource(TdRes(), f"tdres{cid}", [TdA, TdB],
                                 teardown_callback=CallableObject(ran, False) if cid % 2 else (lambda: ran("noarg")))
            elif cid % 4 == 1 and cid % 3 != 2 and pass_exc and top and who != "driver":
                # the second half of a @context_teardown function -- ONE decorated function shared by every such
                # registration of the run, as the components of one class share their start()
                return ("ctxtd", ran)
            elif cid % 3 == 2:
                # the callback hands back an awaitable that is not a coroutine: its work is done when that has
                # been awaited
                def later(arg):
                    ran(arg)

                    async def work():
                        await anyio.sleep(0)
                        w.obs("TdDone", cid)
                    return Awaitable(work())
                if pass_exc:
                    ctx.add_teardown_callback(lambda exc: later("none" if exc is None else describe(exc)),
                                              pass_exception=True)
                else:
                    ctx.add_teardown_callback(lambda: later("noarg"))
            elif cid % 5 == 4:
                # a callable object (no __name__ / __qualname__) is a callback like any other
                ctx.add_teardown_callback(CallableObject(ran, pass_exc), pass_exception=pass_exc)
            elif cid % 2 == 0:
                # the bound method of an object only the teardown stack refers to; callable with or without the
                # exception argument (`def release(self, exception=None)`)
                import gc
                ctx.add_teardown_callback(Lease(ran, pass_exc).release, pass_exception=pass_exc)
                gc.collect()
            elif pass_exc:
                ctx.add_teardown_callback(lambda exc: ran("none" if exc is None else describe(exc)), pass_exception=True)
            else:
                ctx.add_teardown_callback(lambda: ran("noarg"))
        deferred = register(ctx, cid, pass_exc, kids, top=True)
        if deferred:
            await shared_second_half(deferred[1])
        w.obs("Reg", cid, bool(pass_exc), kids)
    elif k == "Svc":
        sid = a[1]
        go = w.go[sid] = anyio.Event()

        async def svc(sid=sid, go=go):
            try:
                await go.wait()
            except anyio.get_cancelled_exc_class():
                # a task cancelled while start_service_task() was itself being cancelled never became
                # a service task of the root context
                w.obs("SvcCancelled" if sid in w.svc_started else "SvcAborted", sid)
                if len(a) > 2 and a[2] == "raise_on_cancel":
                    raise Crash(sid) from None      # its cleanup fails: the exception must not vanish
                raise
            w.obs("Crash", sid)
            raise Crash(sid)
        if who == "driver":
            await w.root_ctx.start_service_task(svc, f"svc{sid}")
        else:
            await start_service_task(svc, f"svc{sid}")
        w.svc_started.add(sid)
        w.obs("Svc", sid)
    elif k == "Fail":
        w.obs("Fail", who)
        raise Boom(who)
    elif k == "FailBase":
        w.obs("Fail", who)
        raise Doom(who)
    elif k == "Linger":
        # busy until told to stop; then its cleanup fails
        try:
            await anyio.sleep(a[1] if len(a) > 1 else 0.3)
        except anyio.get_cancelled_exc_class():
            w.obs("Fail", who)
            raise Boom(who) from None
    elif k == "Hang":
        w.obs("Hang")
        await anyio.sleep(3600)
        w.obs("HangOver")
    elif k == "Sig":
        w.obs("Sig", a[1])
        signal.raise_signal(SIGNALS[a[1]])
        if not w.started:
            # the startup is to be cancelled: wait for it (bounded, so that a tree that ignores the
            # signal is seen to ignore it instead of running into the startup timeout)
            await anyio.sleep(a[2] if len(a) > 2 else 1.0)
            w.obs("SigIgnored")
    elif k == "Crash":
        sid = a[1]
        if sid in w.go:
            w.go[sid].set()
            await anyio.sleep(1.0)          # the crash takes the application down: we get cancelled
            w.obs("CrashIgnored", sid)
    elif k == "Yield":
        await anyio.sleep(0)
    elif k == "Wait":
        # after a signal a CLI application keeps running: give the handler task time to act
        for _ in range(20):
            await anyio.sleep(0)
    else:
        raise AssertionError(a)


class Node(Component):
    def __init__(self, spec=None, path="root"):
        self.spec = spec or WORLD.case["tree"]
        self.path = path
        for i, ch in enumerate(self.spec.get("children", [])):
            self.add_component(f"c{i}", Node, spec=ch, path=f"{path}.c{i}")

    async def prepare(self):
        if self.path == "root":
            WORLD.root_ctx = current_context()
        for a in self.spec.get("prepare", []):
            await do_action(a, self.path)

    async def start(self):
        for a in self.spec.get("start", []):
            await do_action(a, self.path)
        if self.path == "root" and not WORLD.case["cli"]:
            await start_service_task(driver, "driver")


class CliNode(Node, CLIApplicationComponent):
    async def run(self):
        w = WORLD
        for a in w.case["after"]:
            await do_action(a, "run")
        e = w.case["ending"]
        w.obs("RunEnds", *e)
        if e[0] == "Raise":
            raise RunError(e[1])
        if e[1] == "none":
            return None
        if e[1] == "int":
            return e[2]
        if e[1] == "bool":
            return bool(e[2])
        if e[1] == "str":
            return str(e[2])
        if e[1] == "float":
            return float(e[2])
        return NotAnInt()


async def driver():
    """the after-startup script of a plain application runs in a service task of its own"""
    w = WORLD
    for _ in range(2000):
        if w.started:
            break
        await anyio.sleep(0.001)
    else:
        w.obs("NeverStarted")
        return
    for a in w.case["after"]:
        await do_action(a, "driver")
    # nothing ended the application: stop it so that the harness does not hang
    await anyio.sleep(0.3)
    w.obs("DriverGaveUp")
    raise RuntimeError("the application did not end")


class NeverEnded(BaseException):
    """real-time watchdog: the application is still running long after everything in its script has happened"""


def _alarm(signum, frame):
    raise NeverEnded()


def run_case(case):
    global WORLD
    WORLD = w = World(case)
    lg = logging.getLogger("asphalt.core")
    h = StartedHandler()
    lg.addHandler(h)
    old_level = lg.level
    lg.setLevel(logging.INFO)
    lg.propagate = False
    result = {k: case.get(k) for k in ("backend", "cli", "tree", "after", "ending", "raisers")}
    old_int, old_term = signal.getsignal(signal.SIGINT), signal.getsignal(signal.SIGTERM)
    try:
        with warnings.catch_warnings(record=True) as caught:
            warnings.simplefilter("always")
            try:
                root = CliNode if case["cli"] else Node
                if len(json.dumps(case["tree"])) % 2:
                    # the root component named the way `asphalt run` names it: by a module:attribute reference
                    root = f"{root.__module__}:{root.__qualname__}"
                old_alarm = signal.signal(signal.SIGALRM, _alarm)
                signal.setitimer(signal.ITIMER_REAL, 15)
                try:
                    ret = run_application(root, {}, backend=case["backend"], logging=None,
                                          start_timeout=case.get("timeout", 30))
                finally:
                    signal.setitimer(signal.ITIMER_REAL, 0)
                    signal.signal(signal.SIGALRM, old_alarm)
                outcome = {"return": repr(ret)}
            except NeverEnded:
                outcome = {"never_ended": True}
            except SystemExit as e:
                outcome = {"exit": e.code if isinstance(e.code, int) and not isinstance(e.code, bool) else repr(e.code)}
            except BaseException as e:  # noqa
                outcome = {"raised": describe(e)}
        result["warnings"] = sorted(str(x.message)[:60] for x in caught
                                    if "exit code" in str(x.message) or "run() must" in str(x.message))
    finally:
        lg.removeHandler(h)
        lg.setLevel(old_level)
        lg.propagate = True
        signal.signal(signal.SIGINT, old_int)
        signal.signal(signal.SIGTERM, old_term)
    result["log"] = w.log
    result["outcome"] = outcome
    WORLD = None
    return result


def main():
    payload = json.load(sys.stdin)
    out = []
    never = 0
    for case in payload["cases"]:
        if never >= 2:
            # enough: applications do not end any more; do not spend the whole budget waiting for the watchdog
            out.append({**{k: case.get(k) for k in ("backend", "cli", "tree", "after", "ending", "raisers")}, "skipped": True})
            continue
        try:
            out.append(run_case(case))
            never += bool(out[-1].get("outcome", {}).get("never_ended"))
        except BaseException as e:  # noqa
            import traceback
            out.append({**{k: case.get(k) for k in ("backend", "cli", "tree", "after", "ending", "raisers")},
                        "crash": traceback.format_exc()[-1500:]})
    print("@@" + json.dumps({"results": out}))


if __name__ == "__main__":
    main()
