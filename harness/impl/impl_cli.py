"""Drives the real `asphalt run` command line in-process (click.testing.CliRunner) on generated
configuration files, --set overrides, --service and ASPHALT_SERVICE, and records what is handed to
run_application (intercepted where the command calls it) or the error that is reported.

payload: {"cases": [{"files": [yaml text...], "args": [...], "env": str|None, "extra_env": {..}}]}"""
from __future__ import annotations

import json
import os
import sys
import tempfile
from pathlib import Path
from unittest.mock import patch

from click.testing import CliRunner

from asphalt.core import _cli

ERRS = [
    ("Configuration must be set with '='", "ENoEq"),
    ("Cannot apply override", "ENotMapping"),
    ('The "services" key must be a dict', "EServicesType"),
    ("No services have been defined", "ENoServices"),
    ("has not been defined", "EServiceUndefined"),
    ("Multiple services present", "EMultiNoDefault"),
    ("missing the 'component' key", "ENoComponent"),
    ("missing the 'type' key", "ENoType"),
]


def jsonable(x):
    if isinstance(x, bytes):
        return {"__bytes__": x.decode("latin1")}
    if isinstance(x, dict):
        return {str(k): jsonable(v) for k, v in x.items()}
    if isinstance(x, (list, tuple)):
        return [jsonable(v) for v in x]
    return x


def run_case(case, tmp):
    paths = []
    for i, text in enumerate(case["files"]):
        p = Path(tmp) / f"conf{i}.yaml"
        p.write_text(text)
        paths.append(str(p))
    calls = []

    def recorder(component, config=None, **kwargs):
        calls.append({"type": jsonable(component), "cfg": jsonable(config), "kwargs": jsonable(kwargs)})

    env = {"ASPHALT_SERVICE": case.get("env")}
    env.update(case.get("extra_env") or {})
    runner = CliRunner()
    with patch.object(_cli, "run_application", recorder):
        result = runner.invoke(_cli.run, paths + case["args"], env=env)
    text = ""
    for attr in ("output", "stderr", "stdout"):
        try:
            text += getattr(result, attr) or ""
        except Exception:  # noqa
            pass
    if calls:
        if len(calls) > 1 or result.exit_code != 0:
            return {"k": "err", "e": "ECrash", "detail": f"calls={len(calls)} exit={result.exit_code}"}
        return {"k": "launch", **calls[0]}
    if result.exit_code == 0:
        return {"k": "err", "e": "ECrash", "detail": "exit 0 without starting anything"}
    for needle, name in ERRS:
        if needle in text:
            return {"k": "err", "e": name}
    return {"k": "err", "e": "ECrash", "detail": (repr(result.exception) + " | " + text)[:300]}


def main():
    payload = json.load(sys.stdin)
    out = []
    os.environ.pop("ASPHALT_SERVICE", None)
    with tempfile.TemporaryDirectory(dir=os.environ.get("VERIF_SCRATCH") or None) as tmp:
        for case in payload["cases"]:
            try:
                out.append(run_case(case, tmp))
            except BaseException as e:  # noqa
                out.append({"k": "crash", "detail": repr(e)[:300]})
    print("@@" + json.dumps({"obs": out}))


main()
