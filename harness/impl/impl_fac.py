"""Runs generated task-factory programs under the lock-step director: a factory is started in an
owning context (root or nested); tasks are spawned with start_task / start_task_soon from several
contexts (the owner's, a child of it, another factory task), run gated segments and return / raise /
are cancelled through their handle; the owner is torn down when the director says so.  After every
step: the batch of observations and all_task_handles().

payload: {"cases": [{"verdict": null|true|false, "nested": bool, "gates": [...], "backend": ...}]}
gate: ["Spawn", segs, ending, how, from] | ["Task", k] | ["Cancel", k] | ["Teardown"]"""
from __future__ import annotations

import json
import os
import sys

sys.path.insert(0, os.path.dirname(os.path.abspath(__file__)))
import anyio  # noqa: E402
from guard import guarded_run  # noqa: E402
from asphalt.core import Context, current_context, start_background_task_factory  # noqa: E402
from director import Director, backend_options, settle  # noqa: E402


class TaskError(Exception):
    pass


class FalsyHandler:
    """an exception handler that is a callable object and falsy (it is also the empty list of what it has seen)"""

    def __init__(self, fn):
        self.fn = fn

    def __call__(self, exc):
        return self.fn(exc)

    def __len__(self):
        return 0


class CallableTask:
    """a task target may be any callable returning a coroutine -- an instance of a class with value equality (a
    plain dataclass, say) is not hashable"""
    __hash__ = None

    def __init__(self, fn):
        self.fn = fn

    def __eq__(self, other):
        return isinstance(other, CallableTask) and self.fn is other.fn

    async def __call__(self):
        return await self.fn()


async def run_case(case):
    d = Director()
    verdict = case["verdict"]
    steps = []
    result = {"outcome": None, "left": False}
    st = {"tf": None, "owner": None, "fctx": None, "handles": [], "cmd": None, "cmd_ev": anyio.Event(),
          "cmd_done": anyio.Event(), "spawn_err": None, "cancel_req": set()}
    done = anyio.Event()

    def handler(exc):
        found = []

        def walk(x):
            if isinstance(x, BaseExceptionGroup):
                for y in x.exceptions:
                    walk(y)
            elif isinstance(x, TaskError):
                found.append(x)
        walk(exc)
        k = found[0].args[0] if found else -1
        d.obs("Handler", k[0] if isinstance(k, tuple) else k, k[1] if isinstance(k, tuple) else -1)
        return verdict

    def make_task(k, segs, ending, oncancel=None):
        async def task():
            ctx = current_context()
            if st["fctx"] is None:
                st["fctx"] = ctx.parent
            d.obs("Spawned", k, ctx.parent is st["fctx"] and ctx.parent is not None and ctx.parent.parent is st["owner"])
            try:
                for _ in range(segs):
                    await d.gate(f"T{k}")
                    d.obs("Seg", k)
            except anyio.get_cancelled_exc_class():
                d.obs("CancelSeen", k)
                if oncancel is not None and k in st["cancel_req"]:
                    # something (a finally block, say) raises while the task unwinds from cancel()
                    raise TaskError((k, oncancel))
                raise
            if ending[0] == "ERaise":
                if k % 2:
                    # the Exception escapes the task while its own context is being torn down
                    def failing_cleanup():
                        raise TaskError((k, ending[1]))
                    ctx.add_teardown_callback(failing_cleanup)
                    return
                raise TaskError((k, ending[1]))
        return task

    async def watcher(k, handle, tg):
        # several tasks wait for the same handle at the same time: each of them returns once the task has ended
        n = 2 + k % 2
        back = []

        async def one():
            await handle.wait_finished()
            back.append(1)
            if len(back) == n:
                d.obs("Ended", k)
        for _ in range(n):
            tg.start_soon(one)

    async def do_spawn(tg, k, segs, ending, how, oncancel=None):
        tf = st["tf"]
        fn = make_task(k, segs, ending, oncancel)
        if k % 4 == 3:
            fn = CallableTask(fn)      # "the coroutine function to run" given as an object with async __call__
        try:
            if how == "soon":
                h = tf.start_task_soon(fn, f"t{k}")
            else:
                h = await tf.start_task(fn)
        except RuntimeError:
            d.obs("SpawnFailed")
            return
        st["handles"].append(h)
        await watcher(k, h, tg)

    async def commands(tg, where):
        """executes spawn commands in this task's current context"""
        while True:
            await st[where].wait()
            st[where] = anyio.Event()
            cmd = st["cmd"]
            if cmd is None:
                return
            await do_spawn(tg, *cmd)
            st["cmd_done"].set()

    async def owner(tg):
        try:
            async def body():
                async with Context() as ctx:
                    st["owner"] = ctx
                    eh = (FalsyHandler(handler) if len(case["gates"]) % 2 else handler) if verdict is not None else None
                    if len(case["gates"]) % 3 == 1:
                        # the factory is started by calling the OWNER's method while another (short-lived) context is
                        # current: it belongs to the context whose method was called
                        async with Context():
                            st["tf"] = await ctx.start_background_task_factory(exception_handler=eh)
                    else:
                        st["tf"] = await start_background_task_factory(exception_handler=eh)
                    st["ev_owner"] = anyio.Event()
                    st["ev_child"] = anyio.Event()
                    tg.start_soon(commands, tg, "ev_owner")          # inherits the owner context
                    async with Context():
                        tg.start_soon(commands, tg, "ev_child")      # inherits a child of the owner
                        await d.gate("B")
                    # the child context is left first, then the owner's block ends
            if case["nested"]:
                async with Context():
                    await body()
            else:
                await body()
            # everything (including the root context hosting the service tasks) ended cleanly
            d.obs("OwnerLeft")
            result["left"] = True
        except BaseException as e:  # noqa
            leaves = []

            def walk(x):
                if isinstance(x, BaseExceptionGroup):
                    for y in x.exceptions:
                        walk(y)
                else:
                    leaves.append(x)
            walk(e)
            te = [x for x in leaves if isinstance(x, TaskError)]
            if te:
                d.obs("OwnerRaised", te[0].args[0][1])
                result["outcome"] = ["task-error", len(te), [type(x).__name__ for x in leaves if not isinstance(x, TaskError)]]
            else:
                result["outcome"] = ["other", [type(x).__name__ for x in leaves]]
                if isinstance(e, anyio.get_cancelled_exc_class()):
                    raise
        finally:
            done.set()

    async with anyio.create_task_group() as tg:
        tg.start_soon(owner, tg)
        await settle()
        first = d.drain()
        nspawn = 0
        for g in case["gates"]:
            if done.is_set() and g[0] != "Spawn":
                break
            kind = g[0]
            if kind == "SpawnCancel":
                _, segs, ending, how, where, oc, _k = g
                before = len(st["handles"])
                st["cancel_req"].add(nspawn)
                await do_spawn(tg, nspawn, segs, ending, "soon", oc)
                if len(st["handles"]) > before:
                    st["handles"][-1].cancel()          # before the task has run at all
                nspawn += 1
            elif kind == "Spawn":
                _, segs, ending, how, where = g[:5]
                st["cmd"] = (nspawn, segs, ending, how, g[5] if len(g) > 5 else None)
                nspawn += 1
                st["cmd_done"] = anyio.Event()
                if done.is_set() or where == "direct":
                    await do_spawn(tg, *st["cmd"])
                else:
                    st["ev_owner" if where == "owner" else "ev_child"].set()
            elif kind == "Task":
                if f"T{g[1]}" not in d.waiting:
                    steps.append({"gate": g, "obs": [], "live": live(st), "skipped": True})
                    continue
                d.open(f"T{g[1]}")
            elif kind == "Cancel":
                if g[1] < len(st["handles"]):
                    st["cancel_req"].add(g[1])
                    st["handles"][g[1]].cancel()
            elif kind == "Teardown":
                if "B" in d.waiting:
                    d.open("B")
            await settle()
            steps.append({"gate": g, "obs": d.drain(), "live": live(st)})
        await settle()
        late = d.drain()
        still = sorted(d.waiting)
        # let everything end
        st["cmd"] = None
        for ev in ("ev_owner", "ev_child"):
            if ev in st:
                st[ev].set()
        tg.cancel_scope.cancel()
    return {"backend": case["backend"], "verdict": verdict, "nested": case["nested"], "gates": case["gates"],
            "first": first, "steps": steps, "left": result["left"], "outcome": result["outcome"], "late": late,
            "still_waiting": still}


def live(st):
    if st["tf"] is None:
        return []
    hs = st["tf"].all_task_handles()
    out = []
    for h in hs:
        out.append(next((i for i, x in enumerate(st["handles"]) if x is h), 999))
    # what the caller does with the set it was given is the caller's business: empty it
    try:
        hs.clear()
    except AttributeError:
        pass
    return sorted(out)


def main():
    payload = json.load(sys.stdin)
    res = []
    for case in payload["cases"]:
        try:
            async def runner():
                return await run_case(case)
            res.append(guarded_run(runner, backend=case["backend"], backend_options=backend_options(case["backend"])))
        except BaseException:  # noqa
            import traceback
            res.append({"backend": case["backend"], "gates": case["gates"], "verdict": case["verdict"], "nested": case["nested"], "crash": traceback.format_exc()[-2500:]})
    print("@@" + json.dumps({"results": res}))


if __name__ == "__main__":
    main()
