"""Builds real component trees with start_component from generated class tables (hard-coded
add_component() calls) and external configurations; the component classes live in a generated
module `verifmods` that is also published through real entry points (a dist-info directory put on
sys.path before asphalt is imported).  Records, in creation order, the class and keyword arguments
of every component and the names under which its resources appear in the surrounding context.

payload: {"cases": [{"table": {k: [[alias, {"type": T|None, "kwargs": {...}}]...]}, "type": T, "cfg": {...}|None,
                     "backend": ...}]}   with T = {"cls": k} | "string" | other JSON"""
from __future__ import annotations

import copy
import json
import os
import sys
import tempfile

TMP = tempfile.mkdtemp(prefix="verifmods_")
import atexit  # noqa: E402
import shutil  # noqa: E402
atexit.register(shutil.rmtree, TMP, True)
N = 6
# the module lives inside a package: references to it (`verifpkg.mods:Comp3`) contain a dot
os.makedirs(os.path.join(TMP, "verifpkg"))
open(os.path.join(TMP, "verifpkg", "__init__.py"), "w").close()
with open(os.path.join(TMP, "verifpkg", "mods.py"), "w") as f:
    f.write('''
from asphalt.core import Component, add_resource, add_resource_factory, current_context
TABLE = {}
LOG = []
ALIVE = []

def conv(t):
    if isinstance(t, dict) and set(t) == {"cls"}:
        return CLASSES[t["cls"]]
    return t

class Base(Component):
    K = -1
    def __init__(self, **kwargs):
        self.idx = len(LOG)
        self.P = type(f"P{self.idx}", (), {})
        self.S = type(f"S{self.idx}", (), {})
        self.X = type(f"X{self.idx}", (), {})
        self.F = type(f"F{self.idx}", (), {})
        LOG.append({"cls": self.K, "kwargs": kwargs, "inst": self})
        for alias, spec in TABLE.get(str(self.K), []):
            kw = dict(spec["kwargs"])
            if spec["type"] is None:
                self.add_component(alias, **kw)
            else:
                self.add_component(alias, conv(spec["type"]), **kw)

    async def prepare(self):
        add_resource(self.P())

    async def start(self):
        ctx = current_context()
        if self.idx % 2:
            ctx.add_resource(self.S())
        else:
            add_resource(self.S())
        add_resource(self.X(), "given")
        add_resource_factory(lambda: self.F(), types=[self.F])

    def start_plain(self):
        # start() need not be a coroutine function: a plain method that does part of the work when it is CALLED
        # and hands back an awaitable for the rest -- all of it is the start phase
        ctx = current_context()
        if self.idx % 2:
            ctx.add_resource(self.S())
        else:
            add_resource(self.S())

        async def rest():
            add_resource(self.X(), "given")
            add_resource_factory(lambda: self.F(), types=[self.F])
        return rest()

CLASSES = [type(f"Comp{k}", (Base,), {"K": k, **({"start": Base.start_plain} if k % 2 else {})})
           for k in range(N_CLASSES)]
for _c in CLASSES:
    globals()[_c.__name__] = _c
    _c.__module__ = __name__
NotAComponent = 5


class NS:
    """a namespace: the odd classes are ALSO reachable as verifpkg.mods:NS.Inner.Comp<k> (a dotted attribute path)"""
    class Inner:
        pass


for _c in CLASSES:
    setattr(NS.Inner, _c.__name__, _c)
'''.replace('N_CLASSES', str(N)))
os.makedirs(os.path.join(TMP, "verifmods-0.0.dist-info"))
with open(os.path.join(TMP, "verifmods-0.0.dist-info", "METADATA"), "w") as f:
    f.write("Metadata-Version: 2.1\nName: verifmods\nVersion: 0.0\n")
with open(os.path.join(TMP, "verifmods-0.0.dist-info", "entry_points.txt"), "w") as f:
    f.write("[asphalt.components]\n" + "".join(f"comp{k} = verifpkg.mods:Comp{k}\n" for k in range(N))
            + "notcomp = verifpkg.mods:NotAComponent\n")
sys.path.insert(0, TMP)

import anyio  # noqa: E402
from guard import guarded_run  # noqa: E402
from verifpkg import mods as verifmods  # noqa: E402
from asphalt.core import Context, start_component  # noqa: E402


def conv_deep(x):
    """JSON configuration -> Python configuration (class markers become class objects)"""
    if isinstance(x, dict):
        if set(x) == {"cls"}:
            return verifmods.CLASSES[x["cls"]]
        return {k: conv_deep(v) for k, v in x.items()}
    if isinstance(x, list):
        return [conv_deep(v) for v in x]
    if isinstance(x, str) and x.startswith("verifpkg.mods:Comp") and x[-1:].isdigit() and int(x[-1]) % 2:
        # the same class by a dotted attribute path: a module:attr reference is resolved attribute by attribute
        return "verifpkg.mods:NS.Inner." + x.split(":", 1)[1]
    return x


def unconv(x):
    if isinstance(x, dict):
        return {k: unconv(v) for k, v in x.items()}
    if isinstance(x, list):
        return [unconv(v) for v in x]
    if isinstance(x, type) and x in verifmods.CLASSES:
        return {"cls": verifmods.CLASSES.index(x)}
    if isinstance(x, str) and x.startswith("verifpkg.mods:NS.Inner."):
        return "verifpkg.mods:" + x[len("verifpkg.mods:NS.Inner."):]
    return x


async def one_start(case, cfg):
    verifmods.LOG.clear()
    names = {}
    async with Context() as ctx:
        async with ctx.resource_added.stream_events(max_queue_size=10000) as events:
            try:
                await start_component(conv_deep(case["type"]), cfg)
            except (LookupError,) as e:
                return {"k": "err", "e": "EBadType", "detail": repr(e)[:200]}
            except TypeError as e:
                msg = str(e)
                if "component configuration must be either None or a" in msg:
                    return {"k": "err", "e": "EBadChildConfig"}
                if "is not a subclass of Component" in msg:
                    return {"k": "err", "e": "EBadType"}
                return {"k": "err", "e": "ECrashed", "detail": repr(e)[:200]}
            except BaseException as e:  # noqa
                return {"k": "err", "e": "ECrashed", "detail": repr(e)[:200]}
            ctx.add_resource(object(), "__end__")
            async for ev in events:
                if ev.resource_name == "__end__":
                    break
                for t in ev.resource_types:
                    names[t] = (ev.resource_name, bool(ev.is_factory))
        nodes = []
        for rec in verifmods.LOG:
            inst = rec["inst"]
            def nm(t, fac=False):
                n = names.get(t)
                if n is None or n[1] != fac:
                    return "<missing>"
                # the surrounding context must agree with the event
                if not fac and n[0] not in ctx.get_resources(t):
                    return "<not-visible>"
                return n[0]
            nodes.append({"cls": rec["cls"], "kwargs": unconv(rec["kwargs"]), "prep": nm(inst.P), "start": nm(inst.S),
                          "explicit": nm(inst.X), "factory": nm(inst.F, True)})
        return {"k": "tree", "nodes": nodes}


async def run_case(case):
    verifmods.TABLE.clear()
    verifmods.TABLE.update(case["table"])
    cfg = conv_deep(case["cfg"])
    first = await one_start(case, cfg)
    after = unconv(cfg)
    second = await one_start(case, cfg) if first["k"] == "tree" else first
    first["cfg_after"] = after
    first["second_same"] = json.dumps(first.get("nodes"), sort_keys=True) == json.dumps(second.get("nodes"), sort_keys=True) \
        and second["k"] == first["k"]
    first["second"] = second if not first["second_same"] else None
    return first


def main():
    payload = json.load(sys.stdin)
    out = []
    for case in payload["cases"]:
        try:
            async def runner():
                with anyio.fail_after(20):
                    return await run_case(case)
            out.append(guarded_run(runner, backend=case["backend"]))
        except BaseException:  # noqa
            import traceback
            out.append({"k": "crash", "detail": traceback.format_exc()[-1500:]})
    print("@@" + json.dumps({"obs": out}))
    import shutil
    shutil.rmtree(TMP, ignore_errors=True)


main()
