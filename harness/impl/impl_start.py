"""Starts generated component trees with the real start_component under the lock-step director:
every prepare()/start() is a script of segments, each behind a gate; actions publish resources and
factories (also through the alias-remapped default name), wait for resources, look resources up
optionally, fail, register teardown callbacks.  The startup timeout is one more gate (virtual time).
Records, per step, the enabled gates and the batch of observations; then the outcome, what the
surrounding context holds, and its teardown trace.

payload: {"cases": [{"prog": [...], "timeout": bool, "choices": [...], "backend": ...}]}"""
from __future__ import annotations

import json
import os
import sys

sys.path.insert(0, os.path.dirname(os.path.abspath(__file__)))
import anyio  # noqa: E402
from contextlib import AsyncExitStack  # noqa: E402
from asphalt.core import (  # noqa: E402
    start_service_task,
    Component,
    ComponentStartError,
    Context,
    add_resource,
    add_resource_factory,
    add_teardown_callback,
    current_context,
    get_resource,
    inject,
    resource,
    start_component,
)
from director import Director, backend_options, jump, run_guarded, settle  # noqa: E402

# R1 is a subclass of R0 and R3 of R2: a resource published under a subclass is not one of the base class
_R0, _R2 = type("R0", (), {}), type("R2", (), {})
TYPES = [_R0, type("R1", (_R0,), {}), _R2, type("R3", (_R2,), {})]
NAMES = ["default"] + [f"n{i}" for i in range(1, 20)]


def T(i):
    """the type object for type index i.  Index 2 is a parametrised generic: every evaluation gives a new object
    that is equal to, but not identical with, the previous one -- types are compared by equality"""
    if i == 2:
        return list[_R2]
    return TYPES[i]


class FalsyCallback:
    """a teardown callback that is an empty container with __call__"""

    def __init__(self, fn):
        self.fn = fn

    def __call__(self):
        return self.fn()

    def __len__(self):
        return 0
TIMEOUT = 20


class Pub:
    def __init__(self, by, seq, factory):
        self.by, self.seq, self.factory = by, seq, factory

    def j(self):
        return [self.by, self.seq, self.factory]

    def __len__(self):
        # every other published object is an empty container: a resource is a resource whatever its truth value
        return self.seq % 2


class Never:
    """a resource type nobody ever publishes"""


class Boom(Exception):
    """the failure of a component: an exception like any other -- although this one, like an aggregate error with
    nothing in it, is falsy"""
    def __len__(self):
        return 0


class AsyncCallable:
    def __init__(self, fn):
        self.fn = fn

    async def __call__(self):
        return await self.fn()


def make_classes(prog, d, state):
    classes = [None] * len(prog)
    kids = {i: [j for j, c in enumerate(prog) if c["parent"] == i] for i in range(len(prog))}

    def alias(j):
        return f"c{j}" + (f"/{NAMES[prog[j]['dname']]}" if prog[j]["dname"] else "")

    for i in reversed(range(len(prog))):
        c = prog[i]

        def make(i=i, c=c):
            ns = {}

            def __init__(self, **kw):
                d.obs("Create", i)
                for j in kids[i]:
                    self.add_component(alias(j), classes[j])
            ns["__init__"] = __init__

            async def run_script(phase, script):
                for si, sg in enumerate(script):
                    if state["r"].random() < 0.15:
                        # the component enters and leaves a context of its own: afterwards its current context is
                        # again its own view, which knows how to wait
                        async with Context():
                            pass
                    if state["r"].random() < 0.2:
                        # the component spends the time until its gate opens inside start_service_task(), waiting
                        # for a service that takes its time to report started(): it must stay cancellable there
                        key = f"svc{i}_{int(phase)}_{si}"
                        stop = anyio.Event()

                        async def service(*, task_status, key=key, stop=stop):
                            await d.gate(i, on_cancel=lambda: d.obs("Cancelled", i))
                            task_status.started()
                            state.setdefault("svc_up", set()).add(key)
                            await stop.wait()

                        def stop_service(key=key, stop=stop):
                            # the teardown action of a service that never came up must never be called
                            state.setdefault("svc_stop", []).append(key)
                            stop.set()
                        if state["r"].random() < 0.3:
                            # started through the component's own view of the context, with the DEFAULT teardown
                            # action: the task runs until it is cancelled when the surrounding context is left
                            async def forever(*, task_status, key=key):
                                await d.gate(i, on_cancel=lambda: d.obs("Cancelled", i))
                                task_status.started()
                                state.setdefault("svc_up", set()).add(key)
                                await anyio.sleep_forever()
                            await current_context().start_service_task(forever, key)
                        else:
                            await start_service_task(service, key, teardown_action=stop_service)
                    else:
                        await d.gate(i, on_cancel=lambda: d.obs("Cancelled", i))
                    for a in sg:
                        await do(a, phase)

            async def wait_beside_another(ty, name):
                """the same wait, with a second request pending in the same component (for something nobody
                publishes) that begins after this one: each request is released by its own publication only"""
                box = []
                async with anyio.create_task_group() as tg:
                    async def real():
                        box.append(await get_resource(ty, name))
                        tg.cancel_scope.cancel()

                    async def other():
                        await get_resource(Never, "never")
                    tg.start_soon(real)
                    for _ in range(3):
                        await anyio.sleep(0)
                    if not box:
                        tg.start_soon(other)
                return box[0]

            async def do(a, phase):
                k = a[0]
                if k == "Publish":
                    _, types, name, fac = a
                    v = Pub(i, state["npub"], fac)
                    state["npub"] += 1
                    ts = [T(t) for t in types]
                    if fac:
                        rr = state["r"].random()
                        if rr < 0.25:
                            async def factory(v=v):       # an asynchronous factory
                                return v
                        elif rr < 0.5:
                            # ... which need not be an `async def` function: any callable that returns an awaitable
                            async def make(v=v):
                                await anyio.sleep(0)
                                return v

                            def factory(make=make):
                                return make()
                        else:
                            def factory(v=v):
                                return v
                        if state["r"].random() < 0.3:
                            # the types are taken from the factory's return annotation (a union for several)
                            from typing import Union
                            factory.__annotations__ = {"return": Union[tuple(ts)] if len(ts) > 1 else ts[0]}
                            if name == 0 and state["r"].random() < 0.5:
                                add_resource_factory(factory)
                            else:
                                add_resource_factory(factory, NAMES[name])
                        elif name == 0 and state["r"].random() < 0.5:
                            if 0.25 <= rr < 0.5 and v.seq % 2:
                                factory = AsyncCallable(factory)     # an object whose __call__ is a coroutine function
                            add_resource_factory(factory, types=ts)
                        else:
                            add_resource_factory(factory, NAMES[name], types=ts)
                    else:
                        kw = {}
                        if state["r"].random() < 0.4:
                            # the resource comes with a teardown callback (every other one a falsy callable object):
                            # it runs, once, when the surrounding context is left
                            ran = state.setdefault("res_td_ran", [])
                            cbf = (lambda seq=v.seq: ran.append(seq))
                            kw["teardown_callback"] = FalsyCallback(cbf) if v.seq % 2 else cbf
                        if name == 0 and state["r"].random() < 0.5:
                            add_resource(v, types=ts, **kw)
                        else:
                            add_resource(v, NAMES[name], ts, **kw)
                        if kw:
                            state.setdefault("res_td_expected", []).append(v.seq)
                    if state["r"].random() < 0.5:
                        ts.clear()          # the caller's list of types is the caller's: what was registered is a copy
                elif k == "Wait":
                    try:
                        rr = state["r"].random()
                        if rr < 0.3:
                            v = await wait_beside_another(T(a[1]), NAMES[a[2]])
                        elif rr < 0.5:
                            # the request is made by dependency injection into a function the component calls
                            async def needs(*, res=resource(NAMES[a[2]])):
                                return res
                            needs.__annotations__ = {"res": T(a[1])}
                            v = await inject(needs)()
                        else:
                            v = await get_resource(T(a[1]), NAMES[a[2]])
                    except anyio.get_cancelled_exc_class():
                        d.obs("Cancelled", i)
                        raise
                    d.obs("Got", i, a[1], a[2], v.j() if isinstance(v, Pub) else ["?"])
                elif k == "GetOpt":
                    v = await get_resource(T(a[1]), NAMES[a[2]], optional=True)
                    d.obs("Got", i, a[1], a[2], None if v is None else v.j())
                elif k == "Fail":
                    d.obs("Failed", i)
                    if a[1] == 8:
                        # the component itself fails with a ComponentStartError (e.g. from a nested start_component)
                        exc = ComponentStartError("creating", "imaginary.path", Component)
                        state["inner"], state["inner_code"] = exc, 8
                        raise exc
                    if a[1] == 9:
                        # ... or with an exception group with a single member (its own task group failed)
                        exc = ExceptionGroup("the component's own task group", [Boom(99)])
                        state["inner"], state["inner_code"] = exc, 9
                        raise exc
                    raise Boom(a[1])
                elif k == "AddTd":
                    add_teardown_callback(lambda cb=a[1]: d.obs("Td", cb))

            if c["has_prepare"]:
                async def prepare(self):
                    d.obs("PB", i)
                    await run_script(False, c["prep"])
                    d.obs("PE", i)
                ns["prepare"] = prepare
            if c["has_start"]:
                async def start(self):
                    d.obs("SB", i)
                    await run_script(True, c["start"])
                    d.obs("SE", i)
                ns["start"] = start
            if i % 3 == 1:
                # prepare()/start() inherited from a mixin that is not a Component
                hooks = {k: ns.pop(k) for k in ("prepare", "start") if k in ns}
                return type(f"C{i}", (type(f"Hooks{i}", (), hooks), Component), ns)
            return type(f"C{i}", (Component,), ns)
        classes[i] = make()
    paths = {}
    for i in range(len(prog)):
        p, chain = i, []
        while prog[p]["parent"] is not None:
            chain.append(alias(p))
            p = prog[p]["parent"]
        paths[".".join(reversed(chain))] = i
    return classes, paths


async def run_case(case):
    import random
    prog = case["prog"]
    d = Director()
    state = {"npub": 0, "r": random.Random(json.dumps(case["prog"])[:200])}
    classes, paths = make_classes(prog, d, state)
    steps = []
    result = {}
    choices = list(case["choices"])
    timeout = TIMEOUT if case["timeout"] else None

    starter_scope = anyio.CancelScope()

    async def starter():
        with starter_scope:
            await starter_body()
        done.set()

    async def starter_body():
        try:
            root = await start_component(classes[0], {}, timeout=timeout)
            result["outcome"] = {"k": "returned", "root_ok": isinstance(root, classes[0])}
            d.obs("Returned")
        except ComponentStartError as e:
            cause = e.__cause__
            result["outcome"] = {"k": "error", "phase": e.phase, "comp": paths.get(e.path, -1),
                                 "class_ok": e.component_type is classes[paths.get(e.path, 0)],
                                 "cause": ["exc", state["inner_code"]] if cause is not None and cause is state.get("inner") else
                                 ["exc", cause.args[0]] if isinstance(cause, Boom) else
                                 ["conflict"] if type(cause).__name__ == "ResourceConflict" else ["other", type(cause).__name__]}
            d.obs("Raised")
        except TimeoutError:
            result["outcome"] = {"k": "timeout"}
            d.obs("Raised")
        except BaseException as e:  # noqa
            result["outcome"] = {"k": "other", "detail": repr(e)[:200]}
            d.obs("Raised")
            if isinstance(e, anyio.get_cancelled_exc_class()):
                raise
        finally:
            done.set()

    done = anyio.Event()
    nested = state["r"].random() < 0.5
    elapsed = [0.0]

    async def bystander(ctx):
        # somebody else listens to the surrounding context's resource_added with a small queue and never reads
        # it: that is their problem alone
        async with ctx.resource_added.stream_events(max_queue_size=1) as stream:
            async for _ in stream:
                await anyio.sleep_forever()

    async with anyio.create_task_group() as tg:
        async with AsyncExitStack() as stack:
            if nested:
                await stack.enter_async_context(Context())      # the surrounding context need not be the outermost
                stack.callback(lambda: d.obs("SurroundingLeft"))
            ctx = await stack.enter_async_context(Context())
            tg.start_soon(bystander, ctx)
            await settle()
            tg.start_soon(copy_ctx_starter, ctx, starter)
            await settle()
            steps.append({"enabled": None, "obs": d.drain()})       # construction + the initial settle
            while not done.is_set() and choices:
                comps = sorted(d.waiting)
                en = comps + (["T"] if timeout is not None else [])
                if not en:
                    break
                ch = choices.pop(0)
                g = "T" if (timeout is not None and (ch == 7 or not comps)) else comps[ch % len(comps)]
                if g == "T":
                    await jump(TIMEOUT + 1 - elapsed[0])
                else:
                    d.open(g)
                    await settle()
                    if timeout is not None and elapsed[0] == 0.0 and not done.is_set():
                        # time passes while the tree starts: the deadline is counted from the call, not from
                        # the last sign of life
                        elapsed[0] = 0.6 * TIMEOUT
                        await jump(elapsed[0])
                        await settle()
                steps.append({"enabled": en, "fired": g, "obs": d.drain()})
            # nothing may still be running or begin to run afterwards
            await jump(TIMEOUT + 1) if done.is_set() else None
            await settle()
            late = d.drain()
            still_waiting = sorted(d.waiting)
            finished = done.is_set()
            table = []
            for ti in range(len(TYPES)):
                for name, v in ctx.get_resources(T(ti)).items():
                    table.append([ti, NAMES.index(name) if name in NAMES else -1, v.j() if isinstance(v, Pub) else ["?"]])
            if not finished:
                starter_scope.cancel()
                await done.wait()
                d.drain()
        rest = d.drain()
        if nested and ["SurroundingLeft"] in rest:
            # what the tree registered is torn down when the surrounding context is left, not later
            rest = rest[:rest.index(["SurroundingLeft"])]
        td = [o for o in rest if o[0] == "Td"]
        tg.cancel_scope.cancel()
    return {"backend": case["backend"], "prog": prog, "timeout": case["timeout"], "choices": case["choices"],
            "mode": case.get("mode"),
            "steps": steps, "outcome": result.get("outcome"), "finished": finished, "late": late,
            "still_waiting": still_waiting, "table": table, "teardown": [o[1] for o in td],
            "res_td": {"expected": state.get("res_td_expected", []), "ran": state.get("res_td_ran", [])},
            "ghost_stops": [k for k in state.get("svc_stop", []) if k not in state.get("svc_up", set())]}


async def copy_ctx_starter(ctx, starter):
    # the task inherits the harness's current context (the surrounding context of start_component)
    await starter()


def main():
    payload = json.load(sys.stdin)
    res = []
    hangs = 0
    for case in payload["cases"]:
        if hangs >= 3:
            # enough: something makes startups impossible to stop; do not spend the whole budget waiting
            res.append({"backend": case["backend"], "prog": case["prog"], "skipped": True})
            continue
        try:
            async def runner():
                return await run_case(case)
            how, r = run_guarded(runner, case["backend"], seconds=20)
            hangs += how == "hang"
            if how == "hang":
                r = {"backend": case["backend"], "prog": case["prog"], "choices": case["choices"],
                     "timeout": case["timeout"], "hang": True}
            res.append(r)
        except BaseException:  # noqa
            import traceback
            res.append({"backend": case["backend"], "prog": case["prog"], "crash": traceback.format_exc()[-2500:]})
    print("@@" + json.dumps({"results": res}))


if __name__ == "__main__":
    main()
