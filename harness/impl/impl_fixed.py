"""Fixed scenarios on the real implementation for situations the generated histories cannot reach (objects that
must die and have their identity reused, overlapping calls of one injected function, a generation that fails
while others wait).  Each scenario restates one clause of a property directly; it is an oracle on the
implementation, not part of a model.

payload: {"scenarios": [name...], "backend": ...}   ->   {"results": [{"name", "ok", "detail"}]}"""
from __future__ import annotations

import gc
import json
import sys
import weakref

import anyio
from typing import Optional  # noqa: F401  (named by string annotations of injected methods)
from guard import guarded_run  # noqa: E402
from contextlib import AsyncExitStack  # noqa: E402

from asphalt.core import Context, NoCurrentContext, current_context, inject, resource  # noqa: E402


class A:
    def __init__(self, tag):
        self.tag = tag


class B:
    def __init__(self, tag):
        self.tag = tag


async def failed_generation_with_waiters():
    """C04: the first generation of an asynchronous factory fails while others wait for it: whoever retries, the
    factory produces ONE object for the context and every successful lookup returns it"""
    made, calls = [], []
    gate = anyio.Event()

    async def factory():
        calls.append(1)
        n = len(calls)
        await gate.wait()
        if n == 1:
            raise RuntimeError("first generation fails")
        obj = A(n)
        made.append(obj)
        return obj
    got, errs = [], []
    async with Context() as ctx:
        ctx.add_resource_factory(factory, types=[A])

        async def look():
            try:
                got.append(await ctx.get_resource(A))
            except RuntimeError as e:
                errs.append(e)
        async with anyio.create_task_group() as tg:
            for _ in range(4):
                tg.start_soon(look)
            for _ in range(5):
                await anyio.sleep(0)
            gate.set()
    ok = len(made) == 1 and len(errs) == 1 and len(got) == 3 and all(x is made[0] for x in got)
    return ok, f"factory started {len(calls)} times, produced {len(made)} object(s); {len(got)} lookups returned " \
               f"{len({id(x) for x in got})} distinct object(s), {len(errs)} raised"


async def inject_across_short_lived_contexts():
    """C19/C02: the same injected function called in one short-lived context after another gets each context's
    own resource -- also when a dead context's identity is reused"""
    @inject
    def use(*, a: A = resource()):
        return a
    wrong = []
    for i in range(120):
        async with Context() as ctx:
            mine = A(i)
            ctx.add_resource(mine)
            v = use()
            if v is not mine or v is not ctx.get_resource_nowait(A):
                wrong.append((i, getattr(v, "tag", None)))
        del ctx, mine, v
        gc.collect()
    return not wrong, f"injected value differed from the context's own resource in rounds {wrong[:5]}"


async def inherited_context_outlives_block():
    """C12: a task keeps the context that was current where it was spawned, for as long as it runs -- also after
    the block has been left and nobody else refers to that context any more"""
    seen = {}
    go = anyio.Event()

    async def child(wr_box):
        await go.wait()
        gc.collect()
        try:
            cur = current_context()
            seen["same"] = wr_box[0]() is cur
            seen["parent_of_new"] = Context().parent is cur
        except BaseException as e:  # noqa
            seen["error"] = repr(e)
    async with Context():
        async with anyio.create_task_group() as tg:
            box = []

            async def spawn_inside():
                async with Context():
                    box.append(weakref.ref(current_context()))
                    tg.start_soon(child, box)
                    await anyio.sleep(0)
            await spawn_inside()
            gc.collect()
            go.set()
    ok = seen.get("same") is True and seen.get("parent_of_new") is True
    return ok, f"in the spawned task after the block was left and collected: {seen}"


async def overlapping_injected_calls():
    """C19: calls of one injected coroutine function that overlap in time, in different contexts, each get the
    resources of their own context"""
    @inject
    async def use(*, a: A = resource(), b: B = resource()):
        return a, b
    gate = anyio.Event()
    res = {}

    async def slow_b():
        await gate.wait()
        return B("gen1")

    async def first():
        async with Context() as c1:
            a1 = A(1)
            c1.add_resource(a1)
            c1.add_resource_factory(slow_b, types=[B])
            res["c1"] = (await use(), a1)

    async def second():
        async with Context() as c2:
            a2, b2 = A(2), B("static2")
            c2.add_resource(a2)
            c2.add_resource(b2)
            res["c2"] = (await use(), a2, b2)
        gate.set()
    async with anyio.create_task_group() as tg:
        tg.start_soon(first)
        for _ in range(5):
            await anyio.sleep(0)
        tg.start_soon(second)
    (a, b), a1 = res["c1"]
    (a_, b_), a2, b2 = res["c2"]
    ok = a is a1 and isinstance(b, B) and b.tag == "gen1" and a_ is a2 and b_ is b2
    return ok, f"first call got a.tag={getattr(a, 'tag', None)} b.tag={getattr(b, 'tag', None)} (own: 1, gen1); " \
               f"second got a.tag={getattr(a_, 'tag', None)} b.tag={getattr(b_, 'tag', None)} (own: 2, static2)"


async def leaked_inner_context():
    """C12: leaving a block restores what was current before entry -- also when a context entered inside it (by
    hand) was never left: that is reported, and the current context is still restored"""
    out = []
    for depth in (0, 1):
        async with AsyncExitStack() as stack:
            before = None
            if depth:
                before = await stack.enter_async_context(Context())
            reported = False
            try:
                async with Context():
                    await Context().__aenter__()          # never left
            except RuntimeError as e:
                reported = "stack corruption" in str(e)
            try:
                now = current_context()
            except NoCurrentContext:
                now = None
            out.append((depth, reported, now is before))
    ok = all(rep and same for _, rep, same in out)
    return ok, f"(depth, open child reported, current context restored): {out}"


async def parent_left_before_child():
    """C12: a task that leaves its own block gets back what it had before, also when the parent of that block's
    context was (wrongly, and reported as such) left first by another task"""
    res = {}
    go_leave_parent, child_entered, parent_left = anyio.Event(), anyio.Event(), anyio.Event()

    async def task_b(parent):
        async with Context() as own:                      # B's own base context
            async with Context(parent):
                child_entered.set()
                await parent_left.wait()
            try:
                res["restored"] = current_context() is own
            except NoCurrentContext:
                res["restored"] = False
            async with Context():
                pass
            try:
                res["restored_again"] = current_context() is own
            except NoCurrentContext:
                res["restored_again"] = False

    async with anyio.create_task_group() as tg:
        try:
            async with Context() as p:
                tg.start_soon(task_b, p)
                await child_entered.wait()
        except RuntimeError as e:
            res["reported"] = "stack corruption" in str(e)
        parent_left.set()
    ok = res.get("reported") is True and res.get("restored") is True and res.get("restored_again") is True
    return ok, f"{res}"


async def caller_names_injected_parameter():
    """C19: the decorated call is the explicit call with the looked-up resources added as keyword arguments: a
    caller who passes an injected parameter by keyword gets the TypeError the explicit call gives, not a
    silently replaced argument"""
    ran = []

    @inject
    def f(x, *, dep: A = resource()):
        ran.append((x, dep))
        return dep

    @inject
    async def g(x, *, dep: A = resource()):
        ran.append((x, dep))
        return dep
    out = []
    async with Context() as ctx:
        ctx.add_resource(A(1))
        for name, call in (("sync", lambda: f(1, dep="mine")), ("async", lambda: g(1, dep="mine"))):
            try:
                r = call()
                if hasattr(r, "__await__"):
                    r = await r
                out.append((name, "returned", getattr(r, "tag", r)))
            except TypeError:
                out.append((name, "TypeError", None))
    ok = all(o[1] == "TypeError" for o in out) and not ran
    return ok, f"{out}; body ran with {[(x, getattr(d, 'tag', d)) for x, d in ran]}"


class Doom(BaseException):
    """not an Exception"""


async def leaked_child_survives_gc():
    """C13: a child context entered from a context and never left is reported when that context is left, also
    when nobody else refers to the child any more and the garbage collector has run"""
    out = []
    for nested in (False, True):
        async with AsyncExitStack() as stack:
            if nested:
                await stack.enter_async_context(Context())
            reported = False
            try:
                async with Context() as parent:
                    async def leak():
                        await Context(parent).__aenter__()
                    async with anyio.create_task_group() as tg:
                        tg.start_soon(leak)
                    gc.collect()
            except RuntimeError as e:
                reported = "stack corruption" in str(e)
            out.append((nested, reported))
    return all(r for _, r in out), f"(nested, open child reported): {out}"


async def closed_after_teardown_raised_baseexception():
    """C13: after the block has been left the context is closed whatever the teardown raised: every guarded
    operation raises RuntimeError and changes nothing"""
    out = []
    for nested in (False, True):
        async with AsyncExitStack() as stack:
            if nested:
                await stack.enter_async_context(Context())
            ctx = Context()
            try:
                async with ctx:
                    def cb():
                        raise Doom()
                    ctx.add_teardown_callback(cb)
            except BaseException:  # noqa
                pass
            refused = 0
            for op in (lambda: ctx.add_resource(A(1)), lambda: ctx.add_teardown_callback(lambda: None),
                       lambda: ctx.get_resource_nowait(A, optional=True),
                       lambda: ctx.add_resource_factory(lambda: A(2), types=[A])):
                try:
                    op()
                except RuntimeError:
                    refused += 1
            out.append((nested, ctx.closed, refused))
    ok = all(c and n == 4 for _, c, n in out)
    return ok, f"(nested, closed, operations refused of 4): {out}"


async def owner_left_by_baseexception_waits_for_tasks():
    """C09: tearing down the factory's owning context waits for -- does not cancel -- the running tasks,
    whatever ended the block"""
    seen = {}
    release = anyio.Event()

    async def work():
        try:
            await release.wait()
            seen["finished"] = True
        except anyio.get_cancelled_exc_class():
            seen["cancelled"] = True
            raise

    async def releaser():
        for _ in range(10):
            await anyio.sleep(0)
        release.set()
    try:
        async with anyio.create_task_group() as tg:
            async with Context():
                async with Context() as owner:
                    tf = await owner.start_background_task_factory()
                    tf.start_task_soon(work)
                    await anyio.sleep(0)
                    tg.start_soon(releaser)
                    raise Doom()
    except BaseException as e:  # noqa
        seen["outcome"] = type(e).__name__
    ok = seen.get("finished") is True and "cancelled" not in seen
    return ok, f"{seen}"


async def handler_sees_the_escaping_exception_once():
    """C09: the exception that escapes a task -- an exception group as well -- is passed to the handler exactly
    once, as it is"""
    calls = []
    grp = ExceptionGroup("two things failed", [ValueError(1), KeyError(2)])

    def handler(exc):
        calls.append(exc)
        return True

    async def failing():
        raise grp
    async with Context() as ctx:
        tf = await ctx.start_background_task_factory(exception_handler=handler)
        h = await tf.start_task(failing)
        await h.wait_finished()
    ok = len(calls) == 1 and calls[0] is grp
    return ok, f"handler called {len(calls)} time(s) with {[type(c).__name__ for c in calls]}"


async def failed_subscription_leaves_nothing():
    """C10: a stream over several signals of which one is not bound fails with UnboundSignal and subscribes to
    nothing: later dispatches on the others go on working"""
    from asphalt.core import Event, Signal, UnboundSignal, stream_events

    class Ev(Event):
        pass

    class Owner:
        sig = Signal(Ev)
    o = Owner()
    failed = False
    try:
        async with stream_events([o.sig, Owner.sig]):
            pass
    except UnboundSignal:
        failed = True
    got, err = [], None
    try:
        async with o.sig.stream_events() as stream:
            o.sig.dispatch(Ev())
            async for ev in stream:
                got.append(ev)
                break
    except BaseException as e:  # noqa
        err = repr(e)
    return failed and len(got) == 1 and err is None, f"UnboundSignal raised: {failed}; later dispatch delivered {len(got)}, error {err}"


async def redispatched_event_is_stamped_again():
    """C10: an event is stamped with the instance and attribute it is dispatched through, every time"""
    from asphalt.core import Event, Signal

    class Ev(Event):
        pass

    class Owner:
        first = Signal(Ev)
        second = Signal(Ev)
    a, b = Owner(), Owner()
    ev = Ev()
    a.first.dispatch(ev)                      # nobody listens
    t1 = ev.time
    async with b.second.stream_events() as stream:
        b.second.dispatch(ev)
        async for got in stream:
            break
    ok = got is ev and got.source is b and got.topic == "second" and got.time >= t1
    return ok, f"source is the second owner: {got.source is b}, topic {got.topic!r}"


async def tree_started_inside_a_component():
    """C14: equal configurations yield equal trees wherever they are started: a tree started from inside the
    start() of a component deployed as kind/name names its own resources as it would anywhere else"""
    from asphalt.core import Component, add_resource, get_resources, start_component

    class Inner(Component):
        async def prepare(self):
            add_resource(A("inner-prepare"))

        async def start(self):
            add_resource(B("inner-start"))

    class Host(Component):
        async def start(self):
            await start_component(Inner)

    class Root(Component):
        def __init__(self):
            self.add_component("host/alt", Host)
    async with Context():
        await start_component(Root)
        names = {"A": sorted(get_resources(A)), "B": sorted(get_resources(B))}
    ok = names == {"A": ["default"], "B": ["default"]}
    return ok, f"resource names of the nested tree: {names} (expected default for both)"


async def optional_injection_is_the_optional_lookup():
    """C19: an injected parameter declared Optional behaves like the explicit lookup with optional=True in every
    respect: None when nothing matches, but when a matching factory itself fails with ResourceNotFound (one of
    ITS dependencies is missing) that error comes out -- before the body runs -- as it does from the explicit
    call; and a falsy resource is a resource"""
    from typing import Optional
    from asphalt.core import ResourceNotFound, get_resource, get_resource_nowait

    class Engine:
        pass

    class Falsy(list):
        pass
    ran = []

    def needs_engine() -> A:
        get_resource_nowait(Engine)        # not there: ResourceNotFound from inside the factory
        return A(1)

    @inject
    def f(*, dep: Optional[A] = resource()):
        ran.append(("f", dep))
        return dep

    @inject
    async def g(*, dep: Optional[A] = resource()):
        ran.append(("g", dep))
        return dep

    @inject
    def h(*, dep: Falsy = resource(), opt: Optional[Falsy] = resource()):
        ran.append(("h", dep, opt))
        return dep, opt

    @inject
    async def k(*, dep: Falsy = resource(), opt: Optional[Falsy] = resource()):
        ran.append(("k", dep, opt))
        return dep, opt
    out = []
    async with Context() as ctx:
        # nothing matches: None, like the explicit optional lookup
        out.append(("nothing", f(), await g(), get_resource_nowait(A, optional=True)))
        ctx.add_resource_factory(needs_engine)
        for name, call in (("explicit", lambda: get_resource_nowait(A, optional=True)),
                           ("explicit-async", lambda: get_resource(A, optional=True)), ("sync", f), ("async", g)):
            n = len(ran)
            try:
                r = call()
                if hasattr(r, "__await__"):
                    r = await r
                out.append((name, "returned", r))
            except ResourceNotFound:
                out.append((name, "ResourceNotFound", len(ran) > n))
        empty = Falsy()
        ctx.add_resource(empty)
        n = len(ran)
        try:
            r1, r2 = h(), await k()
            out.append(("falsy", r1[0] is empty and r1[1] is empty and r2[0] is empty and r2[1] is empty))
        except ResourceNotFound:
            out.append(("falsy", "ResourceNotFound", len(ran) - n))
    ok = out[0] == ("nothing", None, None, None) \
        and all(o[1] == "ResourceNotFound" and o[2] is False for o in out[1:5]) and out[5] == ("falsy", True)
    return ok, f"{out}"


async def lookup_paths_agree_inside_a_component():
    """C02: all lookup paths agree on the visible set -- also the path through a component's view of the context,
    and also for a resource that is falsy (0, an empty container): what get_resource_nowait / get_resources /
    an injected parameter find, the component's `await get_resource()` returns at once"""
    from asphalt.core import Component, get_resource, get_resource_nowait, start_component

    class Registry(list):
        pass
    seen = {}

    class Comp(Component):
        async def start(self):
            ctx = current_context()
            seen["nowait"] = get_resource_nowait(Registry, optional=True)
            seen["all"] = list(ctx.get_resources(Registry).values())

            @inject
            async def injected(*, r: Registry = resource()):
                return r
            seen["injected"] = await injected()
            with anyio.move_on_after(1) as scope:
                seen["awaited"] = await get_resource(Registry)
            seen["waited"] = scope.cancelled_caught
            seen["int"] = await get_resource(int, optional=True)
            # ... and for what was added only after the tree had been created (by this component itself), and for a
            # pair served by a factory: optional or not, synchronous or not, one pair is one object
            late = Late()
            ctx.add_resource(late)
            seen["late"] = get_resource_nowait(Late, optional=True) is late and (await get_resource(Late, optional=True)) is late
            m = [await get_resource(Made, optional=True), get_resource_nowait(Made), get_resource_nowait(Made, optional=True),
                 await get_resource(Made)]
            seen["made"] = m[0] is not None and all(x is m[0] for x in m) and len(made) == 1

    class Late:
        pass

    class Made:
        pass
    made = []

    def make():
        made.append(1)
        return Made()
    reg = Registry()
    async with Context() as ctx:
        ctx.add_resource(reg)
        ctx.add_resource(0)
        ctx.add_resource_factory(make, types=[Made])
        try:
            await start_component(Comp, {}, timeout=3)
        except BaseException as e:  # noqa
            seen["error"] = repr(e)[:120]
    ok = seen.get("nowait") is reg and seen.get("all") == [reg] and seen.get("injected") is reg \
        and seen.get("awaited") is reg and seen.get("waited") is False and seen.get("int") == 0 and "error" not in seen \
        and seen.get("late") is True and seen.get("made") is True
    return ok, f"{ {k: (v if k in ('waited', 'error', 'int', 'late', 'made') else type(v).__name__) for k, v in seen.items()} }"


async def leaving_a_context_with_an_explicit_parent():
    """C02 (and C12): a context entered with an explicitly given parent that is NOT the current context; after
    it has been left, the current context is again the one it was before, so that what is added through the
    module-level shortcuts lands there -- not in the explicit parent -- and lookups see that context's set"""
    from asphalt.core import add_resource, get_resource_nowait
    out = {}
    async with Context() as root:
        async with Context() as a:
            a.add_resource(A("in-a"), "mine")
            async with Context(root) as side:
                out["inside"] = current_context() is side
                out["side_sees_a"] = side.get_resource_nowait(A, "mine", optional=True) is not None
            out["back"] = current_context() is a
            add_resource(B("after"), "late")
            out["late_in_a"] = a.get_resource_nowait(B, "late", optional=True) is not None
            out["late_in_root"] = root.get_resource_nowait(B, "late", optional=True) is not None
            out["lookup"] = get_resource_nowait(A, "mine", optional=True) is not None
            async with Context() as child:
                out["child_parent"] = child.parent is a
    want = {"inside": True, "side_sees_a": False, "back": True, "late_in_a": True, "late_in_root": False,
            "lookup": True, "child_parent": True}
    return out == want, f"{out}"


def _leaves(e):
    if isinstance(e, BaseExceptionGroup):
        return [y for x in e.exceptions for y in _leaves(x)]
    return [e]


async def waiting_component_gets_the_async_factorys_product():
    """C04 (and C06): a component waits for a resource; a sibling then provides it through an ASYNCHRONOUS factory:
    the asynchronous lookup the waiter makes after being woken generates the resource (once) in the surrounding
    context and the waiter gets it"""
    from asphalt.core import Component, add_resource_factory, get_resource, start_component
    calls, got = [], {}

    class Waiter(Component):
        async def start(self):
            got["v"] = await get_resource(A)

    class Provider(Component):
        async def start(self):
            await anyio.sleep(0.02)

            async def make() -> A:
                calls.append(1)
                await anyio.sleep(0)
                return A("made")
            add_resource_factory(make)

    class Root(Component):
        def __init__(self):
            self.add_component("w", Waiter)
            self.add_component("p", Provider)
    async with Context() as ctx:
        try:
            await start_component(Root, {}, timeout=3)
        except BaseException as e:  # noqa
            return False, f"startup failed: {type(e).__name__}: {[repr(x)[:80] for x in _leaves(e)]} cause {e.__cause__!r}"
        again = await ctx.get_resource(A)
    ok = isinstance(got.get("v"), A) and got["v"].tag == "made" and len(calls) == 1 and again is got["v"]
    return ok, f"waiter got {getattr(got.get('v'), 'tag', None)}, factory called {len(calls)} time(s), cached: {again is got.get('v')}"


async def factory_error_fails_the_component():
    """C07: a component whose get_resource() hits a factory that raises (here a KeyError, a LookupError like
    ResourceNotFound but not it) FAILS: ComponentStartError for that component, phase `starting`, with the
    KeyError as cause -- it does not start to wait for a publication"""
    from asphalt.core import Component, ComponentStartError, add_resource_factory, get_resource, start_component

    from asphalt.core import ResourceNotFound, get_resource_nowait

    class Needs(Component):
        async def start(self):
            await get_resource(A)
    outs = []
    for err in ("KeyError", "ResourceNotFound"):
        class Root(Component):
            def __init__(self):
                self.add_component("needs", Needs)

            async def prepare(self):
                def broken() -> A:
                    if err == "KeyError":
                        raise KeyError("missing setting")
                    get_resource_nowait(B)       # the factory's OWN dependency is missing: ResourceNotFound for B
                    return A(0)
                add_resource_factory(broken)
        out = None
        async with Context():
            try:
                with anyio.fail_after(5):
                    await start_component(Root, {}, timeout=1)
                out = "returned"
            except ComponentStartError as e:
                out = ("ComponentStartError", e.phase, e.path, type(e.__cause__).__name__)
            except BaseException as e:  # noqa
                out = (type(e).__name__,)
        outs.append(out)
    ok = outs == [("ComponentStartError", "starting", "needs", "KeyError"),
                  ("ComponentStartError", "starting", "needs", "ResourceNotFound")]
    return ok, f"{outs}"


async def timeout_is_a_timeouterror_wherever_the_component_hangs():
    """C07: when the startup times out start_component raises TimeoutError -- also when the component that hangs
    is waiting in an awaitable that is not a native coroutine (anext() of an async generator, aclose())"""
    from asphalt.core import Component, start_component
    out = []
    import time
    for how in ("anext", "sleep", "shielded-last-step", "thread-last-step"):
        async def agen():
            await anyio.sleep(30)
            yield 1

        class Hangs(Component):
            async def start(self):
                if how == "anext":
                    await anext(agen(), None)
                elif how == "shielded-last-step":
                    # the timeout strikes during a step that cannot be interrupted and is the last thing start()
                    # does: the startup did not finish within the timeout all the same
                    with anyio.CancelScope(shield=True):
                        await anyio.sleep(0.7)
                elif how == "thread-last-step":
                    await anyio.to_thread.run_sync(time.sleep, 0.7)
                else:
                    await anyio.sleep(30)
        async with Context():
            try:
                with anyio.fail_after(5):
                    await start_component(Hangs, {}, timeout=0.2)
                out.append((how, "returned"))
            except TimeoutError:
                out.append((how, "TimeoutError"))
            except BaseException as e:  # noqa
                out.append((how, type(e).__name__ + ": " + str(e)[:80]))
    return all(o[1] == "TimeoutError" for o in out), f"{out}"


async def unaccepted_task_exception_and_the_blocks_own_both_come_out():
    """C09: an Exception escaping a task (no handler) propagates out of the owning root context -- also when the
    root's block itself ends with an exception at the same time: neither is lost"""
    class BlockErr(Exception):
        pass

    class TaskErr(Exception):
        pass
    out = []
    for with_handler in (False, True):
        try:
            async with Context() as ctx:
                tf = await ctx.start_background_task_factory(exception_handler=(lambda e: False) if with_handler else None)

                async def failing():
                    await anyio.sleep(0.02)
                    raise TaskErr("task")
                tf.start_task_soon(failing)
                try:
                    await anyio.sleep(1)
                finally:
                    pass
                raise BlockErr("block")     # not reached: the crash cancels the block first
        except BaseException as e:  # noqa
            out.append(sorted(type(x).__name__ for x in _leaves(e)))
        try:
            async with Context() as ctx:
                tf = await ctx.start_background_task_factory(exception_handler=(lambda e: False) if with_handler else None)
                gate = anyio.Event()

                async def failing_later():
                    await gate.wait()
                    raise TaskErr("task")
                tf.start_task_soon(failing_later)
                ctx.add_teardown_callback(gate.set)       # the task fails while the root is being torn down
                raise BlockErr("block")
        except BaseException as e:  # noqa
            out.append(sorted(type(x).__name__ for x in _leaves(e)))
    ok = all("TaskErr" in o for o in out) and all("BlockErr" in o for o in out[1::2])
    return ok, f"{out}"


async def one_stream_over_equal_owners():
    """C10: one stream over the signals of two owners that compare equal (but are different objects) is
    subscribed to both: an event dispatched on either arrives, stamped with its own source"""
    from dataclasses import dataclass
    from asphalt.core import Event, Signal, stream_events

    @dataclass(frozen=True)
    class Owner:
        n: int
        sig = Signal(Event)
    a, b = Owner(1), Owner(1)
    got = []
    async with stream_events([a.sig, b.sig]) as st:
        a.sig.dispatch(Event())
        b.sig.dispatch(Event())
        with anyio.move_on_after(0.5):
            async for ev in st:
                got.append("a" if ev.source is a else "b" if ev.source is b else "?")
                if len(got) == 2:
                    break
    return got == ["a", "b"], f"received from {got}"


async def class_change_keeps_the_channel_and_class_level_use_is_refused():
    """C11: the bound signal belongs to the INSTANCE and the attribute: it stays the same when the instance's class
    is switched to a sibling class inheriting the same Signal; and a signal used through the class is refused by
    the module-level stream_events / wait_event too"""
    from asphalt.core import Event, Signal, UnboundSignal, stream_events, wait_event

    class Base:
        sig = Signal(Event)

    class Idle(Base):
        pass

    class Busy(Base):
        pass
    o = Idle()
    before = o.sig
    got = []
    async with before.stream_events() as st:
        o.__class__ = Busy
        after = o.sig
        o.sig.dispatch(Event())
        with anyio.move_on_after(0.5):
            async for ev in st:
                got.append(ev)
                break
    refused = []
    for name, use in (("stream", lambda: stream_events([Base.sig])), ("wait", lambda: wait_event([Base.sig])),
                      ("mixed", lambda: stream_events([o.sig, Idle.sig]))):
        try:
            with anyio.fail_after(1):
                x = use()
                if hasattr(x, "__aenter__"):
                    async with x:
                        pass
                else:
                    await x
            refused.append((name, "accepted"))
        except UnboundSignal:
            refused.append((name, "UnboundSignal"))
        except BaseException as e:  # noqa
            refused.append((name, type(e).__name__))
    ok = after is before and len(got) == 1 and all(r[1] == "UnboundSignal" for r in refused)
    return ok, f"same channel after the class change: {after is before}, delivered: {len(got)}, class-level use: {refused}"


async def wrapper_kind_decides_the_lookup():
    """C19: what decides between get_resource_nowait and `await get_resource` is the kind of the DECORATED callable
    itself: an `async def` that wraps (functools.wraps) a plain function awaits get_resource, a plain function that
    wraps an `async def` uses get_resource_nowait"""
    import functools
    from asphalt.core import AsyncResourceError, get_resource, get_resource_nowait

    def plain(*, dep: A = resource()):
        return dep

    async def coro(*, dep: A = resource()):
        return dep

    @functools.wraps(plain)
    async def async_over_plain(*args, **kwargs):
        return plain(*args, **kwargs)

    @functools.wraps(coro)
    def plain_over_async(*args, **kwargs):
        return coro(*args, **kwargs)
    f1, f2 = inject(async_over_plain), inject(plain_over_async)
    out = []
    async with Context() as ctx:
        async def make() -> A:
            return A("async-made")
        ctx.add_resource_factory(make)
        # the plain function first: like get_resource_nowait it must refuse the asynchronous factory
        try:
            r = f2()
            out.append(("plain", "returned", hasattr(r, "__await__")))
            if hasattr(r, "__await__"):
                await r
        except AsyncResourceError:
            out.append(("plain", "AsyncResourceError"))
        try:
            get_resource_nowait(A)
            out.append(("explicit-nowait", "returned"))
        except AsyncResourceError:
            out.append(("explicit-nowait", "AsyncResourceError"))
        try:
            r = await f1()
            out.append(("async", getattr(r, "tag", r)))
        except AsyncResourceError:
            out.append(("async", "AsyncResourceError"))
        out.append(("explicit-async", (await get_resource(A)).tag))
    ok = out == [("plain", "AsyncResourceError"), ("explicit-nowait", "AsyncResourceError"), ("async", "async-made"),
                 ("explicit-async", "async-made")]
    return ok, f"{out}"


async def injected_call_in_a_closed_context_is_the_explicit_call():
    """C19: every call looks the resources up in the context that is current AT THAT CALL: a second call made by a
    task whose current context has meanwhile been closed fails like the explicit lookup does (RuntimeError) before
    the body runs -- it does not run with what an earlier call was given"""
    from asphalt.core import get_resource_nowait
    ran = []

    @inject
    def f(*, dep: A = resource()):
        ran.append(dep.tag)
        return dep.tag

    @inject
    async def g(*, dep: A = resource()):
        ran.append(dep.tag)
        return dep.tag
    out = []
    proceed, finished = anyio.Event(), anyio.Event()

    async def worker():
        # inherits the request context as its current context and outlives it
        out.append(("first", f(), await g()))
        await proceed.wait()
        for name, call in (("explicit", lambda: get_resource_nowait(A)), ("sync", f), ("async", g)):
            n = len(ran)
            try:
                r = call()
                if hasattr(r, "__await__"):
                    r = await r
                out.append((name, "returned", len(ran) > n))
            except RuntimeError:
                out.append((name, "RuntimeError", len(ran) > n))
        finished.set()
    async with Context():
        async with anyio.create_task_group() as tg:
            async with Context() as request:
                request.add_resource(A("req"))
                tg.start_soon(worker)
                await anyio.sleep(0.02)
            proceed.set()
            await finished.wait()
    ok = out[0] == ("first", "req", "req") and all(o[1] == "RuntimeError" and o[2] is False for o in out[1:]) and len(out) == 4
    return ok, f"{out}"


async def rejected_add_registers_no_callback():
    """C01 (and C03): exactly the callbacks that were REGISTERED run at teardown: an add_resource() that is refused
    (ResourceConflict) leaves no teardown callback behind -- however often the caller retries"""
    from asphalt.core import ResourceConflict
    ran = []
    async with Context() as ctx:
        ctx.add_resource(A("first"), teardown_callback=lambda: ran.append("first"))
        for i in range(3):
            try:
                ctx.add_resource(A(f"again{i}"), teardown_callback=lambda i=i: ran.append(f"ghost{i}"))
                ran.append("accepted")
            except ResourceConflict:
                pass
        ctx.add_teardown_callback(lambda: ran.append("last"))
    return ran == ["last", "first"], f"ran at teardown: {ran}"


async def wait_finished_means_completely_finished():
    """C09: wait_finished() returns once the task has ENDED: its own context has been torn down (also when that
    takes time), the handler has been consulted and the handle is no longer among all_task_handles()"""
    out = []
    for ending in ("return", "raise", "cancel"):
        seen = {}
        handled = []

        def handler(exc):
            handled.append(type(exc).__name__)
            return True
        async with Context() as ctx:
            tf = await ctx.start_background_task_factory(exception_handler=handler)
            cleaned = []

            async def task():
                async def slow_cleanup():
                    with anyio.CancelScope(shield=True):
                        await anyio.sleep(0.05)
                    cleaned.append(1)
                current_context().add_teardown_callback(slow_cleanup)
                if ending == "raise":
                    raise ValueError("task")
                if ending == "cancel":
                    await anyio.sleep(5)
            h = await tf.start_task(task)

            async def waiter():
                await h.wait_finished()
                seen.update(cleaned=list(cleaned), listed=h in tf.all_task_handles(), handled=list(handled))
            async with anyio.create_task_group() as tg:
                tg.start_soon(waiter)
                await anyio.sleep(0.01)
                if ending == "cancel":
                    h.cancel()
        want_handled = ["ValueError"] if ending == "raise" else []
        out.append((ending, seen.get("cleaned") == [1], seen.get("listed") is False, seen.get("handled") == want_handled))
    return all(all(o[1:]) for o in out), f"(ending, own context torn down, handle gone, handler consulted) = {out}"


async def dead_iterator_inside_its_block_disturbs_nobody():
    """C10: a subscriber whose iteration has died (its __anext__ was cancelled by a deadline, or it closed the
    iterator) but which is still inside its `async with stream_events()` block: dispatch does not raise and the
    subscribers that came later get the event"""
    from asphalt.core import Event, Signal

    class Src:
        sig = Signal(Event)
    out = []
    for how in ("cancelled-next", "aclose"):
        src = Src()
        got = []
        async with src.sig.stream_events() as dying:
            it = dying.__aiter__()
            if how == "cancelled-next":
                with anyio.move_on_after(0.01):
                    await it.__anext__()
            else:
                await it.aclose()
            async with src.sig.stream_events() as later:
                try:
                    src.sig.dispatch(Event())
                    raised = None
                except BaseException as e:  # noqa
                    raised = type(e).__name__
                with anyio.move_on_after(0.3):
                    async for ev in later:
                        got.append(ev)
                        break
        out.append((how, raised, len(got)))
    return all(o[1] is None and o[2] == 1 for o in out), f"(how the first iterator died, dispatch raised, later subscriber received) = {out}"


async def racing_lookups_generate_once():
    """C04: lookups of one pair that race in ONE context generate once -- with a synchronous factory under the
    asynchronous lookup too, and when the generating lookup is CANCELLED the others take over instead of
    waiting for ever"""
    from asphalt.core import get_resource_nowait
    out = {}
    calls = []
    async with Context() as ctx:
        def make() -> A:
            calls.append(1)
            return A(len(calls))
        ctx.add_resource_factory(make)
        got = []

        async def look():
            got.append(await ctx.get_resource(A))
        async with anyio.create_task_group() as tg:
            for _ in range(3):
                tg.start_soon(look)
        got.append(ctx.get_resource_nowait(A))
        out["sync-factory"] = (len(calls), len({id(x) for x in got}))
    calls2 = []
    async with Context() as ctx:
        async def slow() -> B:
            calls2.append(1)
            await anyio.sleep(0.05)
            return B(len(calls2))
        ctx.add_resource_factory(slow)
        got2 = []

        async def first():
            with anyio.move_on_after(0.01):
                await ctx.get_resource(B)          # cancelled while the factory is running

        async def second():
            await anyio.sleep(0.005)
            with anyio.fail_after(2):
                got2.append(await ctx.get_resource(B))
        try:
            async with anyio.create_task_group() as tg:
                tg.start_soon(first)
                tg.start_soon(second)
            with anyio.fail_after(2):
                got2.append(await ctx.get_resource(B))
            out["cancelled-generation"] = (len(got2), len({id(x) for x in got2}))
        except BaseException as e:  # noqa
            out["cancelled-generation"] = ("failed", [type(x).__name__ for x in _leaves(e)])
    ok = out["sync-factory"] == (1, 1) and out["cancelled-generation"] == (2, 1)
    return ok, f"sync factory under racing async lookups: (calls, distinct objects) = {out['sync-factory']}; after a cancelled generation: (lookups answered, distinct objects) = {out['cancelled-generation']}"


async def failing_factory_leaves_the_current_context_alone():
    """C02 (and C12): a lookup made on ANOTHER context (the parent, by reference) whose factory raises changes
    nothing about which context is current: what is added afterwards through the shortcuts lands in the context
    the task is in, and lookups see that context's set"""
    from asphalt.core import add_resource, get_resource_nowait
    out = {}
    async with Context() as app:
        def broken() -> A:
            raise LookupError("no configuration")
        app.add_resource_factory(broken)
        async with Context() as request:
            request.add_resource(B("req"))
            for how in ("nowait", "async"):
                try:
                    if how == "nowait":
                        app.get_resource_nowait(A)
                    else:
                        await app.get_resource(A)
                except LookupError:
                    pass
            out["current"] = current_context() is request
            add_resource(A("late"), "late")
            out["late_in_request"] = request.get_resource_nowait(A, "late", optional=True) is not None
            out["late_in_app"] = app.get_resource_nowait(A, "late", optional=True) is not None
            out["sees_request"] = get_resource_nowait(B, optional=True) is not None
    want = {"current": True, "late_in_request": True, "late_in_app": False, "sees_request": True}
    return out == want, f"{out}"


async def nested_start_component_keeps_its_own_timeout():
    """C07: a start_component() call made from inside a component's start() has its own timeout: when the sub-tree
    stalls, TimeoutError is raised there after THAT timeout, whatever the outer call's timeout is"""
    from asphalt.core import Component, ComponentStartError, start_component

    class Stalls(Component):
        async def start(self):
            await anyio.sleep(30)
    seen = {}

    class Outer(Component):
        async def start(self):
            t0 = anyio.current_time()
            try:
                await start_component(Stalls, {}, timeout=0.2)
                seen["inner"] = "returned"
            except TimeoutError:
                seen["inner"] = "TimeoutError"
            except BaseException as e:  # noqa
                seen["inner"] = type(e).__name__
                raise
            finally:
                seen["after"] = round(anyio.current_time() - t0, 1)
    async with Context():
        try:
            with anyio.fail_after(5):
                await start_component(Outer, {}, timeout=None)
            seen["outer"] = "returned"
        except BaseException as e:  # noqa
            seen["outer"] = type(e).__name__
    ok = seen.get("inner") == "TimeoutError" and seen.get("outer") == "returned" and seen.get("after", 9) < 2
    return ok, f"{seen}"


async def hard_coded_kwargs_reach_the_child_as_they_are():
    """C14: the keyword arguments given to add_component() reach the child's constructor AS THEY ARE (the very
    objects, of their own types) also when the external configuration overrides some other option of that alias;
    and a type named by a module:attr reference is looked up when the tree is started, not remembered from an
    earlier start"""
    import collections
    import sys
    import types
    from asphalt.core import Component, start_component
    seen = {}

    class Child(Component):
        def __init__(self, registry=None, counters=None, level=0):
            seen["child"] = (registry, counters, level)
    reg, cnt = {"shared": []}, collections.defaultdict(int)

    class Parent(Component):
        def __init__(self):
            self.add_component("w", Child, registry=reg, counters=cnt, level=1)
    async with Context():
        await start_component(Parent, {"components": {"w": {"level": 2}}})
    r, c, lv = seen["child"]
    same = r is reg and c is cnt and type(c) is collections.defaultdict and lv == 2
    # module:attr resolved at every start
    mod = types.ModuleType("verif_fixed_mod")

    class First(Component):
        pass

    class Second(Component):
        pass
    mod.Service = First
    sys.modules["verif_fixed_mod"] = mod
    try:
        async with Context():
            a = await start_component("verif_fixed_mod:Service", {})
        mod.Service = Second
        async with Context():
            b = await start_component("verif_fixed_mod:Service", {})
    finally:
        del sys.modules["verif_fixed_mod"]
    fresh = type(a) is First and type(b) is Second
    return same and fresh, f"kwargs passed as they are: {same} (registry is the parent's: {r is reg}, counters: {type(c).__name__}, level {lv}); reference resolved at each start: {type(a).__name__}, {type(b).__name__}"


async def overriding_signal_has_its_own_event_class():
    """C11: a bound signal carries ITS attribute's event class: a subclass that declares a signal under the name of
    an inherited one gets the subclass's declaration, whichever of the instance's signals is touched first"""
    from asphalt.core import Event, Signal

    class ConfigEvent(Event):
        pass

    class ReloadEvent(Event):
        pass

    class Base:
        changed = Signal(ConfigEvent)
        other = Signal(Event)

    class Sub(Base):
        changed = Signal(ReloadEvent)
    out = []
    for first in ("other", "changed"):
        o = Sub()
        getattr(o, first)
        try:
            o.changed.dispatch(ReloadEvent())
            ok1 = True
        except TypeError:
            ok1 = False
        try:
            o.changed.dispatch(ConfigEvent())
            ok2 = False
        except TypeError:
            ok2 = True
        b = Base()
        b.other
        try:
            b.changed.dispatch(ConfigEvent())
            ok3 = True
        except TypeError:
            ok3 = False
        out.append((first, ok1, ok2, ok3))
    return all(all(x[1:]) for x in out), f"(touched first, Sub accepts its own class, Sub rejects the base's, Base accepts its own) = {out}"


async def second_half_runs_at_the_outer_teardown():
    """C01 (and C15): the second half of a @context_teardown function runs when the context that was current WHEN
    THE FUNCTION WAS CALLED is torn down -- also when the function keeps a context of its own open across its
    yield; and an add_resource() refused with ResourceConflict leaves no callback behind (C15: at the end of an
    application exactly the registered callbacks run)"""
    from asphalt.core import context_teardown
    ran = []

    @context_teardown
    async def start(tag):
        async with Context():
            ran.append(("first-half", tag))
            yield
            ran.append(("second-half", tag))
    out = None
    try:
        async with Context():
            await start("a")
            ran.append(("block",))
        out = "clean"
    except BaseException as e:  # noqa
        out = type(e).__name__ + ": " + str(e)[:60]
    ok = ran == [("first-half", "a"), ("block",), ("second-half", "a")] and out == "clean"
    return ok, f"{ran}; the outer context ended: {out}"


async def start_value_and_failed_starts():
    """C09 (start_value, outside the model): start_task() with a function that takes `task_status` returns only when
    the task has called started(), and the handle carries the value; a task that fails or ends before it has
    called started() makes start_task() raise, and its handle is NOT among all_task_handles() afterwards; the same
    through Context.start_service_task (the value is returned)"""
    out = {}
    async with Context() as ctx:
        tf = await ctx.start_background_task_factory(exception_handler=lambda e: True)
        order = []

        async def ok(*, task_status):
            order.append("before")
            await anyio.sleep(0.01)
            task_status.started("ready")
            order.append("after")
            await anyio.sleep(0.01)
        h = await tf.start_task(ok)
        out["ok"] = (h.start_value, order[:1] == ["before"], h in tf.all_task_handles())
        await h.wait_finished()
        out["ok_done"] = h not in tf.all_task_handles()

        async def fails_early(*, task_status):
            raise ValueError("no start")
        try:
            await tf.start_task(fails_early)
            out["fails_early"] = "returned"
        except BaseException as e:  # noqa
            out["fails_early"] = type(e).__name__
        out["fails_early_listed"] = len(tf.all_task_handles())

        async def ends_early(*, task_status):
            return None
        try:
            await tf.start_task(ends_early)
            out["ends_early"] = "returned"
        except BaseException as e:  # noqa
            out["ends_early"] = type(e).__name__
        out["ends_early_listed"] = len(tf.all_task_handles())

        async def svc(*, task_status):
            task_status.started(42)
            await anyio.sleep_forever()
        out["service_value"] = await ctx.start_service_task(svc, "svc")
    ok = out["ok"] == ("ready", True, True) and out["ok_done"] and out["fails_early"] != "returned" \
        and out["fails_early_listed"] == 0 and out["ends_early"] == "RuntimeError" and out["ends_early_listed"] == 0 \
        and out["service_value"] == 42
    return ok, f"{out}"


async def generic_alias_types_are_found_by_every_lookup():
    """C02: all lookup paths agree on the visible set -- also for a resource registered under a parametrised generic
    type (list[int], dict[str, int]): such type objects are EQUAL but not identical from one evaluation of the
    expression to the next"""
    out = {}
    val = [1, 2]
    made = []

    def fac():
        made.append(1)
        return {"k": len(made)}
    async with Context() as root:
        root.add_resource(val, "v", types=[list[int]])
        root.add_resource_factory(fac, "f", types=[dict[str, int]])
        async with Context() as child:
            for label, ctx in (("root", root), ("child", child)):
                out[label + ".nowait"] = ctx.get_resource_nowait(list[int], "v", optional=True) is val
                out[label + ".await"] = (await ctx.get_resource(list[int], "v", optional=True)) is val
                out[label + ".all"] = dict(ctx.get_resources(list[int])) == {"v": val}
                out[label + ".other"] = ctx.get_resource_nowait(list[str], "v", optional=True) is None \
                    and dict(ctx.get_resources(list[str])) == {}
            g = child.get_resource_nowait(dict[str, int], "f", optional=True)
            out["gen"] = g == {"k": 1}
            out["gen.await"] = (await child.get_resource(dict[str, int], "f", optional=True)) is g
            out["gen.all"] = [v for v in child.get_resources(dict[str, int]).values()] == [g] and g is not None
            out["gen.root_untouched"] = dict(root.get_resources(dict[str, int])) == {}
            out["calls"] = len(made) == 1
    bad = sorted(k for k, v in out.items() if not v)
    return not bad, f"disagreeing: {bad}"


async def every_registration_of_a_component_is_torn_down():
    """C05 (and C01): every teardown callback the components register belongs to the context that was current when
    start_component was called and runs when that context is left -- once PER REGISTRATION, also when several
    registrations are of callables that compare equal (the same bound method of a shared pool, registered by
    prepare() and start() and by two components)"""
    from asphalt.core import Component, start_component

    class Pool:
        def __init__(self):
            self.leases, self.released = 0, 0

        def lease(self):
            self.leases += 1
            current_context().add_teardown_callback(self.release)

        def release(self):
            self.released += 1
    pool = Pool()
    log = []

    class Leaf(Component):
        async def prepare(self):
            pool.lease()

        async def start(self):
            pool.lease()
            current_context().add_teardown_callback(lambda: log.append("leaf"))

    class Root(Component):
        def __init__(self):
            self.add_component("a", Leaf)
            self.add_component("b", Leaf)

        async def start(self):
            pool.lease()
    async with Context():
        await start_component(Root)
        during = (pool.leases, pool.released)
    ok = during == (5, 0) and pool.released == 5 and log == ["leaf", "leaf"]
    return ok, f"leases={pool.leases}, released during the block={during[1]}, released after it={pool.released}, others={log}"


async def timeout_watches_every_tree():
    """C07: if startup does not finish within the timeout, TimeoutError is raised -- for EVERY tree: also when the
    component that hangs sits below a plain container (`Component` with children from the configuration) of which
    another, childless, instance was seen first -- in the same tree, or in an earlier start_component() call"""
    from asphalt.core import Component, start_component

    class Staller(Component):
        async def start(self):
            await anyio.sleep(30)
    out = {}

    async def attempt(label, root, config, timeout=0.2):
        async with Context():
            try:
                with anyio.fail_after(8):
                    await start_component(root, config, timeout=timeout)
                out[label] = "returned"
            except TimeoutError as e:
                out[label] = "TimeoutError" if "component tree" in str(e) else "the harness's own deadline (startup hung)"
            except BaseException as e:  # noqa
                out[label] = type(e).__name__ + ": " + str(e)[:80]
    await attempt("same tree", Component, {"components": {"a": {"type": Component},
                                                         "b": {"type": Component, "components": {"stall": {"type": Staller}}}}})
    await attempt("trivial first", Component, {}, timeout=5)     # must simply succeed: generous, also on a busy machine
    await attempt("then stalling", Component, {"components": {"stall": {"type": Staller}}})
    want = {"same tree": "TimeoutError", "trivial first": "returned", "then stalling": "TimeoutError"}
    return out == want, f"{out}"


async def factories_waiting_on_each_other_complete():
    """C05 (and C04): every ACYCLIC pattern of siblings waiting for each other's resources completes -- also when the
    waiting happens inside asynchronous resource factories: generating one resource must not hold up the generation
    of an unrelated one (A's factory waits for B; B's publisher first needs factory-made C), and a factory may itself
    need another factory-made resource (D's factory awaits C)"""
    from asphalt.core import Component, add_resource, add_resource_factory, get_resource, start_component
    got = {}

    class TA:
        pass

    class TB:
        pass

    class TC:
        pass

    class TD:
        pass

    class Root(Component):
        def __init__(self):
            self.add_component("provider_b", ProviderB)
            self.add_component("consumer", Consumer)
            self.add_component("chained", Chained)

        async def prepare(self):
            async def make_a():
                got["b_in_factory"] = await get_resource(TB)
                return TA()

            async def make_c():
                await anyio.sleep(0.01)
                return TC()

            async def make_d():
                got["c_in_factory"] = await get_resource(TC)
                return TD()
            add_resource_factory(make_a, types=[TA])
            add_resource_factory(make_c, types=[TC])
            add_resource_factory(make_d, types=[TD])

    class Consumer(Component):
        async def start(self):
            got["a"] = await get_resource(TA)

    class ProviderB(Component):
        async def start(self):
            await anyio.sleep(0.1)            # the consumer's request for A is under way by now
            got["c"] = await get_resource(TC)
            add_resource(TB())

    class Chained(Component):
        async def start(self):
            got["d"] = await get_resource(TD)
    err = None
    async with Context():
        try:
            with anyio.fail_after(10):
                await start_component(Root, {}, timeout=4)
        except BaseException as e:  # noqa
            err = f"{type(e).__name__}: {str(e)[:100]}" + (f" caused by {e.__cause__!r}"[:160] if e.__cause__ else "")
    ok = err is None and isinstance(got.get("a"), TA) and isinstance(got.get("d"), TD) and isinstance(got.get("c"), TC) \
        and got.get("c") is got.get("c_in_factory")
    return ok, f"error={err}, got={ {k: type(v).__name__ for k, v in got.items()} }"


async def nested_tree_publications_release_waiters():
    """C06 (and C14): a tree started with start_component() from inside the start() of a component deployed under an
    alias `kind/name` publishes under the names ITS components give: whoever waits for (Thing, 'default') -- inside
    the nested tree or beside it -- is released by the nested publisher, before or after the request"""
    from asphalt.core import Component, add_resource, get_resource, start_component
    got = {}

    class Thing:
        pass

    class Early:
        pass

    class InnerProvider(Component):
        async def prepare(self):
            add_resource(Early())               # published before anybody asks

        async def start(self):
            await anyio.sleep(0.1)
            add_resource(Thing())               # published after the requests began

    class InnerConsumer(Component):
        async def start(self):
            got["inner.early"] = await get_resource(Early)
            got["inner"] = await get_resource(Thing)

    class InnerRoot(Component):
        def __init__(self):
            self.add_component("provider", InnerProvider)
            self.add_component("consumer", InnerConsumer)

    class Host(Component):
        async def start(self):
            await start_component(InnerRoot, {}, timeout=2)
            got["host"] = await get_resource(Thing)

    class Beside(Component):
        async def start(self):
            got["beside"] = await get_resource(Thing)

    class Root(Component):
        def __init__(self):
            self.add_component("subsystem/main", Host)
            self.add_component("beside", Beside)
    err = None
    async with Context():
        try:
            with anyio.fail_after(6):
                await start_component(Root, {}, timeout=3)
        except BaseException as e:  # noqa
            err = f"{type(e).__name__}: {str(e)[:100]}"
    ok = err is None and all(isinstance(got.get(k), Thing) for k in ("inner", "host", "beside")) \
        and got["inner"] is got["host"] is got["beside"] and isinstance(got.get("inner.early"), Early)
    return ok, f"error={err}, got={ {k: type(v).__name__ for k, v in got.items()} }"


async def left_from_another_task_is_closed_all_the_same():
    """C13: after the block has been left the context is closed WHATEVER went wrong on the way out: a child (with and
    without teardown callbacks) entered in one task and left from another -- restoring the current context fails
    there -- is closed afterwards: every guarded operation is refused, and its parent can be left without a report
    of an open child"""
    out = {}
    for label, with_cb in (("plain", False), ("with-callback", True)):
        parent_report = None
        try:
            async with Context():
                child = Context()
                entered, leave = anyio.Event(), anyio.Event()

                async def enters():
                    await child.__aenter__()
                    if with_cb:
                        child.add_teardown_callback(lambda: None)
                    entered.set()
                    await leave.wait()
                async with anyio.create_task_group() as tg:
                    tg.start_soon(enters)
                    await entered.wait()
                    try:
                        await child.__aexit__(None, None, None)
                        how = "left"
                    except BaseException as e:  # noqa
                        how = type(e).__name__
                    refused = []
                    for name, call in (("add_resource", lambda: child.add_resource(1)),
                                       ("add_teardown_callback", lambda: child.add_teardown_callback(lambda: None)),
                                       ("get_resource_nowait", lambda: child.get_resource_nowait(int, optional=True))):
                        try:
                            call()
                            refused.append(name + ":accepted")
                        except RuntimeError:
                            pass
                        except BaseException as e:  # noqa
                            refused.append(name + ":" + type(e).__name__)
                    try:
                        await child.__aenter__()
                        refused.append("re-entry:accepted")
                    except RuntimeError:
                        pass
                    out[label] = {"closed": child.closed, "not_refused": refused, "how": how}
                    leave.set()
        except BaseException as e:  # noqa
            parent_report = f"{type(e).__name__}: {str(e)[:80]}"
        out.setdefault(label, {"closed": None, "not_refused": ["scenario did not get that far"]})["parent"] = parent_report
    ok = all(v["closed"] is True and not v["not_refused"] and v["parent"] is None for v in out.values())
    return ok, f"{out}"


async def refused_entry_changes_nothing():
    """C12 (and C13): an attempt to enter a context that is already open is refused -- every time -- and changes
    nothing: the context stays current while its block runs, and leaving the block restores what was current
    before, for the owner and for the tasks it spawned"""
    out = {}
    async with Context() as outer:
        async with Context() as ctx:
            attempts = []
            for _ in range(3):
                try:
                    await ctx.__aenter__()
                    attempts.append("accepted")
                except RuntimeError:
                    attempts.append("refused")
            out["attempts"] = attempts
            out["current_inside"] = current_context() is ctx

            async def worker():
                try:
                    async with ctx:
                        return "accepted"
                except RuntimeError:
                    return "refused"
            async with anyio.create_task_group() as tg:
                res = []

                async def run_worker():
                    res.append(await worker())
                tg.start_soon(run_worker)
                tg.start_soon(run_worker)
            out["workers"] = res
            out["still_current"] = current_context() is ctx
        out["closed"] = ctx.closed
        out["restored"] = current_context() is outer
    want = {"attempts": ["refused"] * 3, "current_inside": True, "workers": ["refused"] * 2, "still_current": True,
            "closed": True, "restored": True}
    return out == want, f"{out}"


async def parent_is_the_current_context_itself():
    """C12: a newly created context takes the context CURRENT AT ITS CREATION as its parent -- that very object, also
    when an application's Context subclass compares (and hashes) by value and an equal, already closed, instance was
    current when an earlier context was created"""
    class RequestContext(Context):
        def __init__(self, request_id):
            super().__init__()
            self.request_id = request_id

        def __eq__(self, other):
            return isinstance(other, RequestContext) and other.request_id == self.request_id

        def __hash__(self):
            return hash(self.request_id)
    out = {}
    async with Context():
        first = RequestContext(7)
        async with first:
            async with Context() as inner1:
                out["first"] = inner1.parent is first
        retry = RequestContext(7)              # the request is retried: an equal context, a different object
        async with retry:
            async with Context() as inner2:
                out["retry"] = inner2.parent is retry
                out["not_the_closed_one"] = inner2.parent is not first and not inner2.parent.closed

            async def in_task():
                async with Context() as inner3:
                    out["task"] = inner3.parent is retry
            async with anyio.create_task_group() as tg:
                tg.start_soon(in_task)
    bad = sorted(k for k, v in out.items() if not v)
    return not bad and len(out) == 4, f"{out}"


async def default_name_is_remapped_only_while_starting():
    """C14: "default" becomes the `/name` suffix of the alias only for what a component adds IN its start(): what it
    adds through the same view of the context in prepare(), or after its start() has returned (called by its parent's
    start(), or after start_component() has returned), is published under "default"; explicit names never change"""
    from asphalt.core import Component, get_resources, start_component

    class Res:
        def __init__(self, label):
            self.label = label

        def __repr__(self):
            return self.label

    reg = {}

    class Child(Component):
        def __init__(self):
            reg["child"] = self

        async def prepare(self):
            self.view = current_context()
            self.view.add_resource(Res("prepare"), types=[A])

        async def start(self):
            self.view = current_context()
            self.view.add_resource(Res("start"), types=[B])
            self.view.add_resource(Res("explicit"), "explicit", types=[B])

        def publish_later(self, ty, fty):
            self.view.add_resource(Res("later"), types=[ty])
            self.view.add_resource_factory(lambda: Res("later-factory"), types=[fty])

    class TL1:
        pass

    class TL2:
        pass

    class TF1:
        pass

    class TF2:
        pass

    class Root(Component):
        def __init__(self):
            self.add_component("kind/alt", Child)

        async def start(self):
            reg["child"].publish_later(TL1, TF1)
    names = {}
    async with Context() as ctx:
        await start_component(Root)
        reg["child"].publish_later(TL2, TF2)
        names = {"prepare": sorted(get_resources(A)), "start": sorted(get_resources(B)),
                 "parent_start": sorted(get_resources(TL1)), "afterwards": sorted(get_resources(TL2)),
                 "factory_parent_start": ctx.get_resource_nowait(TF1, "default", optional=True) is not None,
                 "factory_afterwards": ctx.get_resource_nowait(TF2, "default", optional=True) is not None}
    want = {"prepare": ["default"], "start": ["alt", "explicit"], "parent_start": ["default"], "afterwards": ["default"],
            "factory_parent_start": True, "factory_afterwards": True}
    return names == want, f"{names} (expected {want})"


async def annotations_mean_what_they_say():
    """C19: an injected parameter is bound to get_resource(T, name) for the T its annotation NAMES -- also when the
    annotation is a forward reference to a class defined only after the decoration (resolved at the first call), and
    when T is a generic alias that merely has None among its arguments (Callable[..., None] is not Optional)"""
    import typing
    from asphalt.core import ResourceNotFound
    out = {}

    class Outer:
        @inject
        async def use(self, *, dep: Dep = resource()):        # noqa: F821  (a string: `from __future__ import annotations`)
            return dep

        @inject
        def use_sync(self, *, dep: Dep = resource("named")):  # noqa: F821
            return dep

        class Dep:
            pass
    CB = typing.Callable[..., None]

    @inject
    async def notify(*, cb: typing.Callable[..., None] = resource()):
        return cb

    @inject
    def notify_sync(*, cb: typing.Callable[..., None] = resource()):
        return cb

    def callback(*args):
        return None
    async with Context() as ctx:
        for label, call in (("missing", notify), ("missing_sync", notify_sync)):
            try:
                r = call()
                r = await r if hasattr(r, "__await__") else r
                out[label] = f"returned {r!r}"
            except ResourceNotFound:
                out[label] = "ResourceNotFound"
            except BaseException as e:  # noqa
                out[label] = type(e).__name__
        d1, d2 = Outer.Dep(), Outer.Dep()
        ctx.add_resource(d1)
        ctx.add_resource(d2, "named")
        ctx.add_resource(callback, types=[CB])
        ctx.add_resource("a string")
        try:
            out["forward"] = (await Outer().use()) is d1
            out["forward_sync"] = Outer().use_sync() is d2
            out["callable"] = (await notify()) is callback
            out["callable_sync"] = notify_sync() is callback
        except BaseException as e:  # noqa
            out["error"] = f"{type(e).__name__}: {str(e)[:80]}"
    want = {"missing": "ResourceNotFound", "missing_sync": "ResourceNotFound", "forward": True, "forward_sync": True,
            "callable": True, "callable_sync": True}
    return out == want, f"{out}"


async def failed_adds_of_unusual_shapes_change_nothing():
    """C03: an add_resource / add_resource_factory call that raises FOR ANY REASON leaves the context observably
    unchanged -- also when what makes it raise is a type that is a class but cannot be hashed (after an ordinary type
    in the same call), and also through a component's view of the context with a factory callback `typing` cannot
    introspect (a partial, a callable object) given together with explicit types: whatever such a call does, it does
    not BOTH raise AND leave the factory registered"""
    import functools
    from asphalt.core import Component, start_component

    class Meta(type):
        __hash__ = None

        def __eq__(cls, other):
            return cls is other

    class Unhashable(metaclass=Meta):
        pass
    out = {}
    events = []
    ran = []
    async with Context() as ctx:
        async with ctx.resource_added.stream_events() as stream:
            try:
                ctx.add_resource(A("refused"), "x", types=[A, Unhashable], teardown_callback=lambda: ran.append("refused"))
                out["unhashable"] = "accepted"
            except TypeError:
                out["unhashable"] = "TypeError"
            except BaseException as e:  # noqa
                out["unhashable"] = type(e).__name__
            out["nothing_under_A"] = ctx.get_resource_nowait(A, "x", optional=True) is None and not ctx.get_resources(A) \
                and (await ctx.get_resource(A, "x", optional=True)) is None
            try:
                ctx.add_resource(A("second"), "x")
                out["pair_still_free"] = True
            except BaseException as e:  # noqa
                out["pair_still_free"] = type(e).__name__

            def make_b():
                return B("made")

            class CallableFactory:
                def __call__(self):
                    return B("made by an object")
            verdicts = {}

            class Comp(Component):
                async def start(self):
                    view = current_context()
                    for label, cb in (("partial", functools.partial(make_b)), ("object", CallableFactory())):
                        try:
                            view.add_resource_factory(cb, label, types=[B])
                            verdicts[label] = "registered"
                        except BaseException as e:  # noqa
                            there = True
                            try:
                                ctx.add_resource_factory(make_b, label, types=[B])
                                there = False
                            except BaseException:  # noqa
                                pass
                            verdicts[label] = f"raised {type(e).__name__} and the factory is " + ("REGISTERED" if there else "not registered")
            await start_component(Comp)
            out["component_factories"] = verdicts
            ctx.add_resource(A("sentinel"), "sentinel")
            async for ev in stream:
                if ev.resource_name == "sentinel":
                    break
                events.append((ev.resource_name, ev.is_factory))
    out["events"] = events
    out["ran"] = ran
    ok = out["unhashable"] == "TypeError" and out["nothing_under_A"] and out["pair_still_free"] is True and ran == [] \
        and all(v == "registered" or v.endswith("not registered") for v in verdicts.values()) and len(verdicts) == 2 \
        and ("x", False) in events and [e for e in events if e[0] == "x"] == [("x", False)] \
        and all(len([e for e in events if e[0] == lab]) == (1 if verdicts[lab] == "registered" else 0) for lab in verdicts)
    return ok, f"{out}"


async def partly_shadowed_factory_releases_its_waiter():
    """C06: a request is released as soon as any component has published a matching resource FACTORY -- also a factory
    of two types of which the other one is already taken by a regular resource of that name"""
    from asphalt.core import Component, add_resource, add_resource_factory, get_resource, start_component
    got = {}

    class TA:
        pass

    class TB:
        pass

    class Waiter(Component):
        async def start(self):
            got["b"] = await get_resource(TB, "shared")

    class Provider(Component):
        async def start(self):
            add_resource(TA(), "shared")
            await anyio.sleep(0.1)                  # the waiter's request is pending by now
            add_resource_factory(lambda: TB(), "shared", types=[TA, TB])

    class Root(Component):
        def __init__(self):
            self.add_component("waiter", Waiter)
            self.add_component("provider", Provider)
    err = None
    async with Context():
        try:
            with anyio.fail_after(10):
                await start_component(Root, {}, timeout=4)
        except BaseException as e:  # noqa
            err = f"{type(e).__name__}: {str(e)[:80]}"
    return err is None and isinstance(got.get("b"), TB), f"error={err}, got={ {k: type(v).__name__ for k, v in got.items()} }"


async def refused_resource_of_a_failed_start_leaves_no_callback():
    """C07 (and C03): what was registered before the failure stays owned by the surrounding context and is torn down
    in reverse order when it is left -- and ONLY that: the teardown callback that came with the add_resource() call
    which failed (a conflict with a sibling's resource) was never registered and does not run"""
    from asphalt.core import Component, ComponentStartError, ResourceConflict, add_resource, start_component
    log = []

    class First(Component):
        async def start(self):
            add_resource(A("primary"), "pool", teardown_callback=lambda: log.append("primary closed"))

    class Second(Component):
        async def start(self):
            await anyio.sleep(0.05)
            add_resource(B("own"), "own", teardown_callback=lambda: log.append("own closed"))
            add_resource(A("replica"), "pool", teardown_callback=lambda: log.append("replica closed"))

    class Root(Component):
        def __init__(self):
            self.add_component("first", First)
            self.add_component("second", Second)
    err = None
    async with Context():
        try:
            await start_component(Root, {}, timeout=3)
        except ComponentStartError as e:
            err = "ComponentStartError" + ("(ResourceConflict)" if isinstance(e.__cause__, ResourceConflict) else f"({e.__cause__!r})")
        except BaseException as e:  # noqa
            err = type(e).__name__
        before = list(log)
    ok = err == "ComponentStartError(ResourceConflict)" and before == [] and log == ["own closed", "primary closed"]
    return ok, f"error={err}, callbacks before the context was left={before}, at teardown={log}"


async def registration_during_a_service_tasks_stop():
    """C08 (and C01): a teardown callable is invoked EXACTLY once, also when it (or a callback that runs beside it)
    registers something on the owning context while the teardown is under way -- that late registration runs, once,
    before the callbacks registered earlier; and a service task started from a teardown callback is stopped and
    waited for like any other: nothing is still running once the block has been left"""
    log = []
    running = set()
    async with Context() as owner:
        owner.add_teardown_callback(lambda: log.append("earliest"))
        stop = anyio.Event()

        async def worker():
            running.add("worker")
            try:
                await stop.wait()
                await anyio.sleep(0.02)
            finally:
                running.discard("worker")
                log.append("worker finished")

        def stop_worker():
            log.append("action")
            owner.add_teardown_callback(lambda: log.append("handed over by the action"))
            stop.set()
        await owner.start_service_task(worker, "worker", teardown_action=stop_worker)

        async def late():
            running.add("late")
            try:
                await anyio.sleep_forever()
            finally:
                running.discard("late")
                log.append("late finished")

        async def starts_a_task():
            log.append("starter")
            await owner.start_service_task(late, "late")
        owner.add_teardown_callback(starts_a_task)
    want = ["starter", "late finished", "action", "worker finished", "handed over by the action", "earliest"]
    return log == want and not running, f"log={log} (expected {want}), still running={sorted(running)}"


async def queued_event_keeps_its_source():
    """C10: a yielded event is stamped with the dispatching instance as source -- also when the subscriber consumes it
    only after the dispatcher has dropped its own last reference to that instance (the event queued in a stream; the
    event handed to a wait_event() task that has not run yet)"""
    import gc
    from asphalt.core import Event, Signal

    class Owner:
        sig = Signal(Event)

        def __init__(self, tag):
            self.tag = tag
    out = {}
    owner = Owner("first")
    async with owner.sig.stream_events() as stream:
        owner.sig.dispatch(Event())
        del owner
        gc.collect()
        ev = await stream.__anext__()
        out["stream"] = getattr(ev.source, "tag", None) == "first" and ev.topic == "sig"
    owner = Owner("second")
    box = []

    async def waiter(sig):
        box.append(await sig.wait_event())
    async with anyio.create_task_group() as tg:
        tg.start_soon(waiter, owner.sig)
        await anyio.sleep(0.05)
        owner.sig.dispatch(Event())
        del owner
        gc.collect()
    out["wait_event"] = bool(box) and getattr(box[0].source, "tag", None) == "second"
    return all(out.values()), f"{out}"


async def closing_anothers_context_leaves_the_closers_own_alone():
    """C12: tasks never disturb each other: a task that closes (calls __aexit__ on) a context ANOTHER task entered --
    whatever that call does for the context -- keeps its own current context: inside its own block it is still that
    block's context, a context it creates there gets that parent, and leaving its block restores what it had before"""
    out = {}
    async with Context() as root:
        session = Context()
        entered, release = anyio.Event(), anyio.Event()

        async def opener():
            async with Context():
                await session.__aenter__()
                entered.set()
                await release.wait()

        async def closer():
            await entered.wait()
            before = current_context()
            async with Context() as mine:
                try:
                    await session.__aexit__(None, None, None)
                except BaseException:  # noqa
                    pass
                out["still_mine"] = current_context() is mine
                out["child_parent"] = Context().parent is mine
            out["restored"] = current_context() is before
            release.set()
        try:
            async with anyio.create_task_group() as tg:
                tg.start_soon(opener)
                tg.start_soon(closer)
        except BaseException:  # noqa   (the opener's own block may complain about the hand-over: not our subject)
            pass
        out["root_still_current"] = current_context() is root
    want = {"still_mine": True, "child_parent": True, "restored": True, "root_still_current": True}
    return out == want, f"{out}"


async def lookup_made_inside_awaited_after_the_block_is_refused():
    """C13: after the block has been left every guarded operation raises RuntimeError and changes nothing -- what counts
    is when the operation RUNS: a `ctx.get_resource(...)` coroutine created while the context was open and awaited
    only after it has been closed is refused, calls no factory, stores nothing and announces nothing"""
    calls = []
    out = {}

    def factory():
        calls.append(1)
        return A("made")
    async with Context() as outer:
        ctx = Context()
        async with ctx:
            ctx.add_resource(B("static"))
            ctx.add_resource_factory(factory, types=[A])
            pending = [ctx.get_resource(A), ctx.get_resource(B), ctx.get_resource(int, optional=True)]
        for label, coro in zip(("factory", "static", "optional"), pending):
            try:
                r = await coro
                out[label] = f"returned {r!r}"
            except RuntimeError:
                out[label] = "RuntimeError"
            except BaseException as e:  # noqa
                out[label] = type(e).__name__
        out["factory_calls"] = len(calls)
        out["closed"] = ctx.closed
        out["outer_untouched"] = not outer.get_resources(A) and not outer.get_resources(B)
    want = {"factory": "RuntimeError", "static": "RuntimeError", "optional": "RuntimeError", "factory_calls": 0,
            "closed": True, "outer_untouched": True}
    return out == want, f"{out}"


async def overridden_default_types_need_not_exist():
    """C14: the external configuration determines the tree: a child whose hard-coded default type (explicit, or derived
    from its alias) names a plugin that is not installed is built from the type the external configuration gives
    it, with the hard-coded keyword arguments merged in and its default resource name from the alias"""
    from asphalt.core import Component, get_resources, start_component
    made = []

    class Cache(Component):
        def __init__(self, **kw):
            made.append(("Cache", dict(kw)))

        async def start(self):
            from asphalt.core import add_resource
            add_resource(A("cache"))

    class Parent(Component):
        def __init__(self):
            self.add_component("fancycache/sessions", ttl=5)
            self.add_component("other", type="no_such_package.plugins:Thing", size=1)
    err = None
    names = None
    async with Context():
        try:
            await start_component(Parent, {"components": {"fancycache/sessions": {"type": Cache, "ttl": 9},
                                                          "other": {"type": Cache}}})
            names = sorted(get_resources(A))
        except BaseException as e:  # noqa
            err = f"{type(e).__name__}: {str(e)[:120]}"
    want = [("Cache", {"ttl": 9}), ("Cache", {"size": 1})]
    ok = err is None and sorted(made, key=str) == sorted(want, key=str) and names == ["default", "sessions"]
    return ok, f"error={err}, constructed={made}, resource names={names}"


async def injected_lookups_happen_in_signature_order():
    """C19: the decorated call behaves as the explicit lookups made ONE AFTER THE OTHER in the order of the signature --
    optional and mandatory parameters alike: with factories whose products depend on what has been generated before,
    the injected function receives what the explicit sequence receives"""
    from typing import Optional
    from asphalt.core import get_resource, get_resource_nowait

    class First:
        def __init__(self, n):
            self.n = n

    class Second:
        def __init__(self, n):
            self.n = n

    def build():
        made = []

        def make_first():
            made.append("first")
            return First(len(made))

        def make_second():
            made.append("second")
            return Second(len(made))
        return made, make_first, make_second

    @inject
    def sync_fn(*, a: Optional[First] = resource(), b: Second = resource()):
        return a.n, b.n

    @inject
    async def async_fn(*, a: Optional[First] = resource(), b: Second = resource()):
        return a.n, b.n
    out = {}
    for label in ("sync", "async"):
        results = []
        for how in ("explicit", "injected"):
            made, mf, ms = build()
            async with Context() as ctx:
                ctx.add_resource_factory(mf, types=[First])
                ctx.add_resource_factory(ms, types=[Second])
                if how == "explicit" and label == "sync":
                    r = (get_resource_nowait(First, optional=True).n, get_resource_nowait(Second).n)
                elif how == "explicit":
                    r = ((await get_resource(First, optional=True)).n, (await get_resource(Second)).n)
                elif label == "sync":
                    r = sync_fn()
                else:
                    r = await async_fn()
            results.append((r, tuple(made)))
        out[label] = results[0] == results[1]
        out[label + "_detail"] = results
    return out["sync"] and out["async"], f"{out}"


async def same_configuration_object_started_twice():
    """C05 (and C14): start_component instantiates the WHOLE hierarchy and runs every method exactly once -- every
    time: the same configuration object (children declared only there, two levels deep) handed to start_component()
    a second time, in another context, gives the same tree and the same order, and is itself left as it was"""
    import copy
    from asphalt.core import Component, start_component
    trace = []

    class Leaf(Component):
        def __init__(self, tag="?"):
            self.tag = tag
            trace.append(("create", tag))

        async def prepare(self):
            trace.append(("prepare", self.tag))

        async def start(self):
            trace.append(("start", self.tag))

    class Mid(Leaf):
        pass
    config = {"tag": "root", "components": {"mid": {"type": Mid, "tag": "mid", "components": {
        "leaf1": {"type": Leaf, "tag": "leaf1"}, "leaf2": {"type": Leaf, "tag": "leaf2"}}}}}
    before = copy.deepcopy(config)
    runs = []
    err = None
    for _ in range(2):
        trace.clear()
        async with Context():
            try:
                await start_component(Leaf, config, timeout=3)
            except BaseException as e:  # noqa
                err = f"{type(e).__name__}: {str(e)[:100]}"
        runs.append(sorted(trace))
    ok = err is None and runs[0] == runs[1] and len(runs[0]) == 12 and config == before
    return ok, f"error={err}, first={len(runs[0])} events, second={len(runs[1])} events, configuration unchanged={config == before}"


async def injected_coroutine_in_a_component_waits_like_the_explicit_lookup():
    """C19: a call of an injected COROUTINE function behaves as `await get_resource(T, name)` for every mandatory
    parameter -- in a starting component that means waiting for a sibling to publish the resource -- and as
    `await get_resource(T, name, optional=True)` (which never waits) for every Optional one"""
    from typing import Optional
    from asphalt.core import Component, add_resource, start_component
    got = {}

    class Needs(Component):
        @inject
        async def start(self, *, b: Optional[B] = resource(), a: A = resource()):
            got["a"], got["b"] = a, b

    class Provides(Component):
        async def start(self):
            await anyio.sleep(0.1)
            add_resource(A("late"))
            add_resource(B("late too"))

    class Root(Component):
        def __init__(self):
            self.add_component("needs", Needs)
            self.add_component("provides", Provides)
    err = None
    async with Context():
        try:
            await start_component(Root, {}, timeout=3)
        except BaseException as e:  # noqa
            err = f"{type(e).__name__}: {str(e)[:80]} caused by {e.__cause__!r}"[:200]
    ok = err is None and isinstance(got.get("a"), A) and got.get("b", "unset") is None
    return ok, f"error={err}, got={ {k: (v if v is None else type(v).__name__) for k, v in got.items()} }"


async def factory_for_an_iterable_class_releases_its_waiter():
    """C06: a request is released by a matching resource FACTORY -- also when the single type given as `types=` is a
    class that can itself be iterated (an Enum class): the factory is registered, and announced, under that type"""
    import enum
    from asphalt.core import Component, add_resource_factory, get_resource, start_component
    got = {}

    class Mode(enum.Enum):
        fast = 1
        safe = 2

    class Waiter(Component):
        async def start(self):
            got["mode"] = await get_resource(Mode)

    class Provider(Component):
        async def start(self):
            await anyio.sleep(0.1)
            add_resource_factory(lambda: Mode.safe, types=Mode)

    class Root(Component):
        def __init__(self):
            self.add_component("waiter", Waiter)
            self.add_component("provider", Provider)
    err = None
    async with Context():
        try:
            with anyio.fail_after(10):
                await start_component(Root, {}, timeout=4)
        except BaseException as e:  # noqa
            err = f"{type(e).__name__}: {str(e)[:80]}"
    return err is None and got.get("mode") is Mode.safe, f"error={err}, got={got}"


async def component_service_task_keeps_its_teardown_action():
    """C08: a service task is stopped AS ITS teardown_action DICTATES -- also one started by a component through its
    view of the context: with None it is not cancelled but awaited (it ends by itself once a callback registered
    later has told it to), a falsy callable is invoked exactly once"""
    from asphalt.core import Component, add_teardown_callback, start_component, start_service_task
    log = []

    class FalsyStop:
        def __init__(self, ev):
            self.ev = ev

        def __bool__(self):
            return False

        def __call__(self):
            log.append("falsy action invoked")
            self.ev.set()

    class Comp(Component):
        async def start(self):
            done = anyio.Event()

            async def flusher():
                try:
                    await done.wait()
                    await anyio.sleep(0.02)
                    log.append("flusher finished by itself")
                except anyio.get_cancelled_exc_class():
                    log.append("flusher CANCELLED")
                    raise
            add_teardown_callback(lambda: log.append("resource closed"))
            await current_context().start_service_task(flusher, "flusher", teardown_action=None)
            add_teardown_callback(done.set)
            stop = anyio.Event()

            async def second():
                try:
                    await stop.wait()
                    log.append("second finished")
                except anyio.get_cancelled_exc_class():
                    log.append("second CANCELLED")
                    raise
            await start_service_task(second, "second", teardown_action=FalsyStop(stop))
    async with Context():
        await start_component(Comp)
    want = ["falsy action invoked", "second finished", "flusher finished by itself", "resource closed"]
    return log == want, f"log={log} (expected {want})"


async def callback_registered_from_elsewhere_runs_in_its_own_context():
    """C12: a context is still current while it is being torn down -- for every callback registered on it, also one
    registered on it from inside a nested context (or by another task in a context of its own): when it runs,
    current_context() is the context being torn down and a context created there takes it as its parent"""
    seen = {}
    async with Context() as root:
        async with Context() as outer:
            def cb():
                seen["current"] = current_context() is outer
                seen["parent_of_new"] = Context().parent is outer

            async def acb():
                seen["current_async"] = current_context() is outer
            async with Context():
                outer.add_teardown_callback(cb)
                outer.add_teardown_callback(acb)

            async def elsewhere():
                async with Context():
                    outer.add_teardown_callback(lambda: seen.__setitem__("from_task", current_context() is outer))
            async with anyio.create_task_group() as tg:
                tg.start_soon(elsewhere)
        seen["restored"] = current_context() is root
    want = {"current": True, "parent_of_new": True, "current_async": True, "from_task": True, "restored": True}
    return seen == want, f"{seen}"


async def task_started_on_an_outer_context_belongs_to_it():
    """C12 (and C08): a service task runs in a child of the context IT WAS STARTED ON -- also when the call is made
    from inside a context nested below that one: the task's context has that outer context as its parent, does not
    see what the nested context holds, and the nested block can be left while the task runs on"""
    out = {}
    async with Context() as root:
        release = anyio.Event()

        async def task():
            ctx = current_context()
            out["parent_is_root"] = ctx.parent is root
            out["sees_private"] = ctx.get_resource_nowait(A, "private", optional=True) is not None
            await release.wait()
        try:
            async with Context() as request:
                request.add_resource(A("private"), "private")
                await root.start_service_task(task, "worker", teardown_action=release.set)
            out["nested_left"] = "quietly"
        except BaseException as e:  # noqa
            out["nested_left"] = f"{type(e).__name__}: {str(e)[:60]}"
        out["current"] = current_context() is root
    want = {"parent_is_root": True, "sees_private": False, "nested_left": "quietly", "current": True}
    return out == want, f"{out}"


async def cancelled_exit_with_a_task_still_inside_is_reported():
    """C13: leaving a context while a child entered from it is still open is reported -- also when that child is the
    context of a service task (or of a task of a task factory) whose shutdown outlasts the CANCELLED exit of its owner"""
    out = {}

    def corruption(exc, seen=None):
        seen = seen if seen is not None else set()
        if exc is None or id(exc) in seen:
            return False
        seen.add(id(exc))
        if isinstance(exc, RuntimeError) and "stack corruption" in str(exc):
            return True
        return any(corruption(x, seen) for x in list(getattr(exc, "exceptions", ())) + [exc.__cause__, exc.__context__])
    for label in ("service", "factory"):
        started, release = anyio.Event(), anyio.Event()
        box = []

        async def worker():
            box.append(current_context())
            started.set()
            try:
                await release.wait()
            finally:
                with anyio.CancelScope(shield=True):
                    await release.wait()
        raised = None
        async with Context():
            with anyio.CancelScope() as scope:
                try:
                    async with Context() as ctx:
                        if label == "factory":
                            factory = await ctx.start_background_task_factory()
                            await factory.start_task(worker, "worker")
                        else:
                            await ctx.start_service_task(worker, "worker")
                        await started.wait()
                        scope.cancel()
                        await anyio.sleep(1)
                except BaseException as e:  # noqa
                    raised = e
            child = box[0]
            while child.parent is not None and child.parent is not ctx:
                child = child.parent
            out[label] = {"closed": ctx.closed, "child_open": child.parent is ctx and not child.closed,
                          "reported": corruption(raised)}
            release.set()
            with anyio.CancelScope(shield=True):
                for _ in range(200):
                    if child.closed and box[0].closed:
                        break
                    await anyio.sleep(0.005)
    ok = all(v == {"closed": True, "child_open": True, "reported": True} for v in out.values())
    return ok, f"{out}"


async def tree_started_in_a_nested_context_belongs_to_it():
    """C05 / C07: everything the components register belongs to the context that was CURRENT when start_component was
    called -- a nested one here, not the outermost: it is visible there (and not above), and it is torn down when
    THAT context is left, in reverse order -- after a successful startup and after one that a component made fail"""
    from asphalt.core import Component, ComponentStartError, add_resource, add_teardown_callback, start_component
    out = {}
    for label, fails in (("started", False), ("failed", True)):
        log = []

        class Early(Component):
            async def start(self):
                add_resource(A("early"), "early", teardown_callback=lambda: log.append("early resource"))
                add_teardown_callback(lambda: log.append("early callback"))

        class Late(Component):
            async def start(self):
                await anyio.sleep(0.05)
                if fails:
                    raise KeyError("late failed")
                add_teardown_callback(lambda: log.append("late callback"))

        class Root(Component):
            def __init__(self):
                self.add_component("early", Early)
                self.add_component("late", Late)
        async with Context() as top:
            async with Context() as nested:
                try:
                    await start_component(Root, {}, timeout=3)
                    how = "returned"
                except ComponentStartError:
                    how = "ComponentStartError"
                seen = {"how": how, "in_nested": nested.get_resource_nowait(A, "early", optional=True) is not None,
                        "in_top": top.get_resource_nowait(A, "early", optional=True) is not None, "before_exit": list(log)}
            seen["after_nested_exit"] = list(log)
        seen["after_top_exit"] = list(log)
        out[label] = seen
    want_log = {"started": ["late callback", "early callback", "early resource"], "failed": ["early callback", "early resource"]}
    ok = all(out[k]["how"] == ("ComponentStartError" if k == "failed" else "returned") and out[k]["in_nested"]
             and not out[k]["in_top"] and out[k]["before_exit"] == [] and out[k]["after_nested_exit"] == want_log[k]
             and out[k]["after_top_exit"] == want_log[k] for k in out)
    return ok, f"{out}"


async def context_created_in_a_nested_component_has_a_plain_parent():
    """C12: a newly created context takes the context current at its creation as its parent -- inside a component that
    is the context the tree was started in (the component's view of it is never a parent), also for a tree started
    by start_component() from inside another component's start(); a task spawned there inherits the same"""
    from asphalt.core import Component, start_component
    seen = {}

    class Inner(Component):
        async def start(self):
            c = Context()
            seen["inner_parent_is_surrounding"] = c.parent is seen["surrounding"]
            async with c:
                seen["inner_current"] = current_context() is c

                async def task():
                    seen["task_parent"] = Context().parent is c
                async with anyio.create_task_group() as tg:
                    tg.start_soon(task)
            seen["inner_restored_view"] = type(current_context()).__name__ == "ComponentContext"

    class Host(Component):
        async def start(self):
            seen["host_parent_is_surrounding"] = Context().parent is seen["surrounding"]
            await start_component(Inner, {}, timeout=2)

    class Root(Component):
        def __init__(self):
            self.add_component("host/alt", Host)
    async with Context() as surrounding:
        seen["surrounding"] = surrounding
        await start_component(Root, {}, timeout=3)
    seen.pop("surrounding")
    want = {"inner_parent_is_surrounding": True, "inner_current": True, "task_parent": True, "inner_restored_view": True,
            "host_parent_is_surrounding": True}
    return seen == want, f"{seen}"


SCENARIOS = {f.__name__: f for f in (context_created_in_a_nested_component_has_a_plain_parent, tree_started_in_a_nested_context_belongs_to_it, factory_for_an_iterable_class_releases_its_waiter, component_service_task_keeps_its_teardown_action, callback_registered_from_elsewhere_runs_in_its_own_context, task_started_on_an_outer_context_belongs_to_it, cancelled_exit_with_a_task_still_inside_is_reported, injected_coroutine_in_a_component_waits_like_the_explicit_lookup, same_configuration_object_started_twice, injected_lookups_happen_in_signature_order, closing_anothers_context_leaves_the_closers_own_alone, lookup_made_inside_awaited_after_the_block_is_refused, overridden_default_types_need_not_exist, queued_event_keeps_its_source, failed_adds_of_unusual_shapes_change_nothing, partly_shadowed_factory_releases_its_waiter, refused_resource_of_a_failed_start_leaves_no_callback, registration_during_a_service_tasks_stop, annotations_mean_what_they_say, default_name_is_remapped_only_while_starting, parent_is_the_current_context_itself, refused_entry_changes_nothing, left_from_another_task_is_closed_all_the_same, factories_waiting_on_each_other_complete, nested_tree_publications_release_waiters, timeout_watches_every_tree, every_registration_of_a_component_is_torn_down, generic_alias_types_are_found_by_every_lookup, optional_injection_is_the_optional_lookup, start_value_and_failed_starts, hard_coded_kwargs_reach_the_child_as_they_are,
                                     overriding_signal_has_its_own_event_class, second_half_runs_at_the_outer_teardown, rejected_add_registers_no_callback,
                                     wait_finished_means_completely_finished, dead_iterator_inside_its_block_disturbs_nobody,
                                     racing_lookups_generate_once, failing_factory_leaves_the_current_context_alone,
                                     nested_start_component_keeps_its_own_timeout, waiting_component_gets_the_async_factorys_product,
                                     factory_error_fails_the_component, timeout_is_a_timeouterror_wherever_the_component_hangs,
                                     unaccepted_task_exception_and_the_blocks_own_both_come_out, one_stream_over_equal_owners,
                                     class_change_keeps_the_channel_and_class_level_use_is_refused, wrapper_kind_decides_the_lookup,
                                     injected_call_in_a_closed_context_is_the_explicit_call, lookup_paths_agree_inside_a_component,
                                     leaving_a_context_with_an_explicit_parent, leaked_child_survives_gc, closed_after_teardown_raised_baseexception,
                                     owner_left_by_baseexception_waits_for_tasks,
                                     handler_sees_the_escaping_exception_once, failed_subscription_leaves_nothing,
                                     redispatched_event_is_stamped_again, tree_started_inside_a_component,
                                     caller_names_injected_parameter, leaked_inner_context, parent_left_before_child,failed_generation_with_waiters, inject_across_short_lived_contexts,
                                     inherited_context_outlives_block, overlapping_injected_calls)}


def main():
    payload = json.load(sys.stdin)
    out = []
    for name in payload["scenarios"]:
        try:
            ok, detail = guarded_run(SCENARIOS[name], backend=payload["backend"], seconds=30)
        except BaseException as e:  # noqa
            ok, detail = False, f"{type(e).__name__}: {e}"[:400]
        out.append({"name": name, "backend": payload["backend"], "ok": bool(ok), "detail": detail})
    print("@@" + json.dumps({"results": out}))


if __name__ == "__main__":
    main()
