"""Lock-step director shared by the scheduled harnesses: user-level code supplied to asphalt awaits
named gates; the director waits for exact quiescence, records which gates are being waited on and
what was logged since the last step, and opens the gate its schedule selects.  Virtual time on both
backends (no sleeping)."""
from __future__ import annotations

import asyncio
import selectors

import anyio
import sniffio


async def settle():
    """Return when every other task is blocked (exact quiescence)."""
    if sniffio.current_async_library() == "trio":
        import trio.testing
        await trio.testing.wait_all_tasks_blocked()
    else:
        loop = asyncio.get_running_loop()
        n = 0
        while n < 2:
            await asyncio.sleep(0)
            n = n + 1 if len(loop._ready) == 0 else 0


class VLoop(asyncio.SelectorEventLoop):
    """asyncio loop whose clock only moves when the director says so."""

    def __init__(self):
        super().__init__(selectors.DefaultSelector())
        self._vtime = 1000.0

    def time(self):
        return self._vtime


def backend_options(backend):
    if backend == "trio":
        import trio.testing
        return {"clock": trio.testing.MockClock()}
    return {"loop_factory": VLoop}


async def jump(dt):
    """advance virtual time by dt seconds and let expired timers run"""
    if sniffio.current_async_library() == "trio":
        import trio
        trio.lowlevel.current_clock().jump(dt)
    else:
        loop = asyncio.get_running_loop()
        loop._vtime += dt
    await settle()


class Director:
    def __init__(self):
        self.waiting = {}        # gate name -> Event
        self.log = []            # observations since the last step

    def obs(self, *o):
        self.log.append(list(o))

    async def gate(self, name, on_cancel=None):
        ev = anyio.Event()
        self.waiting[name] = ev
        try:
            await ev.wait()
        except anyio.get_cancelled_exc_class():
            if on_cancel is not None:
                on_cancel()
            raise
        finally:
            self.waiting.pop(name, None)

    def open(self, name):
        self.waiting.pop(name).set()

    def drain(self):
        out, self.log = self.log, []
        return out


class Hang(BaseException):
    """raised in the main thread by the real-time watchdog"""


def run_guarded(fn, backend, seconds=10):
    """anyio.run(fn) under a real-time watchdog: a program that cannot even be cancelled (a shielded wait, a lost
    wake-up of the harness itself) must not hang the check.  Returns ("ok", result) or ("hang", None)."""
    import signal

    import anyio

    def on_alarm(signum, frame):
        raise Hang()
    old = signal.signal(signal.SIGALRM, on_alarm)
    signal.setitimer(signal.ITIMER_REAL, seconds)
    try:
        return "ok", anyio.run(fn, backend=backend, backend_options=backend_options(backend))
    except Hang:
        return "hang", None
    except BaseException as e:  # noqa
        # the watchdog's exception may come out wrapped (trio) or mangled
        def has_hang(x):
            return isinstance(x, Hang) or (isinstance(x, BaseExceptionGroup) and any(has_hang(y) for y in x.exceptions)) \
                or (x.__cause__ is not None and has_hang(x.__cause__)) or (x.__context__ is not None and has_hang(x.__context__))
        if has_hang(e):
            return "hang", None
        raise
    finally:
        signal.setitimer(signal.ITIMER_REAL, 0)
        signal.signal(signal.SIGALRM, old)
