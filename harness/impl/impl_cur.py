"""Runs generated programs of several tasks that enter and leave nested contexts (by return,
exception, cancellation, failing teardown), observe current_context(), create contexts, start probe
components and spawn tasks (task groups, service tasks, task factories) under a lock-step director,
and records every observation.  Public API only.

payload: {"cases": [{"seed": str, "n": int, "backend": ...} | {"ops": [...], "backend": ...}]}"""
from __future__ import annotations

import json
import random
import sys

import anyio
from guard import guarded_run  # noqa: E402
import sniffio
from asphalt.core import (
    Component,
    Context,
    NoCurrentContext,
    current_context,
    start_background_task_factory,
    start_component,
    start_service_task,
)


async def settle():
    if sniffio.current_async_library() == "trio":
        import trio.testing
        await trio.testing.wait_all_tasks_blocked()
    else:
        import asyncio
        loop = asyncio.get_running_loop()
        n = 0
        while n < 2:
            await asyncio.sleep(0)
            n = n + 1 if len(loop._ready) == 0 else 0


class Marker(Exception):
    pass


class TdError(Exception):
    pass


def only(e, kinds):
    if isinstance(e, BaseExceptionGroup):
        return all(only(x, kinds) for x in e.exceptions)
    return isinstance(e, kinds)


class T:
    def __init__(self, idx):
        self.idx = idx
        self.box = []
        self.ev = anyio.Event()
        self.created = 0
        self.depth = 0          # contexts entered by this task itself
        self.alive = True
        self.services = 0
        self.pre = None
        self.pre_parent = None

    async def next(self):
        while not self.box:
            await self.ev.wait()
            self.ev = anyio.Event()
        return self.box.pop(0)


class Env:
    def __init__(self, tg, rng):
        self.tg, self.r = tg, rng
        self.tasks = [T(0)]
        self.names = {}
        self.keep = []
        self.reports = []
        self.probe = {}
        self.lstacks = {0: []}
        self.closed = set()

    def name(self, ctx, t=None):
        if ctx is None:
            return None
        if id(ctx) not in self.names:
            if t is None:
                return ["?", type(ctx).__name__]
            self.names[id(ctx)] = [t.idx, t.created]
            t.created += 1
            self.keep.append(ctx)
        return self.names[id(ctx)]

    def cur(self):
        try:
            return current_context()
        except NoCurrentContext:
            return None

    async def frame(self, t):
        env = self
        while True:
            cmd = await t.next()
            k = cmd["op"]
            if k in ("Enter", "EnterPre"):
                if k == "Enter":
                    ctx = Context()
                else:
                    ctx, t.pre = t.pre, None
                nm = env.name(ctx, t)
                try:
                    with anyio.CancelScope() as scope:
                        async with ctx:
                            t.depth += 1
                            env.reports.append({"k": "Entered", "c": nm, "parent": env.name(ctx.parent),
                                                "cur_ok": env.cur() is ctx})
                            tdp = {}

                            def td_probe(ctx=ctx, tdp=tdp):
                                # while a context is being torn down it is still the current one: a context
                                # created now takes it as parent
                                tdp["cur"] = env.cur() is ctx
                                tdp["parent"] = Context().parent is ctx
                            ctx.add_teardown_callback(td_probe)
                            how = await env.frame(t)
                            t.depth -= 1
                            if how == "ByException":
                                raise Marker()
                            if how == "ByTeardownError":
                                def boom():
                                    raise TdError()
                                ctx.add_teardown_callback(boom)
                            if how == "ByCancel":
                                scope.cancel()
                                await anyio.sleep_forever()
                except BaseException as e:  # noqa
                    if not only(e, (Marker, TdError)):
                        raise
                env.reports.append({"k": "Current", "c": env.name(env.cur()),
                                    "td_ok": tdp.get("cur") is True and tdp.get("parent") is True, "td": dict(tdp)})
            elif k == "Leave":
                return cmd["how"]
            elif k == "Observe":
                env.reports.append({"k": "Current", "c": env.name(env.cur())})
            elif k == "NewCtx":
                ctx = Context()
                t.pre = ctx
                t.pre_parent = env.name(ctx.parent)
                env.name(ctx, t)
                env.reports.append({"k": "Parent", "p": env.name(ctx.parent)})
            elif k == "CompProbe":
                rec = {}

                env.nprobe = getattr(env, "nprobe", 0) + 1
                tag = f"probe{env.nprobe}"

                class ProbeRes:
                    pass

                def sees(child, m, name):
                    # the new context is a snapshot of its parent as it is NOW: what the component itself has
                    # just published must be in it
                    return child.get_resource_nowait(ProbeRes, name, optional=True) is m

                class Probe(Component):
                    async def start(self):
                        c = current_context()
                        rec["comp"] = type(c).__name__
                        m = ProbeRes()
                        c.add_resource(m, tag + "s")
                        # given explicitly or found implicitly, the parent is the real context, never the
                        # per-component view (which goes away when startup is over); odd probes name it
                        child = Context(c) if env.nprobe % 2 else Context()
                        rec["parent"] = child.parent
                        async with child:
                            rec["start_sees"] = sees(child, m, tag + "s") and sees(child, rec["pm"], tag + "p")
                        rec["prepare_seen"] = rec.get("prep")

                    async def prepare(self):
                        m = rec["pm"] = ProbeRes()
                        current_context().add_resource(m, tag + "p")
                        child = Context()
                        rec["prep"] = child.parent
                        async with child:
                            rec["prep_sees"] = sees(child, m, tag + "p")
                await start_component(Probe)
                ok = rec.get("comp") == "ComponentContext" and rec.get("prep") is rec.get("parent")
                view = bool(rec.get("prep_sees")) and bool(rec.get("start_sees"))
                env.reports.append({"k": "Parent", "p": env.name(rec.get("parent")), "comp_ok": ok, "view_ok": view})
            elif k == "Spawn":
                nt = T(len(env.tasks))
                env.tasks.append(nt)
                if cmd["kind"] == "SPlain":
                    env.tg.start_soon(env.task_main, nt, "SPlain")
                else:
                    t.services += 1
                    how = cmd.get("via", "service")
                    if how == "service":
                        # the target is a plain callable handing back a coroutine: the part of it that runs when it
                        # is CALLED already sees the task's own context
                        await start_service_task(lambda: env.task_main(nt, "SService", (env.cur(),)), f"svc{nt.idx}",
                                                 teardown_action="cancel")
                    else:
                        tf = await start_background_task_factory()
                        tf.start_task_soon(lambda: env.task_main(nt, "SService", (env.cur(),)))
            elif k == "Finish":
                return "finish"

    async def task_main(self, t, kind, at_call=()):
        cur = self.cur()
        if at_call and at_call[0] is not cur:
            cur = at_call[0]          # what the synchronous part of the target saw: reported instead
        if kind == "SService":
            nm = self.name(cur, t)
            self.reports.append({"k": "Spawned", "t": t.idx, "cur": nm, "parent": self.name(cur.parent) if cur else None})
        else:
            self.reports.append({"k": "Spawned", "t": t.idx, "cur": self.name(cur), "parent": None})
        await self.frame(t)
        t.alive = False
        self.reports.append({"k": "Done"})

    async def exec(self, op):
        self.reports = []
        t = self.tasks[op["t"]]
        t.box.append(op)
        t.ev.set()
        await settle()
        if len(self.reports) != 1:
            return {"k": "odd", "reports": self.reports[:4]}
        return self.reports[0]

    # ---------- generation
    def next_op(self):
        r = self.r
        live = [t for t in self.tasks if t.alive]
        t = r.choice(live)
        k = r.random()
        has_ctx = t.depth > 0 or (t.idx > 0 and getattr(t, "inherited", False))
        st_ = self.lstacks.get(t.idx, [])
        stale = bool(st_) and tuple(st_[-1]) in self.closed     # the inherited context has been closed meanwhile
        if stale:
            return {"op": "Observe", "t": t.idx} if k < 0.7 or t.idx == 0 or t.depth or t.services else \
                {"op": "Finish", "t": t.idx}
        if k < 0.10 and t.depth < 4 and t.pre is not None and (t.pre_parent is None or tuple(t.pre_parent) not in self.closed):
            return {"op": "EnterPre", "t": t.idx}
        if k < 0.28 and t.depth < 4:
            return {"op": "Enter", "t": t.idx}
        if k < 0.50 and t.depth > 0 and t.services == 0 and self.may_leave(t):
            return {"op": "Leave", "t": t.idx, "how": r.choice(["ByReturn", "ByException", "ByCancel", "ByTeardownError"])}
        if k < 0.70:
            return {"op": "Observe", "t": t.idx}
        if k < 0.78:
            return {"op": "NewCtx", "t": t.idx}
        if k < 0.84 and t.depth > 0:
            return {"op": "CompProbe", "t": t.idx}
        if k < 0.94 and len(self.tasks) < 5:
            if t.depth > 0 and r.random() < 0.5:
                return {"op": "Spawn", "t": t.idx, "kind": "SService", "via": "service"}
            return {"op": "Spawn", "t": t.idx, "kind": "SPlain"}
        if t.idx > 0 and t.depth == 0 and t.services == 0 and (not hasattr(t, "owner") or self.may_leave(t)):
            return {"op": "Finish", "t": t.idx}
        return {"op": "Observe", "t": t.idx}

    def may_leave(self, t):
        """leaving a context while another task is inside a context entered below it (or runs as a service
        task under it) is a usage error (stack corruption / teardown waits): not generated"""
        st = self.lstacks.get(t.idx, [])
        if not st:
            return False
        c = st[-1]
        for u, su in self.lstacks.items():
            if u != t.idx and self.tasks[u].alive and c in su and su.index(c) < len(su) - 1:
                return False
        return True

    def cur_known(self, t):
        return t.depth > 0 or getattr(t, "has_base", False)


async def run_case(case):
    steps = []
    finished = []
    try:
        await run_steps(case, steps, finished)
    except BaseException:  # noqa
        # everything is cancelled at once at the end: contexts may then be left out of order
        if not finished:
            raise
    return {"backend": case["backend"], "seed": case.get("seed"), "steps": steps}


async def run_steps(case, steps, finished):
    async with anyio.create_task_group() as tg:
        env = Env(tg, random.Random(case.get("seed", "0")))
        tg.start_soon(env.frame, env.tasks[0])
        await settle()
        fixed = case.get("ops")
        n = len(fixed) if fixed is not None else case["n"]
        for i in range(n):
            op = fixed[i] if fixed is not None else env.next_op()
            with anyio.fail_after(20):
                out = await env.exec(op)
            ls = env.lstacks.setdefault(op["t"], [])
            if out.get("k") == "Entered":
                ls.append(out["c"])
            elif op["op"] == "Leave" and ls:
                env.closed.add(tuple(ls.pop()))
            elif op["op"] == "Finish" and ls and hasattr(env.tasks[op["t"]], "owner"):
                env.closed.add(tuple(ls[-1]))
            if op["op"] == "Spawn" and out.get("k") == "Spawned":
                top_ = ls[-1] if ls else None
                env.lstacks[out["t"]] = ([top_] if top_ else []) + ([out["cur"]] if op["kind"] == "SService" else [])
            if op["op"] == "Spawn" and out.get("k") == "Spawned":
                nt = env.tasks[out["t"]]
                nt.has_base = out["cur"] is not None
                if op["kind"] == "SService":
                    nt.owner = op["t"]
            if op["op"] == "Finish":
                ft = env.tasks[op["t"]]
                ft.alive = False
                if hasattr(ft, "owner"):
                    env.tasks[ft.owner].services -= 1
            steps.append({"op": op, "out": out})
        finished.append(True)
        tg.cancel_scope.cancel()


def main():
    payload = json.load(sys.stdin)
    res = []
    for case in payload["cases"]:
        try:
            res.append(guarded_run(run_case, case, backend=case["backend"]))
        except BaseException:  # noqa
            import traceback
            res.append({"backend": case["backend"], "seed": case.get("seed"), "steps": [],
                        "crash": traceback.format_exc()[-2000:]})
    print("@@" + json.dumps({"results": res}))


if __name__ == "__main__":
    main()
