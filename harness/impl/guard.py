"""A real-time watchdog around anyio.run for the implementation runners: a program that cannot be cancelled (a
shielded wait introduced by a change to asphalt, a lost wake-up of the harness itself) must not hang the check."""
from __future__ import annotations

import signal

import anyio


class HarnessHang(Exception):
    """the case did not end within the real-time limit"""


class _Alarm(BaseException):
    pass


_SLOW = [0]      # cases of this process that did not come to an end (watchdog, or a failure after > 15 s)


def guarded_run(fn, *args, backend, backend_options=None, seconds=60):
    import time
    if _SLOW[0] >= 2:
        # enough: do not spend the whole time budget of the check waiting for cases that no longer end
        raise HarnessHang("not run: two earlier cases of this batch did not come to an end")
    t0 = time.time()

    def on_alarm(signum, frame):
        raise _Alarm()

    def has_alarm(x, depth=0):
        if depth > 8 or x is None:
            return False
        return isinstance(x, _Alarm) or (isinstance(x, BaseExceptionGroup) and any(has_alarm(y, depth + 1) for y in x.exceptions)) \
            or has_alarm(x.__cause__, depth + 1) or has_alarm(x.__context__, depth + 1)
    old = signal.signal(signal.SIGALRM, on_alarm)
    # repeating: an alarm that lands inside a handler which swallows every BaseException (a harness task recording
    # how its context ended, say) is followed by another one a second later, until one gets through
    signal.setitimer(signal.ITIMER_REAL, seconds, 1.0)
    try:
        return anyio.run(fn, *args, backend=backend, backend_options=backend_options or {})
    except BaseException as e:  # noqa
        if has_alarm(e):
            _SLOW[0] += 1
            raise HarnessHang(f"the case did not end within {seconds} s of real time") from None
        if time.time() - t0 > 15:
            _SLOW[0] += 1
        raise
    finally:
        signal.setitimer(signal.ITIMER_REAL, 0)
        signal.signal(signal.SIGALRM, old)
