"""Histories of context operations (as in impl_res.py) interleaved with @inject-decorated functions
that are generated as source text, compiled, and called with some entered context as the current
context (in that context's own task, or in a task spawned from it).

payload: {"cases": [{"seed": str, "n": int, "backend": ...}]}"""
from __future__ import annotations

import json
import os
import random
import sys
import warnings

sys.path.insert(0, os.path.dirname(os.path.abspath(__file__)))
import anyio  # noqa: E402
from guard import guarded_run  # noqa: E402
import impl_res  # noqa: E402
from asphalt.core import inject, resource  # noqa: E402
from impl_res import CLASSES, Env, err_name, val_json  # noqa: E402

ANN = {
    "T": ["T{t}", '"T{t}"', '"LocalT{t}"'],
    "Opt": ["Optional[T{t}]", "T{t} | None", '"Optional[T{t}]"', "Union[T{t}, None]", "None | T{t}",
            '"LocalT{t} | None"', "Optional['T{t}']", "Union['T{t}', None]", '"Optional[\'T{t}\']"',
            "Optional['LocalT{t}']"],
    "Bad": ["Union[T{t}, T{u}]", "T{t} | T{u} | None", "Optional[Union[T{t}, T{u}]]"],
}


def build_source(spec):
    """spec: {"coro": bool, "params": [{"name", "kind", "default": none|plain|dep:<name>|marker, "ann": text|None}]}"""
    groups = {"PosOnly": [], "PosOrKw": [], "KwOnly": []}
    star, starstar = None, None
    for p in spec["params"]:
        if p["kind"] == "VarPos":
            star = p
        elif p["kind"] == "VarKw":
            starstar = p
        else:
            groups[p["kind"]].append(p)

    def fmt(p):
        s = p["name"]
        if p["ann"] is not None:
            s += ": " + p["ann"]
        d = p["default"]
        if d == "plain":
            s += " = 'dflt'" if p["ann"] is None else " = 'dflt'"
        elif d == "marker":
            s += " = resource"
        elif d.startswith("dep:"):
            s += f" = resource({d[4:]!r})" if d[4:] != "default" or p.get("explicit_default") else " = resource()"
        return s
    parts = [fmt(p) for p in groups["PosOnly"]]
    if groups["PosOnly"]:
        parts.append("/")
    parts += [fmt(p) for p in groups["PosOrKw"]]
    if star is not None:
        parts.append("*" + star["name"])
    elif groups["KwOnly"]:
        parts.append("*")
    parts += [fmt(p) for p in groups["KwOnly"]]
    if starstar is not None:
        parts.append("**" + starstar["name"])
    names = [p["name"] for p in spec["params"]]
    if spec.get("late"):
        # a module-level function whose string annotations name classes that are defined only later
        src = f"{'async ' if spec['coro'] else ''}def f({', '.join(parts)}):\n"
        src += "    LOG.append({" + ", ".join(f"{n!r}: {n}" for n in names) + "})\n"
        src += "    return 'ret'\n"
        src += "try:\n    g = inject(f)\nexcept TypeError:\n    g = 'REJECTED'\n"
        return src
    src = "def make(T0, T1, T2, T3, resource, inject, Optional, Union, LOG):\n"
    src += "    LocalT0, LocalT1, LocalT2, LocalT3 = T0, T1, T2, T3\n"
    src += f"    {'async ' if spec['coro'] else ''}def f({', '.join(parts)}):\n"
    src += "        LOG.append({" + ", ".join(f"{n!r}: {n}" for n in names) + "})\n"
    src += "        return 'ret'\n"
    src += "    try:\n        g = inject(f)\n    except TypeError:\n        g = 'REJECTED'\n"
    src += "    return f, g\n"
    return src


class InjEnv(Env):
    def gen_sig(self, r):
        coro = r.random() < 0.5
        params = []
        n = 0

        def new(kind, default, ann):
            nonlocal n
            n += 1
            params.append({"name": f"p{n}", "kind": kind, "default": default, "ann": ann})
        malformed = r.random() < 0.12
        if r.random() < 0.3:
            new("PosOnly", "none", r.choice([None, "int"]))
        posonly_dep = malformed and r.random() < 0.3
        if posonly_dep:
            new("PosOnly", "dep:default", "T0")
        for _ in range(0 if posonly_dep else r.choice([0, 1, 1, 2])):
            new("PosOrKw", "none", r.choice([None, "int", "str"]))
        for _ in range(r.choice([0, 1, 2, 2])):
            self.add_dep(r, new, "PosOrKw", malformed)
        if r.random() < 0.2:
            new("PosOrKw", "plain", None)
        if r.random() < 0.25:
            new("VarPos", "none", None)
        for _ in range(r.choice([0, 0, 1, 2])):
            self.add_dep(r, new, "KwOnly", malformed)
        if r.random() < 0.25:
            new("KwOnly", "plain", "str")
        if r.random() < 0.2:
            new("VarKw", "none", None)
        spec = {"coro": coro, "params": params}
        if not malformed and r.random() < 0.15:
            # every injected annotation becomes a forward reference to a class defined after the first call
            ok = False
            for p in params:
                if p["default"].startswith("dep:") and p["ann"] and "Local" not in p["ann"]:
                    a = p["ann"].strip('"')
                    for i in range(4):
                        a = a.replace(f"T{i}", f"LateT{i}")
                    p["ann"] = '"' + a + '"'
                    ok = True
                elif p["default"].startswith("dep:") and p["ann"]:
                    p["ann"] = p["ann"].replace("LocalT", "LateT")
                    ok = True
            spec["late"] = ok
        return spec

    def add_dep(self, r, new, kind, malformed):
        t, name = self.pick_key(r)
        if t >= 4:
            t = r.randrange(4)
        k = r.random()
        if malformed and k < 0.3:
            new(kind, f"dep:{name}", None)                       # unannotated
            return
        if malformed and k < 0.5:
            new(kind, "marker", f"T{t}")                          # resource without parentheses
            return
        if k < 0.05:
            u = (t + 1) % 4
            new(kind, f"dep:{name}", r.choice(ANN["Bad"]).format(t=t, u=u))
            return
        fam = "Opt" if r.random() < 0.35 else "T"
        new(kind, f"dep:{name}", r.choice(ANN[fam]).format(t=t))

    def model_sig(self, spec):
        out = []
        for p in spec["params"]:
            d = p["default"]
            dflt = {"none": "DNone", "plain": "DPlain", "marker": "DMarkerFn"}.get(d) or ("dep", d[4:])
            a = p["ann"]
            if d.startswith("dep:") or d == "marker":
                if a is None:
                    ann = "ANone"
                else:
                    digits = [int(ch) for ch in a if ch.isdigit()]
                    bad = len(set(digits)) > 1
                    opt = ("Optional" in a or "None" in a) and not bad
                    ann = "ABadUnion" if bad else (("AOpt", digits[0]) if opt else ("ATy", digits[0]))
            else:
                ann = "ANone" if a is None else ("ATy", 0)
            out.append({"kind": p["kind"], "default": dflt, "ann": ann})
        return out

    async def exec(self, op):
        if op["op"] != "Inject":
            return await super().exec(op)
        h = self.hs[op["c"]]
        spec = op["spec"]
        src = build_source(spec)
        ns = {}
        from typing import Optional, Union
        if not spec.get("late"):
            exec(compile(src, "<generated>", "exec"), ns)   # noqa: S102
        log = []
        late = bool(spec.get("late"))
        with warnings.catch_warnings(record=True) as w:
            warnings.simplefilter("always")
            if late:
                ns2 = {"resource": resource, "inject": inject, "Optional": Optional, "Union": Union, "LOG": log,
                       **{f"T{i}": CLASSES[i] for i in range(4)}}
                exec(compile(src, "<generated-late>", "exec"), ns2)   # noqa: S102
                f, g = ns2["f"], ns2["g"]
            else:
                f, g = ns["make"](CLASSES[0], CLASSES[1], CLASSES[2], CLASSES[3], resource, inject, Optional, Union, log)
        if isinstance(g, str):
            return {"k": "Rejected"}
        if g is f:
            return {"k": "Unchanged", "warned": bool(w)}
        # positional arguments for the parameters without defaults
        args, kwargs = [], {}
        for p in spec["params"]:
            if p["default"] == "none" and p["kind"] in ("PosOnly", "PosOrKw"):
                args.append(f"arg-{p['name']}")
        if any(p["kind"] == "VarKw" for p in spec["params"]):
            kwargs["extra_kw"] = 1
        self.current_ctx = h.idx

        async def job():
            async def call():
                if spec["coro"]:
                    return await g(*args, **kwargs)
                return g(*args, **kwargs)
            if op.get("subtask"):
                box = []

                async def runner():
                    try:
                        box.append(("ok", await call()))
                    except BaseException as e:  # noqa
                        box.append(("exc", e))
                async with anyio.create_task_group() as tg:
                    tg.start_soon(runner)
                if box[0][0] == "exc":
                    raise box[0][1]
                return box[0][1]
            return await call()
        async def run_job():
            h.job = job
            h.job_done = anyio.Event()
            h.leave.set()
            with anyio.fail_after(10):
                await h.job_done.wait()
            return h.job_result
        if late and not isinstance(g, str) and g is not f:
            # first call: the forward references cannot be resolved yet -> NameError before any lookup
            kind, val = await run_job()
            if kind != "exc" or not isinstance(val, NameError) or log:
                return {"k": "Call", "r": "odd", "detail": f"unresolvable forward reference: {kind} {val!r}"}
            for i in range(4):
                ns2[f"LateT{i}"] = CLASSES[i]
        kind, val = await run_job()
        if kind == "exc":
            if log:
                return {"k": "Call", "r": "body-ran-then-raised", "e": err_name(val)}
            if isinstance(val, TypeError):
                return {"k": "Call", "r": "TypeError", "detail": str(val)[:100]}
            return {"k": "Call", "r": "Raised", "e": err_name(val)}
        if len(log) != 1 or val != "ret":
            return {"k": "Call", "r": "odd", "detail": f"log={len(log)} ret={val!r}"}
        seen = log[0]
        bound, passthrough_ok = [], True
        it = iter(args)
        for p in spec["params"]:
            v = seen[p["name"]]
            if p["default"].startswith("dep:"):
                bound.append(None if v is None else val_json(v))
            elif p["default"] == "none" and p["kind"] in ("PosOnly", "PosOrKw"):
                passthrough_ok &= v == next(it)
            elif p["default"] == "plain":
                passthrough_ok &= v == "dflt"
            elif p["kind"] == "VarPos":
                passthrough_ok &= v == ()
            elif p["kind"] == "VarKw":
                passthrough_ok &= v == {"extra_kw": 1}
        # an optional parameter that received None: the explicit optional lookup, made right now in the same
        # context, must not find anything either (it changes nothing when it finds nothing)
        explicit_found = []
        for p, ms in zip(spec["params"], op["model_sig"]):
            if p["default"].startswith("dep:") and seen[p["name"]] is None and isinstance(ms["ann"], (list, tuple)) \
                    and ms["ann"][0] == "AOpt":
                t, name = ms["ann"][1], ms["default"][1]

                async def job(t=t, name=name):
                    try:
                        if spec["coro"]:
                            return await h.ctx.get_resource(impl_res.ty_obj(t), name, optional=True)
                        return h.ctx.get_resource_nowait(impl_res.ty_obj(t), name, optional=True)
                    except Exception:  # noqa
                        return None
                kind2, val2 = await run_job()
                if kind2 == "ok" and val2 is not None:
                    explicit_found.append([t, name, val_json(val2)])
        return {"k": "Call", "r": "Body", "bound": bound, "passthrough_ok": passthrough_ok,
                "explicit_found": explicit_found}

    def next_op(self):
        r = self.r
        openc = [h for h in self.hs if h.state == "open"]
        if openc and r.random() < 0.3:
            spec = self.gen_sig(r)
            tok = self.next_tok + 1000
            self.next_tok += 20
            return {"op": "Inject", "c": r.choice(openc).idx, "spec": spec, "model_sig": self.model_sig(spec),
                    "subtask": r.random() < 0.3, "tok": tok}
        while True:
            op = super().next_op()
            if op["op"] == "AddFactory" and op["kind"] == "FAsyncSusp":
                op["kind"] = r.choice(["FSync", "FAsyncImm"])      # injected calls must not suspend in a gate
            return op


async def run_case(case):
    steps = []
    async with anyio.create_task_group() as tg:
        env = InjEnv(tg, random.Random(case.get("seed", "0")))
        env.plan = []
        fixed = case.get("ops")
        n = len(fixed) if fixed is not None else case["n"]
        for i in range(n):
            op = fixed[i] if fixed is not None else env.next_op()
            with anyio.fail_after(20):
                out = await env.exec(op)
            steps.append({"op": op, "out": out})
        for h in env.hs:
            for rec in h.pending.values():
                rec["gate"].set()
            h.job = None
            h.leave.set()
            h.finish.set()
        tg.cancel_scope.cancel()
    return {"backend": case["backend"], "seed": case.get("seed"), "steps": steps}


def main():
    payload = json.load(sys.stdin)
    res = []
    for case in payload["cases"]:
        try:
            res.append(guarded_run(run_case, case, backend=case["backend"]))
        except BaseException:  # noqa
            import traceback
            res.append({"backend": case["backend"], "seed": case.get("seed"), "steps": [],
                        "crash": traceback.format_exc()[-2000:]})
    print("@@" + json.dumps({"results": res}))


if __name__ == "__main__":
    main()
