"""Shared by C10 and C11: run generated signal programs on the implementation
(harness/impl/impl_sig.py), print them as Gallina terms for Corr/Check_sig.v, and the independent
Python oracles that restate the properties directly on the implementation's observations."""
from __future__ import annotations

import json

from harness.core import COMMON_TRUST, Check, cbool, clist, cnat

HEADER = "From Asphalt Require Import Corr.Check_sig.\n"

SIG_TRUST = COMMON_TRUST + [
    "modelled, not verified: anyio memory object streams (send_nowait: direct hand-off to a waiting receiver, "
    "WouldBlock on a full buffer), the descriptor protocol, weak references and the garbage collector; owner "
    "instances, event objects and bound signals are opaque identities; filters come from a fixed pool of 4 predicates",
    "consumers are real tasks driven by a lock-step director; quiescence = trio.testing.wait_all_tasks_blocked / "
    "asyncio ready queue observed empty twice",
]

SUBCLS = {0: {0}, 1: {0, 1}, 2: {0, 2}, 3: {0, 1, 3}}   # event class -> its ancestors (incl. itself)
ATTR_CLS = [0, 1, 2]


def flt_pass(f, e):
    return [True, e["id"] % 2 == 0, e["cls"] in (1, 3), e["topic"] == 0][f]


def ev_term(e):
    return f"(Ev {cnat(e['id'])} {cnat(e['cls'])} {cnat(max(e['src'], 0) if e['src'] >= 0 else 999)} " \
           f"{cnat(e['topic'] if e['topic'] >= 0 else 999)})"


def op_term(op):
    k = op["op"]
    if k == "Access":
        return f"(Access {op['i']} {op['a']})"
    if k == "Subscribe":
        return f"(Subscribe {clist(map(cnat, op['chans']))} {op['f']} {op['cap']})"
    if k == "Wait":
        return f"(Wait {clist(map(cnat, op['chans']))} {op['f']})"
    if k == "Burst":
        return "(Burst " + clist(f"({c}, ({i}, {cl}))" for c, i, cl in op["l"]) + ")"
    if k == "Recv":
        return f"(Recv {op['sid']})"
    if k == "Leave":
        return f"(Leave {op['sid']})"
    if k == "ClassUse":
        return f"(ClassUse {op['a']} {op['how']})"
    if k == "Drop":
        return f"(Drop {op['i']})"
    raise ValueError(k)


def out_term(o):
    k = o["k"]
    if k == "Chan":
        return "OInvalid" if o.get("unstable") else f"(OChan {o['c']})"
    if k == "Sub":
        return f"(OSub {o['sid']})"
    if k == "Burst":
        rs = clist("DTypeErr" if r[0] == "type" else f"(DOk {r[1]})" if r[0] == "ok" else "DNoChan" for r in o["r"])
        if any(r[0] == "exc" for r in o["r"]):
            return "OInvalid"
        return f"(OBurst {rs} {clist(f'({sid}, {ev_term(e)})' for sid, e in o['done'])})"
    if k == "Yield":
        return "OInvalid" if o.get("extra") or not o["e"]["time_ok"] else f"(OYield {ev_term(o['e'])})"
    if k == "Blocked":
        return "OBlocked"
    if k == "Left":
        return "OInvalid" if o.get("stray") else "OLeft"
    if k == "Unbound":
        return "OUnbound"
    if k == "Dropped":
        return f"(ODropped {cbool(o['collected'])})"
    return "OInvalid"


def case_term(result):
    return clist(f"({op_term(s['op'])}, {out_term(s['out'])})" for s in result["steps"])


def collect(ck: Check, n_cases: int, n_ops: int, fixed=None):
    cases = []
    for f in fixed or []:
        for be in ("asyncio", "trio"):
            cases.append({"ops": f["ops"], "classes": f["classes"], "backend": be})
    for i in range(n_cases):
        cases.append({"seed": f"{ck.seed}:sig:{ck.tier}:{i}", "n": n_ops if i % 3 else n_ops * 2,
                      "backend": "asyncio" if i % 2 == 0 else "trio"})
    chunk = max(1, (len(cases) + 15) // 16)
    chunks = [cases[i:i + chunk] for i in range(0, len(cases), chunk)]
    res = ck.run_impl("impl_sig.py", [{"cases": c} for c in chunks], timeout=900)
    out = []
    for c, r in zip(chunks, res):
        if "error" in r:
            ck.broke("impl-runner", r)
            continue
        out += r["results"]
    crashed = [r for r in out if "crash" in r]
    if crashed:
        ck.runner_crash({"backend": crashed[0].get("backend"), "case_seed": crashed[0].get("seed")}, crashed[0]["crash"])
    return [r for r in out if "crash" not in r]


# ------------------------------------------------------------------ oracles
def walk(result):
    """Shared bookkeeping taken from the harness's own actions only: which (instance, attribute) each
    channel index stands for, which channels each subscriber listens to, when it was active, and the
    successful dispatches in order."""
    owner = {}      # chan -> (i, a) as first returned
    subs = {}       # sid -> dict(chans, f, oneshot, active, cap, t0)
    return owner, subs


def oracle_C11(result):
    bad = []
    pair_chan, chan_pair = {}, {}
    for i, s in enumerate(result["steps"]):
        op, out = s["op"], s["out"]
        if op["op"] == "Access":
            if out["k"] != "Chan":
                bad.append(("C11:access-failed", f"step {i}: {op} -> {out}", i))
                continue
            if out.get("unstable"):
                bad.append(("C11:identity", f"step {i}: two consecutive accesses of instance {op['i']} attribute "
                            f"{op['a']} returned different bound signals", i))
            k = (op["i"], op["a"])
            if k in pair_chan and pair_chan[k] != out["c"]:
                bad.append(("C11:identity", f"step {i}: instance {op['i']} attribute {op['a']} was bound signal "
                            f"#{pair_chan[k]}, now #{out['c']}", i))
            if out["c"] in chan_pair and chan_pair[out["c"]] != k:
                bad.append(("C11:shared-channel", f"step {i}: (instance {op['i']}, attribute {op['a']}) yields the same "
                            f"bound signal as (instance, attribute) {chan_pair[out['c']]}", i))
            pair_chan.setdefault(k, out["c"])
            chan_pair.setdefault(out["c"], k)
        if op["op"] == "Burst" and out["k"] == "Burst":
            for (ch, eid, cls), r in zip(op["l"], out["r"]):
                a = chan_pair.get(ch, (None, None))[1]
                if a is None:
                    continue
                ok = ATTR_CLS[a] in SUBCLS[cls]
                if ok and r[0] != "ok":
                    bad.append(("C11:typecheck", f"step {i}: event of class {cls} on attribute {a} -> {r}", i))
                if not ok and r[0] != "type":
                    bad.append(("C11:typecheck", f"step {i}: event of wrong class {cls} on attribute {a} was not "
                                f"rejected with TypeError: {r}", i))
        if op["op"] == "ClassUse" and out["k"] != "Unbound":
            bad.append(("C11:unbound", f"step {i}: using a signal through the class ({op['how']}) -> {out}", i))
        if op["op"] == "Drop" and out.get("stale"):
            bad.append(("C11:stale-channel", f"step {i}: after owner instance {op['i']} had been collected, a new "
                        f"instance was handed one of the dead instance's bound signals", i))
        if op["op"] == "Drop" and not out.get("collected"):
            bad.append(("C11:owner-kept-alive", f"step {i}: owner instance {op['i']} is still alive after its last "
                        f"reference was dropped", i))
    bad += delivery_oracle(result, chan_pair, "C11")
    return bad


def delivery_oracle(result, chan_pair, which):
    """C10/C11 on deliveries: every yielded event was dispatched (successfully) on one of the stream's
    channels while the stream was active, passes its filter, carries the channel's instance and attribute,
    arrives once and in dispatch order; when a consumer blocks, everything that was certainly accepted
    (dispatch without any warning) and passes the filter has been yielded."""
    bad = []
    subs = {}
    disp = {}          # eid -> (chan, step, warned)
    order = []         # eids in dispatch order
    for i, s in enumerate(result["steps"]):
        op, out = s["op"], s["out"]
        if op["op"] in ("Subscribe", "Wait") and out["k"] == "Sub":
            subs[out["sid"]] = {"chans": set(op["chans"]), "f": op["f"], "oneshot": op["op"] == "Wait",
                                "active": True, "got": [], "sure": [], "poss": set(), "t0": i,
                                # a stream with a queue of length ZERO takes an event only while its consumer is
                                # parked in __anext__: everything else overflows (lost for it, with a warning)
                                "zero": op["op"] == "Subscribe" and op.get("cap") == 0, "parked": False, "lost": set()}

        def yielded(sid, e, i=i):
            sb = subs.get(sid)
            if sb is None:
                bad.append((f"{which}:unknown-subscriber", f"step {i}: event for unknown subscriber {sid}", i))
                return
            eid = e["id"]
            if eid not in disp:
                bad.append((f"{which}:phantom-event", f"step {i}: subscriber {sid} received event {eid} that was never "
                            f"dispatched successfully", i))
                return
            ch = disp[eid][0]
            if ch not in sb["chans"] or eid not in sb["poss"]:
                bad.append(("C11:isolation" if ch not in sb["chans"] else f"{which}:outside-subscription",
                            f"step {i}: subscriber {sid} (channels {sorted(sb['chans'])}) received event {eid} "
                            f"dispatched on channel {ch} {chan_pair.get(ch)}", i))
            if not flt_pass(sb["f"], e):
                bad.append(("C10:filter", f"step {i}: subscriber {sid} received event {eid} that fails its filter", i))
            if chan_pair.get(ch) and (e["src"], e["topic"]) != tuple(chan_pair[ch]):
                bad.append(("C10:stamp", f"step {i}: event {eid} dispatched on {chan_pair[ch]} is stamped "
                            f"source={e['src']} topic={e['topic']}", i))
            if not e["time_ok"]:
                bad.append(("C10:stamp", f"step {i}: event {eid} has no float time", i))
            if eid in sb["got"]:
                bad.append(("C10:duplicate", f"step {i}: subscriber {sid} received event {eid} twice", i))
            if eid in sb["lost"]:
                bad.append(("C10:overflow-delivered", f"step {i}: subscriber {sid} (queue of length 0, not waiting when "
                            f"event {eid} was dispatched) received that event although it overflowed its queue", i))
            sb["parked"] = False
            if sb["got"] and order.index(sb["got"][-1]) > order.index(eid):
                bad.append(("C10:order", f"step {i}: subscriber {sid} received event {eid} after {sb['got'][-1]}", i))
            sb["got"].append(eid)
            if sb["oneshot"]:
                sb["active"] = False

        if op["op"] == "Burst" and out["k"] == "Burst":
            for (ch, eid, cls), r in zip(op["l"], out["r"]):
                if r[0] == "exc":
                    bad.append(("C10:dispatch-raised", f"step {i}: dispatch raised {r[1]}", i))
                if r[0] != "ok":
                    continue
                disp[eid] = (ch, i, r[1])
                order.append(eid)
                listeners = [sb for sb in subs.values() if sb["active"] and ch in sb["chans"]]
                if r[1] > len(listeners):
                    bad.append(("C10:warnings", f"step {i}: {r[1]} queue-full warnings for {len(listeners)} subscribers", i))
                a = chan_pair.get(ch, (0, 0))
                e = {"id": eid, "cls": cls, "src": a[0], "topic": a[1]}
                must_warn = 0
                for sb in listeners:
                    sb["poss"].add(eid)
                    if (r[1] == 0 or sb["oneshot"]) and flt_pass(sb["f"], e):
                        sb["sure"].append(eid)
                    if sb["zero"]:
                        if sb["parked"]:
                            sb["parked"] = False          # handed over; nobody is waiting any more during this burst
                            sb.setdefault("handed", []).append(e)
                        else:
                            sb["lost"].add(eid)
                            must_warn += 1
                if r[1] < must_warn:
                    bad.append(("C10:warnings", f"step {i}: {r[1]} queue-full warnings although {must_warn} subscribers "
                                f"with a queue of length 0 were not waiting", i))
            for sid, e in out["done"]:
                yielded(sid, e)
            for sid_, sb in subs.items():
                # a handed-over event that fails the filter is consumed silently and the consumer parks again; one that
                # passes it has been yielded by now: a consumer parked in __anext__ takes the event whatever the
                # length of its queue
                for e in sb.pop("handed", []):
                    if sb["active"] and not flt_pass(sb["f"], e):
                        sb["parked"] = True
                    elif flt_pass(sb["f"], e) and e["id"] not in sb["got"]:
                        bad.append(("C10:lost-event", f"step {i}: subscriber {sid_} (queue of length 0) was waiting in "
                                    f"__anext__ when event {e['id']} was dispatched and did not receive it", i))
        if op["op"] == "Recv":
            if out["k"] == "Yield":
                yielded(op["sid"], out["e"])
                for sid, e in out.get("extra", []):
                    bad.append(("C10:duplicate", f"step {i}: one __anext__ produced two events", i))
            elif out["k"] == "Blocked":
                sb = subs[op["sid"]]
                sb["parked"] = True
                missing = [x for x in sb["sure"] if x not in sb["got"]]
                if missing:
                    bad.append(("C10:lost-event", f"step {i}: subscriber {op['sid']} blocks although events {missing[:5]} "
                                f"were dispatched to it without overflow and pass its filter", i))
        if op["op"] == "Leave" and out["k"] == "Left":
            if op["sid"] in subs:
                subs[op["sid"]]["active"] = False
                subs[op["sid"]]["parked"] = False
            for sid, e in out.get("stray", []):
                yielded(sid, e)
    # wait_event returns the FIRST passing event dispatched after it began; and it returns as soon as
    # there is one
    for sid, sb in subs.items():
        if sb["oneshot"]:
            if sb["sure"] and (not sb["got"] or sb["got"][0] != sb["sure"][0]):
                bad.append(("C10:wait-first", f"waiter {sid}: first passing event dispatched after it began is "
                            f"{sb['sure'][0]}, it returned {sb['got'][:1]}", sb["t0"]))
            if len(sb["got"]) > 1:
                bad.append(("C10:wait-first", f"waiter {sid} returned more than once", sb["t0"]))
    return bad


def oracle_C10(result):
    chan_pair = {}
    for s in result["steps"]:
        if s["op"]["op"] == "Access" and s["out"]["k"] == "Chan":
            chan_pair.setdefault(s["out"]["c"], (s["op"]["i"], s["op"]["a"]))
    bad = [b for b in delivery_oracle(result, chan_pair, "C10")]
    for i, s in enumerate(result["steps"]):
        if s["op"]["op"] == "Drop" and s["out"].get("stale"):
            # events dispatched through it would carry the dead instance (None) as their source and reach the dead
            # instance's subscribers
            bad.append(("C10:stale-channel", f"step {i}: a new instance was handed the bound signal of the collected "
                        f"owner {s['op']['i']}", i))
    return bad


def nontrivial(result) -> bool:
    ops = [s["op"]["op"] for s in result["steps"]]
    got = any(s["out"]["k"] == "Yield" or (s["out"]["k"] == "Burst" and s["out"]["done"]) for s in result["steps"])
    return ops.count("Subscribe") + ops.count("Wait") >= 2 and "Burst" in ops and got


def distribution(results):
    d = {"ops": {}, "outs": {}, "backend": {}, "burst_sizes": {}, "warnings": 0, "type_errors": 0,
         "instances": {}}
    for r in results:
        d["backend"][r["backend"]] = d["backend"].get(r["backend"], 0) + 1
        d["instances"][len(r["classes"])] = d["instances"].get(len(r["classes"]), 0) + 1
        for s in r["steps"]:
            d["ops"][s["op"]["op"]] = d["ops"].get(s["op"]["op"], 0) + 1
            d["outs"][s["out"]["k"]] = d["outs"].get(s["out"]["k"], 0) + 1
            if s["op"]["op"] == "Burst" and s["out"]["k"] == "Burst":
                n = len(s["op"]["l"])
                d["burst_sizes"][n] = d["burst_sizes"].get(n, 0) + 1
                d["warnings"] += sum(x[1] for x in s["out"]["r"] if x[0] == "ok")
                d["type_errors"] += sum(1 for x in s["out"]["r"] if x[0] == "type")
    return d


def shrink(ck, result, oracle, sig):
    ops = [s["op"] for s in result["steps"]]
    be, classes = result["backend"], result["classes"]

    def fails(cand):
        r = ck.run_impl("impl_sig.py", [{"cases": [{"ops": cand, "classes": classes, "backend": be}]}])[0]
        if "error" in r or "crash" in r["results"][0]:
            return None
        rr = r["results"][0]
        return rr if any(b[0] == sig for b in oracle(rr)) else None
    best, n, changed = result, 0, True
    while changed and n < 80:
        changed = False
        for i in range(len(ops) - 1, -1, -1):
            if ops[i]["op"] in ("Access", "Subscribe", "Wait"):
                continue     # later operations refer to channels / subscribers by index
            cand = ops[:i] + ops[i + 1:]
            n += 1
            rr = fails(cand)
            if rr:
                ops, best, changed = cand, rr, True
                break
    return best


FIXED = [
    # F1: two signals of one instance are different channels; F1b: equal instances do not share
    {"classes": [2, 2, 1], "ops": [
        {"op": "Access", "i": 0, "a": 0}, {"op": "Access", "i": 0, "a": 1}, {"op": "Access", "i": 1, "a": 0},
        {"op": "Access", "i": 2, "a": 2}, {"op": "Access", "i": 0, "a": 0},
        {"op": "Subscribe", "chans": [1], "f": 0, "cap": 3},
        {"op": "Burst", "l": [[0, 0, 0], [1, 1, 1], [2, 2, 0], [1, 3, 0]]},
        {"op": "Recv", "sid": 0}, {"op": "Recv", "sid": 0}]},
    # F7: a waiter must survive a burst of > 50 events failing its filter
    {"classes": [0], "ops": [
        {"op": "Access", "i": 0, "a": 0}, {"op": "Wait", "chans": [0], "f": 2},
        {"op": "Burst", "l": [[0, k, 0] for k in range(60)] + [[0, 60, 1]]}]},
    # overflow is local to one subscriber
    {"classes": [1], "ops": [
        {"op": "Access", "i": 0, "a": 2}, {"op": "Subscribe", "chans": [0], "f": 0, "cap": 1},
        {"op": "Subscribe", "chans": [0], "f": 0, "cap": 3}, {"op": "Subscribe", "chans": [0], "f": 0, "cap": 0},
        {"op": "Recv", "sid": 2},
        {"op": "Burst", "l": [[0, 0, 2], [0, 1, 2], [0, 2, 2]]},
        {"op": "Recv", "sid": 0}, {"op": "Recv", "sid": 0}, {"op": "Recv", "sid": 1}, {"op": "Recv", "sid": 1},
        {"op": "Recv", "sid": 1}, {"op": "Leave", "sid": 0}, {"op": "Burst", "l": [[0, 3, 2]]},
        {"op": "Recv", "sid": 1}, {"op": "Leave", "sid": 2}]},
    # binding (and subscribing) never keeps the owner alive
    {"classes": [1, 3, 2], "ops": [
        {"op": "Access", "i": 0, "a": 2}, {"op": "Access", "i": 1, "a": 0}, {"op": "Access", "i": 2, "a": 1},
        {"op": "Subscribe", "chans": [0, 1], "f": 0, "cap": 2}, {"op": "Wait", "chans": [1], "f": 0},
        {"op": "Burst", "l": [[0, 0, 2]]}, {"op": "Drop", "i": 1}, {"op": "Drop", "i": 2},
        {"op": "Recv", "sid": 0}, {"op": "Access", "i": 0, "a": 2}]},
]


def run_property(ck: Check, oracle, props_extra=()):
    ck.trusted = SIG_TRUST
    ck.prove(extra_targets=["Corr/Check_sig.v", "Ev/SigExamples.v"])
    results = collect(ck, ck.n(1000, 30000), 22, FIXED)
    terms = [case_term(r) for r in results]
    bad = ck.coq_eval("sig", HEADER, terms, "sig_case", "check_sig", shard=150)
    sigs, n_fail = {}, 0
    for r in results:
        for sig, what, step in oracle(r):
            n_fail += 1
            sigs.setdefault(sig, (r, what))
    for sig, (r, what) in sigs.items():
        small = r
        if len(r["steps"]) > 8:
            try:
                small = shrink(ck, r, oracle, sig)
            except Exception as e:  # noqa
                ck.notes.append(f"shrinking failed: {e}")
        w = next((b[1] for b in oracle(small) if b[0] == sig), what)
        ck.fail_input(sig, w, {"backend": small["backend"], "classes": small["classes"],
                               "ops": [s["op"] for s in small["steps"]], "outs": [s["out"] for s in small["steps"]]})
    for i in bad[:10]:
        if not oracle(results[i]):
            ck.broke("correspondence", {"case_seed": results[i].get("seed"), "backend": results[i]["backend"],
                                        "classes": results[i]["classes"],
                                        "ops": [s["op"] for s in results[i]["steps"]],
                                        "outs": [s["out"] for s in results[i]["steps"]]})
    distinct = {json.dumps([s["op"] for s in r["steps"]], sort_keys=True): nontrivial(r) for r in results}
    ck.coverage.update({
        "evaluations": len(results),
        "distinct_nontrivial": sum(1 for v in distinct.values() if v),
        "rule": "seeded signal programs over 1-4 owner instances of 7 classes (plain, subclass inheriting signals, "
                "value-equal frozen dataclass, slotted, falsy container, copy.copy() of an instance with bound signals, "
                "base+subclass with equally spelt private signals) with 2-3 Signal attributes of different event classes: "
                "attribute access, stream_events consumers (1-3 signals, filter from a pool of 4, queue size 0-3) and "
                "wait_event waiters run as real tasks under a lock-step director, bursts of 1-70 dispatches without a "
                "checkpoint (8% of events of a wrong class), consumers asking for the next event, leaving (also while "
                "blocked), class-level use, dropping the last reference to an owner; every outcome compared inside Coq "
                "with the model. distinct = by op list; non-trivial = >= 2 subscribers, a burst and a delivery",
        "samples": [{"backend": r["backend"], "classes": r["classes"], "ops": [s["op"] for s in r["steps"]][:10],
                     "outs": [s["out"] for s in r["steps"]][:10]} for r in results[len(FIXED) * 2:][:2]],
        "traces_validated_against_impl": len(results) - len(bad),
        "mismatches": len(bad),
        "operations_executed": sum(len(r["steps"]) for r in results),
        "input_distribution": distribution(results),
        "oracle_failures": n_fail,
    })
    if ck.tier == "thorough":
        ck.coqchk()
    return results, bad


def replay_generic(ck: Check, obj, oracle) -> int:
    rp = obj.get("replay") or obj["no_longer_checks"][0]["detail"]
    r = ck.run_impl("impl_sig.py", [{"cases": [{"ops": rp["ops"], "classes": rp["classes"],
                                                 "backend": rp["backend"]}]}])[0]
    rr = r["results"][0]
    for s in rr["steps"]:
        print(s["op"], "->", s["out"])
    bad = oracle(rr)
    for b in bad:
        print("ORACLE:", b[0], "-", b[1])
    mism = ck.coq_eval("replay", HEADER, [case_term(rr)], "sig_case", "check_sig")
    print("model/implementation correspondence:", "DISAGREE" if mism else "agree")
    return 1 if bad or mism else 0
